"""Call gen() of every property module for many (seed, index) pairs: a generator must never raise."""
import importlib, os, random, sys, traceback, glob
sys.path.insert(0, os.path.dirname(os.path.dirname(os.path.abspath(__file__)))); sys.path.insert(0, os.environ.get("VERIF_REPO", "/repo"))
os.environ["AIOHTTP_NO_EXTENSIONS"] = "1"
from sim import seams, runner
seams.install()
mods = sys.argv[1:] or sorted(os.path.basename(p)[:-3] for p in glob.glob(os.path.join(os.path.dirname(__file__), "..", "props", "c[0-9][0-9].py")))
bad = 0
for name in mods:
    mod = importlib.import_module("props." + name)
    n = 0
    for seed in range(6):
        for i in range(0, 4000):
            try:
                rs = runner.run_seed_of(seed, mod.PROP, i)
                for tier in ("quick", "thorough"):
                    mod.gen(random.Random(rs), tier, i)
                n += 1
            except Exception:
                bad += 1
                print(name, "seed", seed, "index", i, traceback.format_exc().splitlines()[-1])
                break
    print(name, "ok" if not bad else "", n)
sys.exit(1 if bad else 0)
