"""Sensitivity self-test: apply each mutant patch under /verif/mutants/ (or the
seeded changes under /verif/seeded/*/patch.diff) to a scratch copy of the tree
under test, run the quick check of the named property against it
(VERIF_REPO=<copy>) and expect exit 1.  Results go to evidence/sensitivity.json.

usage: python selftest/sensitivity.py [--only C07] [--budget 30] [--workers 8] [--seeded] [--jobs 2]
"""
from __future__ import annotations

import argparse
import concurrent.futures as cf
import glob
import json
import os
import re
import shutil
import subprocess
import sys
import tempfile
import time

VERIF = os.path.dirname(os.path.dirname(os.path.abspath(__file__)))
REPO = os.environ.get("VERIF_REPO", "/repo")


def one(patch, prop, budget, workers, label=None):
    label = label or os.path.basename(patch)
    tmp = tempfile.mkdtemp(prefix="verif-mut-")
    t0 = time.time()
    try:
        subprocess.run(["rsync", "-a", "--exclude", "__pycache__", os.path.join(REPO, "aiohttp"), tmp + "/"], check=True)
        r = subprocess.run(["git", "apply", "--unsafe-paths", "--directory", tmp, patch], capture_output=True, text=True, cwd="/")
        if r.returncode != 0:
            r = subprocess.run(["patch", "-p1", "-d", tmp, "-i", patch], capture_output=True, text=True)
            if r.returncode != 0:
                return {"patch": label, "property": prop, "result": "PATCH_FAILED", "detail": (r.stdout + r.stderr)[-300:]}
        env = dict(os.environ, VERIF_REPO=tmp, VERIF_WORKERS=str(workers), VERIF_BUDGET_S=str(budget), VERIF_REPLAY_DIR=tmp, VERIF_EVIDENCE_DIR=tmp)
        p = subprocess.run(["timeout", "-k", "5", str(int(budget * 3 + 120)), os.path.join(VERIF, "check"), prop, "--tier", "quick"],
                           capture_output=True, text=True, env=env, cwd=VERIF)
        out = p.stdout
        m = re.search(r"invariant=(\S+) key=(\S+)", out)
        res = {"patch": label, "property": prop, "exit": p.returncode,
               "result": "CAUGHT" if p.returncode == 1 else ("SURVIVED" if p.returncode == 0 else "ERROR"),
               "invariant": m.group(1) if m else None, "key": m.group(2) if m else None, "wall_s": round(time.time() - t0, 1)}
        if p.returncode not in (0, 1):
            res["detail"] = (out + p.stderr)[-600:]
        return res
    finally:
        shutil.rmtree(tmp, ignore_errors=True)


def main():
    ap = argparse.ArgumentParser()
    ap.add_argument("--only")
    ap.add_argument("--budget", type=float, default=30)
    ap.add_argument("--workers", type=int, default=8)
    ap.add_argument("--jobs", type=int, default=2)
    ap.add_argument("--seeded", action="store_true")
    ap.add_argument("--match", help="regular expression on the patch label")
    a = ap.parse_args()
    items = []
    if a.seeded:
        for d in sorted(glob.glob(os.path.join(VERIF, "seeded", "*"))):
            pf = os.path.join(d, "patch.diff")
            mf = os.path.join(d, "meta.json")
            if os.path.exists(pf) and os.path.exists(mf):
                items.append((pf, json.load(open(mf))["property"], os.path.basename(d)))
    else:
        for pf in sorted(glob.glob(os.path.join(VERIF, "mutants", "*.patch"))):
            if "EQUIVALENT" in pf:
                continue
            items.append((pf, os.path.basename(pf).split("-")[0], None))
    all_items = list(items)
    if a.match:
        items = [it for it in items if re.search(a.match, it[2] or os.path.basename(it[0]))]
    if a.only:
        items = [it for it in items if it[1] in a.only.split(",")]
    results = []
    with cf.ThreadPoolExecutor(max_workers=a.jobs) as ex:
        futs = [ex.submit(one, pf, prop, a.budget, a.workers, label) for pf, prop, label in items]
        for f in cf.as_completed(futs):
            r = f.result()
            results.append(r)
            print(f"{r['result']:9s} {r['property']} {r['patch']} {r.get('invariant')} {r.get('key')} {r.get('wall_s')}s", flush=True)
    results.sort(key=lambda r: (r["property"], r["patch"]))
    name = "sensitivity_seeded.json" if a.seeded else "sensitivity.json"
    path = os.path.join(VERIF, "evidence", name)
    old = {}
    if os.path.exists(path):
        try:
            old = {(r["property"], r["patch"]): r for r in json.load(open(path))["results"]}
        except Exception:
            old = {}
    for r in results:
        old[(r["property"], r["patch"])] = r
    live = {(prop, label or os.path.basename(pf)) for pf, prop, label in all_items}
    old = {k: v for k, v in old.items() if k in live}  # results of patches that no longer exist are dropped
    allr = sorted(old.values(), key=lambda r: (r["property"], r["patch"]))
    json.dump({"results": allr, "caught": sum(r["result"] == "CAUGHT" for r in allr), "total": len(allr)}, open(path, "w"), indent=1)
    bad = [r for r in results if r["result"] != "CAUGHT"]
    print(f"{len(results) - len(bad)}/{len(results)} caught")
    return 1 if bad else 0


if __name__ == "__main__":
    sys.exit(main())
