"""Determinism self-test: for each property module run N scenarios twice in fresh interpreters under
different PYTHONHASHSEED values (and reversed order) and compare event-log digests.
usage: python selftest/determinism.py [--n 150] [--seed 6] [props...]"""
import argparse, json, os, subprocess, sys
VERIF = os.path.dirname(os.path.dirname(os.path.abspath(__file__)))
CHILD = r'''
import sys, os, json, importlib
sys.path.insert(0, %r); sys.path.insert(0, os.environ.get("VERIF_REPO", "/repo"))
os.environ["AIOHTTP_NO_EXTENSIONS"] = "1"
import logging; logging.disable(logging.CRITICAL)
from sim import seams, runner
seams.install()
mod = importlib.import_module("props." + sys.argv[1]); n = int(sys.argv[2]); seed = int(sys.argv[3]); rev = sys.argv[4] == "1"
idx = list(range(n))
if rev: idx.reverse()
out = {}
for i in idx:
    rs, scn = runner._scenario_for(mod, "quick", seed, i)
    r = runner.execute(mod, scn, rs)
    out[i] = [r.get("digest"), r.get("outcome"), [v["key"] for v in r["violations"]]]
print(json.dumps(out))
''' % VERIF
def main():
    ap = argparse.ArgumentParser(); ap.add_argument("--n", type=int, default=150); ap.add_argument("--seed", type=int, default=6)
    ap.add_argument("props", nargs="*")
    a = ap.parse_args()
    props = a.props or sorted(f[:-3] for f in os.listdir(os.path.join(VERIF, "props")) if f[0] == "c" and f[1:3].isdigit() and f.endswith(".py"))
    bad = 0
    summary = {}
    for p in props:
        res = []
        for hs, rev in (("0", "0"), ("12345", "1")):
            env = dict(os.environ, PYTHONHASHSEED=hs, PYTHONDONTWRITEBYTECODE="1", VERIF_RUN_WALL_S="60")
            r = subprocess.run(["timeout", "-k", "5", "900", "/venv/bin/python", "-c", CHILD, p, str(a.n), str(a.seed), rev], capture_output=True, text=True, env=env)
            try:
                res.append(json.loads(r.stdout.strip().splitlines()[-1]))
            except Exception:
                print(p, "CHILD FAILED", r.stderr[-400:]); bad += 1; res.append({})
        diff = [i for i in res[0] if res[0].get(i) != res[1].get(i)]
        print(p, "runs", len(res[0]), "differences", len(diff), diff[:5]); bad += bool(diff)
        summary[p] = {"runs": len(res[0]), "differences": len(diff)}
    path = os.path.join(VERIF, "evidence", "determinism.json")
    old = {}
    if os.path.exists(path):
        try:
            old = json.load(open(path)).get("modules", {})
        except Exception:
            old = {}
    old.update(summary)
    json.dump({"method": "each module: the same (seed, index) runs in two fresh interpreters, PYTHONHASHSEED 0 vs 12345, "
                         "forward vs reverse order; event-log digest, outcome and violation keys compared per run",
               "search_seed": a.seed, "modules": old}, open(path, "w"), indent=1)
    return 1 if bad else 0
if __name__ == "__main__":
    sys.exit(main())
