"""ref_cookies - an RFC 6265 section 5 reference cookie store (DESIGN.md section 5).

Written from the text of RFC 6265 (5.1.1 dates, 5.1.3 domain matching, 5.1.4
paths, 5.2 Set-Cookie parsing, 5.3 storage model, 5.4 Cookie header), not from
aiohttp's code.  The places where aiohttp *documents* a different behaviour are
configuration of the store (class Config); nothing else is relaxed.

The store is pure: the caller passes `now` (seconds since the epoch) to every
operation that depends on the clock.  A cookie is "expired" when its
expiry-time is not later than `now` (RFC 6265: "has an expiry date in the
past"; a cookie with Max-Age=N has lived its N seconds at creation + N).

Diagnostics only (never used to decide what is sent): every cookie carries the
`tag` given by the caller and the store remembers the fate of every tag
(rejected:<why> / expired / replaced / cleared) so that a check can say *why*
a cookie the jar under test sent should not have been sent.
"""
from __future__ import annotations

import datetime
import re

INF = float("inf")
_EPOCH = datetime.datetime(1970, 1, 1, tzinfo=datetime.timezone.utc)

# --------------------------------------------------------------------------
# 5.1.1 Dates

_DELIM = r"\x09\x20-\x2F\x3B-\x40\x5B-\x60\x7B-\x7E"
_TOKEN_RE = re.compile("[^" + _DELIM + "]+")
_TIME_RE = re.compile(r"(\d{1,2}):(\d{1,2}):(\d{1,2})(?:\D.*)?\Z", re.S | re.A)
_DAY_RE = re.compile(r"(\d{1,2})(?:\D.*)?\Z", re.S | re.A)
_YEAR_RE = re.compile(r"(\d{2,4})(?:\D.*)?\Z", re.S | re.A)
_MONTHS = ("jan", "feb", "mar", "apr", "may", "jun", "jul", "aug", "sep", "oct", "nov", "dec")


def parse_cookie_date(s: str):
    """RFC 6265 5.1.1.  Seconds since the epoch (int) or None when the algorithm fails."""
    found_time = found_day = found_month = found_year = False
    hour = minute = second = day = month = year = 0
    for tok in _TOKEN_RE.findall(s):
        if not found_time:
            m = _TIME_RE.match(tok)
            if m:
                found_time = True
                hour, minute, second = int(m.group(1)), int(m.group(2)), int(m.group(3))
                continue
        if not found_day:
            m = _DAY_RE.match(tok)
            if m:
                found_day = True
                day = int(m.group(1))
                continue
        if not found_month:
            low = tok[:3].lower()
            if low in _MONTHS:
                found_month = True
                month = _MONTHS.index(low) + 1
                continue
        if not found_year:
            m = _YEAR_RE.match(tok)
            if m:
                found_year = True
                year = int(m.group(1))
                continue
    if 70 <= year <= 99:
        year += 1900
    elif 0 <= year <= 69:
        year += 2000
    if not (found_time and found_day and found_month and found_year):
        return None
    if day < 1 or day > 31 or year < 1601 or hour > 23 or minute > 59 or second > 59:
        return None
    try:
        dt = datetime.datetime(year, month, day, hour, minute, second, tzinfo=datetime.timezone.utc)
    except ValueError:  # "If no such date exists"
        return None
    return int((dt - _EPOCH).total_seconds())


# --------------------------------------------------------------------------
# 5.1.2 / 5.1.3 hosts and domain matching

_IPV4_RE = re.compile(r"(\d{1,3})\.(\d{1,3})\.(\d{1,3})\.(\d{1,3})\Z", re.A)


def canonical_host(host: str) -> str:
    """5.1.2 (the lattice has no non-ASCII labels, so this is lower-casing)."""
    return host.lower()


_IP_MEMO: dict = {}


def is_ip_literal(host: str) -> bool:
    """An IPv4 dotted quad or an IPv6 literal (with or without brackets)."""
    r = _IP_MEMO.get(host)
    if r is None:
        h = host[1:-1] if host.startswith("[") and host.endswith("]") else host
        if ":" in h:
            r = True
        else:
            m = _IPV4_RE.match(h)
            r = bool(m) and all(int(g) <= 255 for g in m.groups())
        if len(_IP_MEMO) < 4096:
            _IP_MEMO[host] = r
    return r


def domain_match(string: str, domain: str) -> bool:
    """5.1.3: does `string` (a canonical host) domain-match `domain`?"""
    if string == domain:
        return True
    if not domain:
        return False
    if not string.endswith(domain):
        return False
    if string[len(string) - len(domain) - 1: len(string) - len(domain)] != ".":
        return False
    return not is_ip_literal(string)  # "The string is a host name (i.e., not an IP address)"


# --------------------------------------------------------------------------
# 5.1.4 paths


def default_path(uri_path: str) -> str:
    if not uri_path or uri_path[0] != "/":
        return "/"
    if uri_path.count("/") == 1:
        return "/"
    return uri_path[: uri_path.rfind("/")]


def path_match(request_path: str, cookie_path: str) -> bool:
    if request_path == cookie_path:
        return True
    if request_path.startswith(cookie_path):
        if cookie_path.endswith("/"):
            return True
        if request_path[len(cookie_path)] == "/":
            return True
    return False


# --------------------------------------------------------------------------
# 5.2 Set-Cookie

_WSP = " \t"


_DIGITS = "0123456789"


def _delta_seconds(aval: str):
    """5.2.2: first character DIGIT or "-", remainder DIGITs only; else the cookie-av is ignored."""
    if not aval or aval[0] not in _DIGITS + "-":
        return None
    if any(ch not in _DIGITS for ch in aval[1:]):
        return None
    if aval == "-":
        return None
    return int(aval)


def parse_set_cookie(header: str, now: float):
    """5.2: returns (name, value, attrs) or None when the string is ignored.
    attrs is the cookie-attribute-list: [(lower-case name, processed value)].
    Values: expires -> epoch seconds, max-age -> expiry-time (float, -inf for
    delta <= 0), domain -> lower-cased without one leading dot, path -> str or
    None (= use the default-path), secure/httponly -> True."""
    if ";" in header:
        nv, rest = header.split(";", 1)
        rest = ";" + rest
    else:
        nv, rest = header, ""
    if "=" not in nv:
        return None
    name, value = nv.split("=", 1)
    name, value = name.strip(_WSP), value.strip(_WSP)
    if not name:
        return None
    attrs = []
    while rest:
        rest = rest[1:]  # discard the ";"
        if ";" in rest:
            av, rest = rest.split(";", 1)
            rest = ";" + rest
        else:
            av, rest = rest, ""
        if "=" in av:
            an, aval = av.split("=", 1)
        else:
            an, aval = av, ""
        an, aval = an.strip(_WSP).lower(), aval.strip(_WSP)
        if an == "expires":
            t = parse_cookie_date(aval)
            if t is not None:
                attrs.append(("expires", t))
        elif an == "max-age":
            delta = _delta_seconds(aval)
            if delta is not None:
                attrs.append(("max-age", -INF if delta <= 0 else now + delta))
        elif an == "domain":
            if not aval:
                continue  # "SHOULD ignore the cookie-av entirely"
            if aval[0] == ".":
                aval = aval[1:]
            attrs.append(("domain", aval.lower()))
        elif an == "path":
            attrs.append(("path", aval if aval[:1] == "/" else None))
        elif an == "secure":
            attrs.append(("secure", True))
        elif an == "httponly":
            attrs.append(("httponly", True))
    return name, value, attrs


# --------------------------------------------------------------------------
# 5.3 / 5.4 the store


class Config:
    """aiohttp's documented deviations from RFC 6265, as switches.

    unsafe                 CookieJar(unsafe=...): without it cookies from IP-literal hosts are
                           refused and nothing (but shared cookies) is sent to IP-literal hosts
                           (docs/client_advanced.rst "Cookie Safety").
    public_suffixes        5.3 step 5 is optional ("if the user agent is configured to reject
                           public suffixes"); aiohttp has no list -> empty.
    shared_without_url     update_cookies(cookies) with no response URL stores "shared" cookies
                           that "are sent in every client request" (docs/client_reference.rst);
                           a Domain attribute on such a cookie is taken as is (there is no
                           origin to check it against).
    secure_origins         CookieJar(treat_as_secure_origin=...): (scheme, host, port) origins
                           over which Secure cookies may be sent in addition to https/wss.
    domain_trailing_dot_absent
                           a Domain attribute ending in "." is ignored, i.e. the cookie becomes
                           host-only (deliberate and tested: tests/test_cookiejar.py
                           test_ignore_domain_ending_with_dot).
    persist_session_cookies  save() writes every cookie, also non-persistent ones.
    reserved_names_refused   a Set-Cookie string whose cookie-name is (case-insensitively) the name
                           of a cookie attribute (RESERVED_NAMES) is ignored as a whole - the
                           http.cookies.Morsel heritage of aiohttp's parser, deliberate and tested
                           (tests/test_cookie_helpers.py test_parse_set_cookie_headers_illegal_cookie_name,
                           ..._attributes_before_cookie, ..._empty_and_invalid).  Off by default:
                           RFC 6265 stores such a cookie like any other.
    """

    def __init__(self, *, unsafe=False, public_suffixes=(), shared_without_url=True,
                 secure_origins=(), domain_trailing_dot_absent=True, persist_session_cookies=True,
                 reserved_names_refused=False):
        self.unsafe = unsafe
        self.public_suffixes = frozenset(public_suffixes)
        self.shared_without_url = shared_without_url
        self.secure_origins = frozenset(secure_origins)
        self.domain_trailing_dot_absent = domain_trailing_dot_absent
        self.persist_session_cookies = persist_session_cookies
        self.reserved_names_refused = reserved_names_refused


# cookie-names aiohttp's Set-Cookie parser refuses (Config.reserved_names_refused)
RESERVED_NAMES = frozenset(("path", "domain", "max-age", "expires", "secure", "httponly", "samesite",
                            "partitioned", "version", "comment"))


class Cookie:
    __slots__ = ("name", "value", "domain", "path", "host_only", "secure", "http_only", "expiry",
                 "persistent", "creation", "shared", "tag", "born")

    def __init__(self, name, value, domain, path, host_only, secure, http_only, expiry, persistent,
                 creation, shared, tag, born):
        self.name = name
        self.value = value
        self.domain = domain
        self.path = path
        self.host_only = host_only
        self.secure = secure
        self.http_only = http_only
        self.expiry = expiry
        self.persistent = persistent
        self.creation = creation  # ordering key (5.3 step 11.3 keeps the old one on replacement)
        self.shared = shared
        self.tag = tag
        self.born = born  # sequence number of the set operation (diagnostics)

    def key(self):
        return (self.name, self.domain, self.path)

    def __repr__(self):
        fl = ("host-only" if self.host_only else "domain") if not self.shared else "shared"
        ex = "session" if not self.persistent else ("exp=%r" % (self.expiry,))
        return (f"<{self.name}={self.value} {fl} domain={self.domain!r} path={self.path!r}"
                f"{' secure' if self.secure else ''} {ex}>")


SECURE_SCHEMES = ("https", "wss")
DEFAULT_PORTS = {"http": 80, "https": 443, "ws": 80, "wss": 443}


class Store:
    def __init__(self, config: Config | None = None):
        self.cfg = config or Config()
        self.cookies: dict[tuple, Cookie] = {}  # insertion ordered, key = (name, domain, path)
        self.fate: dict = {}  # tag -> "live" | "rejected:<why>" | "expired" | "replaced" | "cleared"
        self.graveyard: dict = {}  # tag -> Cookie (as it was when it left the store / was rejected)
        self._seq = 0

    # -- 5.3 ---------------------------------------------------------------
    def set_from_header(self, header: str, host, uri_path: str, now: float, tag=None):
        p = parse_set_cookie(header, now)
        if p is None:
            self.fate[tag] = "rejected:unparsable"
            return None
        name, value, attrs = p
        if self.cfg.reserved_names_refused and name.lower() in RESERVED_NAMES:
            self.fate[tag] = "rejected:reserved_name"
            self.evict(now)
            return None
        return self.set_cookie(name, value, attrs, host, uri_path, now, tag)

    def set_cookie(self, name, value, attrs, host, uri_path, now, tag=None):
        """Steps 1-12 of 5.3.  host None = no response URL (aiohttp "shared" cookies)."""
        cfg = self.cfg
        self._seq += 1
        if tag is None:
            tag = value
        if host is not None:
            host = canonical_host(host)
        # step 3: expiry
        max_ages = [v for k, v in attrs if k == "max-age"]
        expires = [v for k, v in attrs if k == "expires"]
        if max_ages:
            persistent, expiry = True, max_ages[-1]
        elif expires:
            persistent, expiry = True, float(expires[-1])
        else:
            persistent, expiry = False, INF
        # step 4: domain attribute
        domains = [v for k, v in attrs if k == "domain"]
        dom_attr = domains[-1] if domains else ""
        if dom_attr.endswith(".") and cfg.domain_trailing_dot_absent:
            dom_attr = ""
        paths = [v for k, v in attrs if k == "path"]
        secure = any(k == "secure" for k, _ in attrs)
        http_only = any(k == "httponly" for k, _ in attrs)
        shared = False

        def reject(why, domain, path, host_only):
            c = Cookie(name, value, domain, path, host_only, secure, http_only, expiry, persistent,
                       self._seq, False, tag, self._seq)
            self.fate[tag] = "rejected:" + why
            self.graveyard[tag] = c
            self.evict(now)
            return None

        if host is None:
            if not cfg.shared_without_url:
                raise ValueError("cookie without a response URL but shared cookies are disabled")
            if dom_attr:
                host_only, domain = False, dom_attr
            else:
                host_only, domain, shared = False, "", True
            path = paths[-1] if paths and paths[-1] is not None else "/"
        else:
            if is_ip_literal(host) and not cfg.unsafe:
                return reject("ip_host", dom_attr or host, "/", not dom_attr)
            # step 5: public suffixes
            if dom_attr and dom_attr in cfg.public_suffixes:
                if dom_attr == host:
                    dom_attr = ""
                else:
                    return reject("public_suffix", dom_attr, "/", False)
            # step 6
            if dom_attr:
                if not domain_match(host, dom_attr):
                    return reject("cross_site_set", dom_attr,
                                  paths[-1] if paths and paths[-1] else default_path(uri_path), False)
                host_only, domain = False, dom_attr
            else:
                host_only, domain = True, host
            # step 7
            if paths and paths[-1] is not None:
                path = paths[-1]
            else:
                path = default_path(uri_path)
        c = Cookie(name, value, domain, path, host_only, secure, http_only, expiry, persistent,
                   self._seq, shared, tag, self._seq)
        # step 11: replace
        old = self.cookies.pop(c.key(), None)
        if old is not None:
            c.creation = old.creation
            self.fate[old.tag] = "replaced"
            self.graveyard[old.tag] = old
        self.cookies[c.key()] = c
        self.fate[tag] = "live"
        self.evict(now)
        return c

    def evict(self, now: float):
        """"The user agent MUST evict all expired cookies"."""
        dead = [k for k, c in self.cookies.items() if c.expiry <= now]
        for k in dead:
            c = self.cookies.pop(k)
            self.fate[c.tag] = "expired"
            self.graveyard[c.tag] = c
        return len(dead)

    # -- 5.4 ---------------------------------------------------------------
    def is_secure_channel(self, scheme: str, host: str, port) -> bool:
        if scheme in SECURE_SCHEMES:
            return True
        if self.cfg.secure_origins:
            if port is None:
                port = DEFAULT_PORTS.get(scheme)
            return (scheme, canonical_host(host), port) in self.cfg.secure_origins
        return False

    def why_not(self, c: Cookie, host: str, path: str, secure_channel: bool):
        """None if the (live) cookie is to be sent, else the first failing test of 5.4 step 1."""
        if c.shared:
            return None
        ip = is_ip_literal(host)
        if ip and not self.cfg.unsafe:
            return "ip_request_host"
        if c.host_only:
            if host != c.domain:
                return "host_only_to_subdomain" if domain_match(host, c.domain) else "wrong_host"
        elif not domain_match(host, c.domain):
            return "wrong_host"
        if not path_match(path, c.path):
            return "path"
        if c.secure and not secure_channel:
            return "secure_over_http"
        return None

    def select(self, scheme: str, host: str, port, path: str, now: float):
        """The cookie-list of 5.4 for a request, in the order of step 2."""
        self.evict(now)
        host = canonical_host(host)
        sec = self.is_secure_channel(scheme, host, port)
        out = [c for c in self.cookies.values() if self.why_not(c, host, path, sec) is None]
        out.sort(key=lambda c: (-len(c.path), c.creation))
        return out

    # -- management --------------------------------------------------------
    def _remove(self, keys, fate):
        for k in keys:
            c = self.cookies.pop(k)
            self.fate[c.tag] = fate
            self.graveyard[c.tag] = c

    def clear(self, now: float):
        self.evict(now)
        self._remove(list(self.cookies), "cleared")

    def clear_where(self, pred, now: float):
        self.evict(now)
        self._remove([k for k, c in self.cookies.items() if pred(c)], "cleared")

    def clear_domain(self, domain: str, now: float):
        """"belongs to the specified domain or its subdomains"."""
        domain = canonical_host(domain)
        self.clear_where(lambda c: not c.shared and domain_match(c.domain, domain), now)

    def restart(self, now: float):
        """save -> new process -> load: only persisted state survives."""
        self.evict(now)
        if not self.cfg.persist_session_cookies:
            self._remove([k for k, c in self.cookies.items() if not c.persistent], "cleared")

    def live(self):
        return list(self.cookies.values())


# --------------------------------------------------------------------------
# self-test: hand-checked vectors


def oracle_selftest():
    def eq(a, b, what):
        if a != b:
            raise AssertionError(f"ref_cookies self-test: {what}: got {a!r}, expected {b!r}")

    # 5.1.3 domain-match
    for s, d, exp in [
        ("example.com", "example.com", True),
        ("sub.example.com", "example.com", True),
        ("a.sub.example.com", "example.com", True),
        ("badexample.com", "example.com", False),  # suffix without a label boundary
        ("example.com", "sub.example.com", False),
        ("example.com.", "example.com", False),
        ("example.com", "com", True),  # no public-suffix list in 5.1.3 itself
        ("other.com", "example.com", False),
        ("127.0.0.1", "127.0.0.1", True),
        ("127.0.0.1", "0.0.1", False),  # IP addresses only match identically
        ("::1", "::1", True),
        ("example.com", "", False),
    ]:
        eq(domain_match(s, d), exp, f"domain_match({s!r},{d!r})")
    # 5.1.4 default-path
    for p, exp in [("", "/"), ("/", "/"), ("/p", "/"), ("/p/", "/p"), ("/p/q", "/p"), ("/p/q/r", "/p/q"),
                   ("p/q", "/")]:
        eq(default_path(p), exp, f"default_path({p!r})")
    # 5.1.4 path-match (request, cookie)
    for r, c, exp in [
        ("/", "/", True), ("/p", "/", True), ("/p/q", "/p", True), ("/p/q", "/p/", True),
        ("/pq", "/p", False), ("/p", "/p/", False), ("/p/", "/p/", True), ("/p/", "/p", True),
        ("/p", "/p/q", False), ("/", "/p", False), ("/p/q/r", "/p/q", True), ("/p/qr", "/p/q", False),
    ]:
        eq(path_match(r, c), exp, f"path_match({r!r},{c!r})")
    # 5.1.1 dates (1700000000 = Tue, 14 Nov 2023 22:13:20 GMT)
    for s, exp in [
        ("Tue, 14 Nov 2023 22:13:20 GMT", 1700000000),
        ("Tuesday, 14-Nov-23 22:13:20 GMT", 1700000000),
        ("Tue Nov 14 22:13:20 2023", 1700000000),
        ("Tue, 14 Nov 2023 22:13:20 -0000", 1700000000),
        ("14 Nov 2023 22:13:20", 1700000000),
        ("Thu, 01 Jan 1970 00:00:00 GMT", 0),
        ("Sun, 06 Nov 1994 08:49:37 GMT", 784111777),
        ("Sunday, 06-Nov-94 08:49:37 GMT", 784111777),
        ("Sun Nov  6 08:49:37 1994", 784111777),
        ("Wed, 01 Jan 2070 00:00:00 GMT", 3155760000),
        ("Fri, 30 Feb 2024 00:00:00 GMT", None),
        ("Tue, 14 Nov 2023 24:13:20 GMT", None),
        ("Tue, 14 Nov 2023", None),
        ("", None),
        ("Mon, 01 Jan 1600 00:00:00 GMT", None),
    ]:
        eq(parse_cookie_date(s), exp, f"parse_cookie_date({s!r})")
    # 5.2 parsing
    eq(parse_set_cookie("a=1; Domain=.Example.COM; Path=/p; Secure; Max-Age=5", 100.0),
       ("a", "1", [("domain", "example.com"), ("path", "/p"), ("secure", True), ("max-age", 105.0)]), "parse 1")
    eq(parse_set_cookie("a=1; Max-Age=0; Max-Age=x; Path=p; Domain=", 100.0),
       ("a", "1", [("max-age", -INF), ("path", None)]), "parse 2")
    eq(parse_set_cookie("novalue; Path=/", 0.0), None, "parse 3")
    eq(parse_set_cookie("=x", 0.0), None, "parse 4")
    eq(parse_set_cookie("a=1; Max-Age=-3; Expires=Tue, 14 Nov 2023 22:13:20 GMT", 50.0),
       ("a", "1", [("max-age", -INF), ("expires", 1700000000)]), "parse 5")

    # the store: histories
    def sent(st, url, now):
        scheme, rest = url.split("://", 1)
        host, _, path = rest.partition("/")
        return [(c.name, c.value) for c in st.select(scheme, host, None, "/" + path, now)]

    T = 1000.0
    st = Store()
    st.set_from_header("a=1", "example.com", "/p/x", T)  # host-only, default path /p
    eq(sent(st, "http://example.com/p/y", T), [("a", "1")], "host-only to host")
    eq(sent(st, "http://sub.example.com/p/y", T), [], "host-only not to sub-domain")
    eq(sent(st, "http://example.com/", T), [], "default path /p not to /")
    eq(sent(st, "http://example.com/pq", T), [], "/p not to /pq")
    st.set_from_header("b=2; Domain=example.com; Path=/", "sub.example.com", "/", T)
    eq(sent(st, "http://a.sub.example.com/", T), [("b", "2")], "domain cookie to sub-sub-domain")
    eq(sent(st, "http://example.com/p/", T), [("a", "1"), ("b", "2")], "longer path first")
    eq(sent(st, "http://badexample.com/", T), [], "lookalike host")
    eq(sent(st, "http://other.com/", T), [], "other site")
    eq(st.set_from_header("c=3; Domain=example.com", "badexample.com", "/", T), None, "cross-site set refused")
    eq(st.fate["3"], "rejected:cross_site_set", "fate of refused cookie")
    eq(st.set_from_header("c=4; Domain=sub.example.com", "example.com", "/", T), None, "child domain refused")
    st.set_from_header("s=5; Secure; Path=/", "example.com", "/", T)
    eq(sent(st, "http://example.com/", T), [("b", "2")], "Secure not over http")
    eq(sent(st, "https://example.com/", T), [("b", "2"), ("s", "5")], "Secure over https")
    eq(sent(st, "wss://example.com/", T), [("b", "2"), ("s", "5")], "Secure over wss")
    eq(sent(st, "ws://example.com/", T), [("b", "2")], "Secure not over ws")
    # Max-Age beats Expires; eviction at the instant
    st.set_from_header("m=6; Path=/; Expires=Thu, 01 Jan 1970 00:00:00 GMT; Max-Age=10", "example.com", "/", T)
    eq(("m", "6") in sent(st, "http://example.com/", T + 9.75), True, "Max-Age over Expires")
    eq(("m", "6") in sent(st, "http://example.com/", T + 10), False, "expired at the instant")
    eq(st.fate["6"], "expired", "fate expired")
    # replacement on the same (name, domain, path); a domain cookie replaces a host-only one
    st.set_from_header("a=7; Domain=example.com; Path=/p", "example.com", "/", T)
    eq(st.fate["1"], "replaced", "replaced")
    eq(sent(st, "http://sub.example.com/p/y", T), [("a", "7"), ("b", "2")], "replacement is a domain cookie")
    # same name at another path is another cookie
    st.set_from_header("a=8; Path=/p/", "example.com", "/", T)
    eq(sent(st, "http://example.com/p", T), [("a", "7"), ("b", "2")], "/p/ cookie not to /p")
    eq(sent(st, "http://example.com/p/q", T), [("a", "8"), ("a", "7"), ("b", "2")], "both to /p/q, longer first")
    # Max-Age=0 deletes
    st.set_from_header("a=9; Path=/p/; Max-Age=0", "example.com", "/", T)
    eq(sent(st, "http://example.com/p/q", T), [("a", "7"), ("b", "2")], "Max-Age=0 removes")
    # IP hosts
    eq(st.set_from_header("i=1", "127.0.0.1", "/", T), None, "IP refused when not unsafe")
    su = Store(Config(unsafe=True))
    su.set_from_header("i=1", "127.0.0.1", "/", T)
    su.set_from_header("j=2", "::1", "/", T)
    eq(sent(su, "http://127.0.0.1/", T), [("i", "1")], "IP cookie to the same IP")
    eq(su.set_from_header("k=3; Domain=0.0.1", "127.0.0.1", "/", T), None, "IP suffix domain refused")
    eq(su.select("http", "::1", None, "/", T)[0].value, "2", "IPv6 literal")
    # trailing dots
    st.set_from_header("t=1; Domain=example.com.; Path=/", "sub.example.com", "/", T)
    eq(sent(st, "http://sub.example.com/", T), [("b", "2"), ("t", "1")], "Domain with trailing dot -> host-only")
    eq(("t", "1") in sent(st, "http://a.sub.example.com/", T), False, "... not to sub-domains")
    eq(sent(st, "http://example.com./", T), [], "host with trailing dot is another host")
    # shared cookies, clear_domain, restart
    st.set_cookie("sh", "x", [], None, "", T)
    eq(("sh", "x") in sent(st, "http://other.com/zz", T), True, "shared everywhere")
    st.clear_domain("sub.example.com", T)
    eq(sent(st, "http://sub.example.com/", T), [("b", "2"), ("sh", "x")], "clear_domain removes only that domain")
    st.clear_domain("example.com", T)
    eq(sent(st, "http://sub.example.com/", T), [("sh", "x")], "clear_domain removes domain and sub-domains")
    st.set_from_header("p=1; Max-Age=5", "example.com", "/", T)
    st.set_from_header("q=1", "example.com", "/", T)
    st.restart(T + 5)
    eq(sent(st, "http://example.com/", T + 5), [("sh", "x"), ("q", "1")], "restart keeps unexpired, drops expired")
    # secure origins
    so = Store(Config(secure_origins=[("http", "example.com", 80)]))
    so.set_from_header("s=1; Secure", "example.com", "/", T)
    eq(sent(so, "http://example.com/", T), [("s", "1")], "treat_as_secure_origin")
    eq(sent(so, "ws://example.com/", T), [], "another scheme is another origin")
    # public suffix switch
    sp = Store(Config(public_suffixes=["com"]))
    eq(sp.set_from_header("x=1; Domain=com", "example.com", "/", T), None, "public suffix refused when configured")
    s0 = Store()
    s0.set_from_header("x=1; Domain=com", "example.com", "/", T)
    eq(sent(s0, "http://other.com/", T), [("x", "1")], "no public-suffix list: sent to every .com host")
    # a Set-Cookie string that is ignored as a whole changes nothing, whatever it looks like
    si = Store(Config(reserved_names_refused=True))
    si.set_from_header("sid=1; Path=/p", "sub.example.com", "/", T, "t1")
    for junk in ("Secure", "secure; Path=/", "=x; Domain=example.com", "novalue; Max-Age=0", "",
                 "domain=example.com; Path=/", "Path=/", "max-age=0", "Expires=Thu, 01 Jan 1970 00:00:00 GMT"):
        eq(si.set_from_header(junk, "sub.example.com", "/", T, "tj"), None, f"ignored Set-Cookie {junk!r}")
    eq(sent(si, "http://sub.example.com/p", T), [("sid", "1")], "ignored fields leave the stored cookie alone")
    eq(sent(si, "http://example.com/p", T) + sent(si, "http://sub.example.com/", T), [], "... and its scope")
    eq(si.fate["tj"], "rejected:reserved_name", "fate of a reserved-name cookie")
    s0.set_from_header("domain=zz; Path=/", "example.com", "/", T)
    eq(("domain", "zz") in sent(s0, "http://example.com/", T), True, "RFC 6265 itself stores a cookie named 'domain'")


if __name__ == "__main__":
    oracle_selftest()
    print("ok")
