"""Reference models for C04 (outbound framing).  Written from the RFCs, not from
aiohttp: RFC 9112 section 7.1 (chunked), RFC 9110 section 5 (field syntax),
RFC 1950/1951/1952 through zlib's own decoder, RFC 2046 section 5.1 (multipart
body), RFC 2183/6266/8187 (Content-Disposition parameters).

Nothing here imports aiohttp.
"""
from __future__ import annotations

import re
import zlib

HEX = frozenset(b"0123456789abcdefABCDEF")
TCHAR = frozenset(b"!#$%&'*+-.^_`|~0123456789ABCDEFGHIJKLMNOPQRSTUVWXYZabcdefghijklmnopqrstuvwxyz")
_BAD_FIELD_BYTES = re.compile(rb"[\x00-\x08\x0a-\x1f\x7f]")
_CHUNK_EXT = re.compile(rb"(?:[ \t]*;[ \t]*[!#$%&'*+\-.^_`|~0-9A-Za-z]+(?:=(?:[!#$%&'*+\-.^_`|~0-9A-Za-z]+|\"(?:[^\"\\\x00-\x08\x0a-\x1f\x7f]|\\[\t -~\x80-\xff])*\"))?)*")


# ---------------------------------------------------------------------------
# header block


def serialize_head(start_line: str, headers) -> bytes:
    """What a header block for these strings is, by definition: start line, one
    field line `name: value` per supplied pair in order, empty line; UTF-8."""
    out = [start_line, "\r\n"]
    for k, v in headers:
        out += [k, ": ", v, "\r\n"]
    out.append("\r\n")
    return "".join(out).encode("utf-8")


def is_token(b: bytes) -> bool:
    return len(b) > 0 and all(c in TCHAR for c in b)


def field_value_ok(b: bytes) -> bool:
    """field-content after transport encoding: VCHAR / obs-text / SP / HTAB."""
    return _BAD_FIELD_BYTES.search(b) is None


def head_lines(data: bytes):
    """Split a message at the first empty line.  Returns (lines, body_offset) or
    (None, why) when the head is not CRLF-delimited text: a bare CR or LF inside
    the head is reported, never silently split on."""
    i = data.find(b"\r\n\r\n")
    if i < 0:
        return None, "no_end_of_head"
    head = data[:i]
    lines = head.split(b"\r\n")
    for ln in lines:
        if b"\n" in ln:
            return None, "bare_lf"
        if b"\r" in ln:
            return None, "bare_cr"
    return lines, i + 4


# ---------------------------------------------------------------------------
# chunked transfer coding


def dechunk(data: bytes, pos: int = 0) -> dict:
    """Strict decoder for  *chunk last-chunk trailer-section CRLF.

    Returns dict(data, sizes, complete, end, error, tail):
      complete - the terminating empty line was seen
      end      - offset just after it (None if not complete)
      error    - None | (offset, class) for a syntax error (decoding stops there)
      tail     - "" | "size_line" | "chunk_data" | "chunk_crlf" | "trailer": where a
                 truncated input stops (prefix of a well-formed body)
    A chunk of size zero is the last chunk by definition; whatever follows the
    trailer section is not part of this body (the caller checks end == len)."""
    out = bytearray()
    sizes = []
    n = len(data)
    res = {"data": b"", "sizes": sizes, "complete": False, "end": None, "error": None, "tail": ""}

    def done(**kw):
        res.update(kw)
        res["data"] = bytes(out)
        return res

    while True:
        if pos >= n:
            return done(tail="")
        j = data.find(b"\r\n", pos)
        if j < 0:
            rest = data[pos:]
            # a truncated size line may only contain hex digits / extension bytes / a final CR
            body = rest[:-1] if rest.endswith(b"\r") else rest
            if b"\n" in body or b"\r" in body:
                return done(error=(pos, "bare_cr_or_lf_in_size_line"))
            k = body.find(b";")
            sz = body if k < 0 else body[:k]
            if not all(c in HEX for c in sz):
                return done(error=(pos, "bad_chunk_size"))
            return done(tail="size_line")
        line = data[pos:j]
        k = line.find(b";")
        sz = line if k < 0 else line[:k]
        ext = b"" if k < 0 else line[k:]
        if not sz or not all(c in HEX for c in sz):
            return done(error=(pos, "bad_chunk_size"))
        if ext and _CHUNK_EXT.fullmatch(ext) is None:
            return done(error=(pos, "bad_chunk_ext"))
        size = int(sz, 16)
        pos = j + 2
        if size == 0:
            # trailer section
            while True:
                j = data.find(b"\r\n", pos)
                if j < 0:
                    if b"\n" in data[pos:]:
                        return done(error=(pos, "bare_lf_in_trailer"))
                    return done(tail="trailer")
                ln = data[pos:j]
                pos = j + 2
                if ln == b"":
                    return done(complete=True, end=pos)
                c = ln.find(b":")
                if c <= 0 or not is_token(ln[:c]) or not field_value_ok(ln[c + 1:]):
                    return done(error=(pos, "bad_trailer_field"))
        if n - pos < size:
            out += data[pos:]
            return done(tail="chunk_data")
        out += data[pos:pos + size]
        sizes.append(size)
        pos += size
        tail = data[pos:pos + 2]
        if tail != b"\r\n":
            if len(tail) < 2 and b"\r\n".startswith(tail):
                return done(tail="chunk_crlf")
            return done(error=(pos, "no_crlf_after_chunk_data"))
        pos += 2


# ---------------------------------------------------------------------------
# content codings


def decode_content(coding: str, data: bytes):
    """One-shot reference decoding.  -> (decoded, finished, unused, error).
    finished: the compressed stream reached its end marker; unused: bytes after
    it; error: None or the zlib error text (decoded then holds what came out
    before the error)."""
    coding = coding.lower()
    if coding in ("", "identity"):
        return data, True, b"", None
    if coding == "gzip":
        d = zlib.decompressobj(wbits=16 + zlib.MAX_WBITS)
    elif coding == "deflate":
        d = zlib.decompressobj(wbits=zlib.MAX_WBITS)  # zlib-wrapped, RFC 9110 8.4.1.2
    elif coding == "raw-deflate":
        d = zlib.decompressobj(wbits=-zlib.MAX_WBITS)
    else:
        raise ValueError("reference has no decoder for " + coding)
    out = bytearray()
    try:
        # feed in pieces so that output produced before an error is kept
        for i in range(0, len(data), 16384):
            out += d.decompress(data[i:i + 16384])
            if d.eof:
                break
        if not d.eof:
            out += d.flush()
    except zlib.error as e:
        return bytes(out), False, b"", str(e)
    return bytes(out), bool(d.eof), bytes(d.unused_data), None


# ---------------------------------------------------------------------------
# multipart body (RFC 2046 5.1.1), as produced by a writer: no preamble/epilogue


def split_multipart(body: bytes, boundary: bytes):
    """-> (parts, error).  parts: list of dict(header_lines=[bytes], content=bytes).
    error: None | (offset, class)."""
    dash = b"--" + boundary
    parts = []
    pos = 0
    n = len(body)
    if body == dash + b"--\r\n":
        return parts, None
    if not body.startswith(dash + b"\r\n"):
        return parts, (0, "no_opening_delimiter")
    pos = len(dash) + 2
    while True:
        # part header lines up to the empty line
        lines = []
        while True:
            j = body.find(b"\r\n", pos)
            if j < 0:
                return parts, (pos, "truncated_part_head")
            ln = body[pos:j]
            pos = j + 2
            if ln == b"":
                break
            if b"\n" in ln or b"\r" in ln:
                return parts, (pos, "bare_cr_or_lf_in_part_head")
            lines.append(ln)
        k = body.find(b"\r\n" + dash, pos)
        if k < 0:
            return parts, (pos, "no_closing_delimiter")
        parts.append({"header_lines": lines, "content": body[pos:k]})
        pos = k + 2 + len(dash)
        tail = body[pos:pos + 2]
        if tail == b"\r\n":
            pos += 2
            continue
        if tail == b"--":
            pos += 2
            if body[pos:] != b"\r\n":
                return parts, (pos, "bytes_after_close_delimiter")
            return parts, None
        # the delimiter text continued with something else: it was part of the content
        return parts, (pos, "delimiter_prefix_inside_content")


def parse_part_header(line: bytes):
    """MIME part header line -> (name, value) or None."""
    if line[:1] in (b" ", b"\t"):
        return None
    c = line.find(b":")
    if c <= 0:
        return None
    name = line[:c]
    if not is_token(name):
        return None
    value = line[c + 1:]
    if not field_value_ok(value):
        return None
    return name, value.strip(b" \t")


# ---------------------------------------------------------------------------
# Content-Disposition / Content-Type parameters

_TOKEN_RE = rb"[!#$%&'*+\-.^_`|~0-9A-Za-z]+"
_PARAM = re.compile(
    rb"[ \t]*;[ \t]*(" + _TOKEN_RE + rb")=(?:(" + _TOKEN_RE + rb")|\"((?:[^\"\\\x00-\x08\x0a-\x1f\x7f]|\\[\t -~\x80-\xff])*)\")")


def parse_params(value: bytes):
    """`type *( ";" name "=" ( token / quoted-string ) )` -> (type, [(name, value)]) or None
    when the value does not match that grammar completely."""
    m = re.match(rb"[ \t]*(" + _TOKEN_RE + rb"(?:/" + _TOKEN_RE + rb")?)", value)
    if m is None:
        return None
    pos = m.end()
    params = []
    while pos < len(value):
        pm = _PARAM.match(value, pos)
        if pm is None:
            if value[pos:].strip(b" \t") == b"":
                break
            return None
        name = pm.group(1)
        if pm.group(2) is not None:
            v = pm.group(2)
        else:
            v = re.sub(rb"\\(.)", rb"\1", pm.group(3), flags=re.S)
        params.append((name, v))
        pos = pm.end()
    return m.group(1), params


# ---------------------------------------------------------------------------
# self-test vectors (hand-checked)


def selftest():
    assert serialize_head("GET / HTTP/1.1", [("Host", "a"), ("X", "é")]) == b"GET / HTTP/1.1\r\nHost: a\r\nX: \xc3\xa9\r\n\r\n"
    assert head_lines(b"a\r\nb: c\r\n\r\nbody") == ([b"a", b"b: c"], 11)
    assert head_lines(b"a\nb\r\n\r\n")[1] == "bare_lf"
    assert head_lines(b"a\rb\r\n\r\n")[1] == "bare_cr"
    assert head_lines(b"a\r\nb")[1] == "no_end_of_head"
    r = dechunk(b"3\r\nabc\r\n0\r\n\r\n")
    assert r["data"] == b"abc" and r["complete"] and r["end"] == 13 and r["sizes"] == [3] and r["error"] is None
    r = dechunk(b"3\r\nabc\r\n0\r\n\r\nXYZ")
    assert r["complete"] and r["end"] == 13
    r = dechunk(b"3\r\nabc\r\n0\r\n\r\n2\r\nde\r\n0\r\n\r\n")
    assert r["complete"] and r["end"] == 13 and r["data"] == b"abc"  # premature terminator: rest is not this body
    r = dechunk(b"A\r\n0123456789\r\n")
    assert not r["complete"] and r["data"] == b"0123456789" and r["tail"] == "" and r["error"] is None
    r = dechunk(b"A\r\n01234")
    assert r["tail"] == "chunk_data" and r["data"] == b"01234" and r["error"] is None
    r = dechunk(b"A\r\n0123456789\r")
    assert r["tail"] == "chunk_crlf"
    r = dechunk(b"A\r\n0123456789XX")
    assert r["error"] == (13, "no_crlf_after_chunk_data")
    assert dechunk(b"0x3\r\nabc\r\n")["error"][1] == "bad_chunk_size"
    assert dechunk(b"\r\n")["error"][1] == "bad_chunk_size"
    assert dechunk(b"3;a=b\r\nabc\r\n0\r\n\r\n")["complete"]
    assert dechunk(b"3;a\x00\r\nabc\r\n")["error"][1] == "bad_chunk_ext"
    assert dechunk(b"1")["tail"] == "size_line" and dechunk(b"1\r")["tail"] == "size_line"
    assert dechunk(b"1\nX")["error"] is not None
    assert dechunk(b"0\r\nX: y\r\n\r\n")["complete"] and dechunk(b"0\r\nX y\r\n\r\n")["error"][1] == "bad_trailer_field"
    assert dechunk(b"0\r\n")["tail"] == "trailer"
    assert dechunk(b"")["tail"] == "" and not dechunk(b"")["complete"] and dechunk(b"")["error"] is None
    z = zlib.compress(b"hello world" * 10)
    assert decode_content("deflate", z) == (b"hello world" * 10, True, b"", None)
    assert decode_content("deflate", z + b"XX")[1:3] == (True, b"XX")
    out, fin, _u, err = decode_content("deflate", z[:-6])
    assert not fin and err is None and (b"hello world" * 10).startswith(out)
    co = zlib.compressobj(wbits=16 + zlib.MAX_WBITS)
    g = co.compress(b"abc" * 50) + co.flush()
    assert decode_content("gzip", g)[:2] == (b"abc" * 50, True)
    assert decode_content("gzip", b"not gzip")[3] is not None
    assert decode_content("identity", b"x") == (b"x", True, b"", None)
    b = b"--B\r\nA: 1\r\n\r\nhello\r\n--B\r\n\r\n\r\n--B--\r\n"
    parts, err = split_multipart(b, b"B")
    assert err is None and len(parts) == 2 and parts[0] == {"header_lines": [b"A: 1"], "content": b"hello"} and parts[1]["content"] == b""
    assert split_multipart(b"--B--\r\n", b"B") == ([], None)
    assert split_multipart(b"--B\r\nA: 1\r\n\r\nhello\r\n--B--\r\nX", b"B")[1][1] == "bytes_after_close_delimiter"
    assert split_multipart(b"--B\r\nA: 1\r\n\r\nhello", b"B")[1][1] == "no_closing_delimiter"
    assert split_multipart(b"X--B\r\n", b"B")[1][1] == "no_opening_delimiter"
    assert parse_part_header(b"Content-Type: text/plain") == (b"Content-Type", b"text/plain")
    assert parse_part_header(b" folded") is None and parse_part_header(b"A B: c") is None and parse_part_header(b"A: \x00") is None
    assert parse_params(b'form-data; name="a\\"b"; filename=x.txt') == (b"form-data", [(b"name", b'a"b'), (b"filename", b"x.txt")])
    assert parse_params(b'form-data; name="a"; evil') is None
    assert parse_params(b'form-data; name="a" ; x=1 ') == (b"form-data", [(b"name", b"a"), (b"x", b"1")])
    assert parse_params(b"text/plain; charset=utf-8") == (b"text/plain", [(b"charset", b"utf-8")])
    assert parse_params(b"attachment; filename*=utf-8''a%20b") == (b"attachment", [(b"filename*", b"utf-8''a%20b")])
    assert is_token(b"X-Probe") and not is_token(b"X Probe") and not is_token(b"") and not is_token(b"X:")
    assert field_value_ok(b"a\tb \xc3\xa9") and not field_value_ok(b"a\rb") and not field_value_ok(b"a\x7fb")
