"""ref_lifecycle - executable statement of the documented application
life-cycle contract of aiohttp.web (DESIGN.md section 5, used by C20).

Written from docs/web_advanced.rst ("Signals", "Cleanup Context", "Nested
applications", "Graceful shutdown", "Ceil of absolute timeout value") and
docs/web_reference.rst (Application.on_startup/on_shutdown/on_cleanup/
cleanup_ctx, AppRunner, run_app(shutdown_timeout=...)), not from the code.

Part A - cleanup contexts.  A run is described by

  spec    the application tree: {"id": "m", "items": [item, ...]} where an item
          is {"k": "ctx"|"startup"|"shutdown"|"cleanup", "id": str, ...} or
          {"k": "sub", "app": <spec>}; items are in registration order;
  events  what the instrumented user callbacks logged, in execution order:
            ["enter", id]           start-up code of a context / on_startup handler begins
            ["setup_raise", id]     ... raises
            ["started", id]         ... completed
            ["exit", id]            cleanup code of a context / on_shutdown / on_cleanup handler begins
            ["teardown_raise", id]  ... raises
            ["exit_done", id]       ... completed
          (plus ["site_fail", "site"] when starting the listening site failed).

The documented guarantees judged here:

  G1  "aiohttp guarantees that cleanup code is called if and only if startup
      code was successfully finished" - once, whatever else failed, through
      AppRunner.setup()/cleanup() and through run_app() alike.
  G2  cleanup code of one application's contexts runs in the reverse of their
      start-up order (the contexts of ``cleanup_ctx`` nest like ``async with``).
      *Across* applications the documentation only says that signals are
      delivered to sub-applications and that handlers run in the order they
      were added; no order between a parent's and a child's contexts is
      promised, so none is demanded (``strict_cross_app`` asks for it anyway).
  G3  a failing start-up step stops start-up ("if create_pg(app) fails,
      create_redis(app) is not called").
  G4  on_shutdown (step 3 of the documented sequence) comes before on_cleanup
      and the cleanup code of contexts (step 6).
  G5  an exception raised by a user callback is reported to the caller (raised,
      possibly wrapped/chained) or logged - never lost.

Part B - graceful shutdown timing, see shutdown_bounds().
"""
from __future__ import annotations

from math import ceil

CEIL_THRESHOLD = 5.0


# --------------------------------------------------------------------------- B
def ceil_when(now: float, delay: float, threshold: float = CEIL_THRESHOLD) -> float:
    """"aiohttp ceils internal timeout values if the value is equal or greater
    than 5 seconds.  The timeout expires at the next integer second greater than
    current_time + timeout."  (Values below the threshold are exact.)"""
    when = now + delay
    if delay >= threshold:
        when = float(ceil(when))
        if when < now + delay:  # pragma: no cover - float guard
            when = now + delay
    return when


def shutdown_bounds(t0: float, timeout: float, threshold: float = CEIL_THRESHOLD) -> dict:
    """t0 = the instant the on_shutdown signal has been delivered (step 3 done).

    Step 4: "Wait a short time for running handlers to complete ... adjusted with
    shutdown_timeout": a handler that finishes before t0 + timeout must be left
    alone (``grace_min``).  Step 5: "Close any remaining connections and cancel
    their handlers.  It will wait on the canceling handlers for a short time,
    again adjustable with shutdown_timeout": nothing may still be running after
    the second period (``cancel_by``); each period may be rounded up to a whole
    second when the timeout is at or above the ceil threshold."""
    grace_end = ceil_when(t0, timeout, threshold)
    cancel_by = ceil_when(grace_end, timeout, threshold)
    return {"grace_min": t0 + timeout, "grace_end": grace_end, "cancel_by": cancel_by}


# --------------------------------------------------------------------------- A
def walk(spec: dict, path: str | None = None):
    """Yield (item, app_id) for every callback of the tree, registration order, depth first."""
    app_id = spec["id"] if path is None else path
    for it in spec["items"]:
        if it["k"] == "sub":
            yield from walk(it["app"])
        else:
            yield it, app_id


def contexts(spec: dict) -> dict:
    """ctx id -> owning application id"""
    return {it["id"]: app for it, app in walk(spec) if it["k"] == "ctx"}


def kinds(spec: dict) -> dict:
    return {it["id"]: it["k"] for it, _app in walk(spec)}


def documented_trace(spec: dict, setup_raise=(), teardown_raise=(), site_fails: bool = False) -> list:
    """One trace an implementation honouring G1-G4 may produce (used by the
    self-test and as a readable statement; the oracle itself judges observed
    traces and never compares against this one).  Start-up: every application's
    contexts in order, then its on_startup handlers and sub-applications in
    registration order; the first failure stops start-up.  Teardown: all
    on_shutdown handlers (only when start-up succeeded), then for every
    application its on_cleanup handlers and, in reverse start-up order, the
    cleanup code of the contexts that started; a failing step does not stop the
    remaining cleanup code."""
    setup_raise, teardown_raise = set(setup_raise), set(teardown_raise)
    ev: list = []
    started: dict[str, list] = {}

    class Stop(Exception):
        pass

    def start(app):
        started.setdefault(app["id"], [])
        for it in app["items"]:
            if it["k"] == "ctx":
                one(it, app)
        for it in app["items"]:
            if it["k"] == "startup":
                one(it, app)
            elif it["k"] == "sub":
                start(it["app"])

    def one(it, app):
        ev.append(["enter", it["id"]])
        if it["id"] in setup_raise:
            ev.append(["setup_raise", it["id"]])
            raise Stop()
        ev.append(["started", it["id"]])
        if it["k"] == "ctx":
            started[app["id"]].append(it["id"])

    ok = True
    try:
        start(spec)
        if site_fails:
            ev.append(["site_fail", "site"])
            ok = False
    except Stop:
        ok = False

    def td(i):
        ev.append(["exit", i])
        if i in teardown_raise:
            ev.append(["teardown_raise", i])
        else:
            ev.append(["exit_done", i])

    def shutdown(app):
        for it in app["items"]:
            if it["k"] == "shutdown":
                td(it["id"])
            elif it["k"] == "sub":
                shutdown(it["app"])

    def cleanup(app):
        for it in app["items"]:
            if it["k"] == "sub":
                cleanup(it["app"])
        for i in reversed(started.get(app["id"], [])):
            td(i)
        if ok:
            for it in app["items"]:
                if it["k"] == "cleanup":
                    td(it["id"])

    if ok:
        shutdown(spec)
    cleanup(spec)
    return ev


def judge(spec: dict, events: list, *, entry: str, reported: set | None = None,
          strict_cross_app: bool = False) -> list:
    """Judge an observed trace.  Returns a list of {"invariant", "key", "message"}.

    ``reported``: set of (id, phase) pairs, phase in {"setup", "teardown"}, of user
    exceptions that reached the caller or a log; None = G5 not judged.

    Keys name the class of a failure: entry point, direction, what else had
    failed when it happened (the *cause*), and where the victim context lives."""
    ctx_app = contexts(spec)
    kind = kinds(spec)
    root = spec["id"]
    out: list = []
    seen_keys: set = set()

    def add(inv, key, msg):
        if (inv, key) not in seen_keys:
            seen_keys.add((inv, key))
            out.append({"invariant": inv, "key": key, "message": msg})

    started_at: dict[str, int] = {}
    exits: dict[str, list] = {}
    setup_failed_at = None
    failed_id = None
    site_failed = False
    raised_teardown: list = []
    for n, (k, i) in enumerate(events):
        if k == "started":
            started_at.setdefault(i, n)
        elif k == "exit":
            exits.setdefault(i, []).append(n)
        elif k == "setup_raise":
            if setup_failed_at is None:
                setup_failed_at, failed_id = n, i
        elif k == "site_fail":
            site_failed = True
        elif k == "teardown_raise":
            raised_teardown.append((n, i))

    shutdown_raised = [i for _n, i in raised_teardown if kind.get(i) == "shutdown"]

    def cause() -> str:
        # (a raising on_shutdown handler no longer skips the rest of the teardown since aiohttp's 'fix:' commit for
        # C20-F3: it is named as the cause only when nothing else in the teardown raised)
        if shutdown_raised and len(shutdown_raised) == len(raised_teardown):
            return "on_shutdown_raised"  # only delivered when start-up succeeded (or only the site failed)
        if setup_failed_at is not None:
            return "startup_failed"
        if raised_teardown:
            return "teardown_raised"
        if site_failed:
            return "site_failed"
        return "nothing_else_failed"

    def where(ids) -> str:
        apps = {("main" if ctx_app[i] == root else "sub") for i in ids}
        return "+".join(sorted(apps))

    # G1 -------------------------------------------------------------------
    missing = [i for i in ctx_app if i in started_at and not exits.get(i)]
    if missing:
        add("cleanup_iff_started", f"{entry}:started_not_cleaned:{cause()}:{where(missing)}",
            f"cleanup code never ran for context(s) {missing} whose start-up code completed "
            f"(entry point {entry}; first start-up failure: {failed_id}; teardown steps that raised: "
            f"{[i for _n, i in raised_teardown]}); trace={_fmt(events)}")
    spurious = [i for i in ctx_app if i not in started_at and exits.get(i)]
    if spurious:
        add("cleanup_iff_started", f"{entry}:cleaned_not_started:{cause()}:{where(spurious)}",
            f"cleanup code ran for context(s) {spurious} whose start-up code did not complete; trace={_fmt(events)}")
    twice = [i for i in ctx_app if len(exits.get(i, ())) > 1]
    if twice:
        add("cleanup_iff_started", f"{entry}:cleaned_twice:{cause()}:{where(twice)}",
            f"cleanup code ran more than once for context(s) {twice}; trace={_fmt(events)}")
    early = [i for i in ctx_app if i in started_at and exits.get(i) and exits[i][0] < started_at[i]]
    if early:
        add("cleanup_iff_started", f"{entry}:cleaned_before_started:{where(early)}",
            f"cleanup code of {early} ran before its start-up code completed; trace={_fmt(events)}")

    # G2 -------------------------------------------------------------------
    both = [i for i in ctx_app if i in started_at and exits.get(i)]
    both.sort(key=lambda i: started_at[i])
    for ai in range(len(both)):
        for bi in range(ai + 1, len(both)):
            a, b = both[ai], both[bi]  # a started before b
            same = ctx_app[a] == ctx_app[b]
            if exits[a][0] < exits[b][0]:
                if same:
                    add("reverse_order", f"{entry}:same_app_not_reversed:{'main' if ctx_app[a] == root else 'sub'}",
                        f"{a} started before {b} (same application) but was also cleaned up before it; "
                        f"trace={_fmt(events)}")
                elif strict_cross_app:
                    add("reverse_order_across_apps", f"{entry}:cross_app_not_reversed",
                        f"{a} ({ctx_app[a]}) started before {b} ({ctx_app[b]}) but was cleaned up before it; "
                        f"trace={_fmt(events)}")

    # G3 -------------------------------------------------------------------
    if setup_failed_at is not None:
        later = [i for n, (k, i) in enumerate(events) if k == "enter" and n > setup_failed_at]
        if later:
            add("startup_stops_at_failure", f"{entry}:startup_continued_after_failure",
                f"start-up step {failed_id} failed but {later} were still started; trace={_fmt(events)}")

    # G4 -------------------------------------------------------------------
    first_clean = min((ns[0] for i, ns in exits.items() if kind.get(i) in ("ctx", "cleanup")), default=None)
    late_sd = [i for i, ns in exits.items() if kind.get(i) == "shutdown" and first_clean is not None and ns[0] > first_clean]
    if late_sd:
        add("shutdown_before_cleanup", f"{entry}:on_shutdown_after_cleanup",
            f"on_shutdown handler(s) {late_sd} ran after cleanup code had begun; trace={_fmt(events)}")
    unfinished = [i for n, (k, i) in enumerate(events) if k == "enter"
                  and not any(k2 in ("started", "setup_raise") and i2 == i for k2, i2 in events[n + 1:])]
    first_td = min((ns[0] for ns in exits.values()), default=None)
    if first_td is not None:
        su_after = [i for n, (k, i) in enumerate(events) if k in ("enter", "started") and n > first_td]
        if su_after:
            add("shutdown_before_cleanup", f"{entry}:startup_after_teardown_began",
                f"start-up code of {su_after} ran after teardown had begun; trace={_fmt(events)}")
    if unfinished:
        add("startup_stops_at_failure", f"{entry}:startup_step_abandoned",
            f"start-up code of {unfinished} was entered but neither completed nor raised; trace={_fmt(events)}")

    # G5 -------------------------------------------------------------------
    if reported is not None:
        lost = []
        for k, i in events:
            if k == "setup_raise" and (i, "setup") not in reported:
                lost.append(f"{i}/setup")
            elif k == "teardown_raise" and (i, "teardown") not in reported:
                lost.append(f"{i}/teardown")
        if lost:
            phases = sorted({x.split("/")[1] for x in lost})
            kk = sorted({kind.get(x.split("/")[0], "?") for x in lost})
            add("errors_reported", f"{entry}:lost:{'+'.join(phases)}:{'+'.join(kk)}",
                f"exception(s) raised by {lost} were neither raised to the caller nor logged; trace={_fmt(events)}")
    return out


def cross_app_inversions(spec: dict, events: list) -> int:
    """How many pairs of contexts of *different* applications were cleaned up in
    start-up order (not judged; reported as a probe)."""
    ctx_app = contexts(spec)
    st = {i: n for n, (k, i) in enumerate(events) if k == "started" and i in ctx_app}
    ex = {}
    for n, (k, i) in enumerate(events):
        if k == "exit" and i in ctx_app:
            ex.setdefault(i, n)
    ids = sorted((i for i in st if i in ex), key=lambda i: st[i])
    return sum(1 for x in range(len(ids)) for y in range(x + 1, len(ids))
               if ctx_app[ids[x]] != ctx_app[ids[y]] and ex[ids[x]] < ex[ids[y]])


def _fmt(events: list) -> str:
    short = {"enter": ">", "started": "+", "setup_raise": "!s", "exit": "<", "exit_done": "-",
             "teardown_raise": "!t", "site_fail": "!site"}
    return " ".join(f"{short.get(k, k)}{i}" for k, i in events)


# ------------------------------------------------------------------ self-test
def selftest() -> None:
    sub = {"id": "A", "items": [{"k": "ctx", "id": "A.c0"}, {"k": "cleanup", "id": "A.x0"}]}
    spec = {"id": "m", "items": [{"k": "ctx", "id": "m.c0"}, {"k": "ctx", "id": "m.c1"}, {"k": "ctx", "id": "m.c2"},
                                 {"k": "startup", "id": "m.s0"}, {"k": "sub", "app": sub},
                                 {"k": "shutdown", "id": "m.d0"}, {"k": "cleanup", "id": "m.x0"}]}
    assert list(contexts(spec)) == ["m.c0", "m.c1", "m.c2", "A.c0"]
    # hand-checked: everything fine
    t = documented_trace(spec)
    assert _fmt(t) == (">m.c0 +m.c0 >m.c1 +m.c1 >m.c2 +m.c2 >m.s0 +m.s0 >A.c0 +A.c0 <m.d0 -m.d0 "
                       "<A.c0 -A.c0 <A.x0 -A.x0 <m.c2 -m.c2 <m.c1 -m.c1 <m.c0 -m.c0 <m.x0 -m.x0"), _fmt(t)
    assert judge(spec, t, entry="runner", reported=set(), strict_cross_app=True) == []
    # second context fails in start-up: only the first is cleaned, nothing else
    t = documented_trace(spec, setup_raise=["m.c1"])
    assert _fmt(t) == ">m.c0 +m.c0 >m.c1 !sm.c1 <m.c0 -m.c0", _fmt(t)
    assert judge(spec, t, entry="runner", reported={("m.c1", "setup")}) == []
    assert [v["key"] for v in judge(spec, t, entry="runner", reported=set())] == ["runner:lost:setup:ctx"]
    # ... and the defect of DESIGN 11(f): no cleanup at all
    bad = [e for e in t if e[0] not in ("exit", "exit_done")]
    v = judge(spec, bad, entry="run_app", reported={("m.c1", "setup")})
    assert [(x["invariant"], x["key"]) for x in v] == [("cleanup_iff_started", "run_app:started_not_cleaned:startup_failed:main")], v
    # teardown failures do not excuse anything
    t = documented_trace(spec, teardown_raise=["m.c2", "m.d0", "A.x0"])
    assert judge(spec, t, entry="runner", reported={("m.c2", "teardown"), ("m.d0", "teardown"), ("A.x0", "teardown")}) == []
    bad = [e for e in t if e[1] != "A.c0" or e[0] in ("enter", "started")]
    v = judge(spec, bad, entry="runner")
    assert [x["key"] for x in v] == ["runner:started_not_cleaned:teardown_raised:sub"], v
    # start-up order instead of reverse order
    t = documented_trace(spec)
    i0, i2 = t.index(["exit", "m.c0"]), t.index(["exit", "m.c2"])
    bad = list(t)
    bad[i0], bad[i2] = bad[i2], bad[i0]
    v = judge(spec, bad, entry="runner")
    assert [x["key"] for x in v] == ["runner:same_app_not_reversed:main"], v
    # cleanup of a context that never started / twice / start-up continuing after a failure
    t = documented_trace(spec, setup_raise=["m.c1"])
    v = judge(spec, t + [["exit", "m.c1"], ["exit_done", "m.c1"]], entry="runner")
    assert [x["key"] for x in v] == ["runner:cleaned_not_started:startup_failed:main"], v
    v = judge(spec, t + [["exit", "m.c0"], ["exit_done", "m.c0"]], entry="runner")
    assert [x["key"] for x in v] == ["runner:cleaned_twice:startup_failed:main"], v
    v = judge(spec, t[:4] + [["enter", "m.c2"], ["started", "m.c2"]] + t[4:] + [["exit", "m.c2"]], entry="runner")
    assert "runner:startup_continued_after_failure" in [x["key"] for x in v], v
    # cross-application order is only judged on request
    t = documented_trace(spec)
    sw = [e for e in t if e[1] not in ("A.c0", "A.x0") or e[0] in ("enter", "started")] + \
         [["exit", "A.c0"], ["exit_done", "A.c0"]]
    assert judge(spec, sw, entry="runner") == []
    assert [x["key"] for x in judge(spec, sw, entry="runner", strict_cross_app=True)] == ["runner:cross_app_not_reversed"]
    assert cross_app_inversions(spec, sw) == 3
    # timing: exact below the threshold, whole seconds at/above it
    b = shutdown_bounds(10.25, 0.2)
    assert abs(b["grace_min"] - 10.45) < 1e-9 and abs(b["grace_end"] - 10.45) < 1e-9 and abs(b["cancel_by"] - 10.65) < 1e-9, b
    b = shutdown_bounds(10.25, 6.0)
    assert b == {"grace_min": 16.25, "grace_end": 17.0, "cancel_by": 23.0}, b
    b = shutdown_bounds(10.0, 5.0)
    assert b == {"grace_min": 15.0, "grace_end": 15.0, "cancel_by": 20.0}, b


if __name__ == "__main__":
    selftest()
    print("ok")
