"""Reference pieces for C19 (multipart codec), independent of aiohttp:

* `email_tree(content_type, body)` - the standard library's `email` parser as
  the independent reader of what aiohttp's writer produced;
* `cte_decode` / `ce_decode` - one-shot reference decoders (base64, quoted-
  printable, gzip, raw/zlib deflate) straight from the codec libraries;
* `delimiter_lines(body, boundary)` - where the delimiter lines are (RFC 2046
  5.1.1: CRLF "--" boundary at the start of a line), used to aim mutations and
  segment cuts;
* `mutate(body, boundary, mutation)` - the termination workload.
"""
from __future__ import annotations

import base64
import binascii
import email
import email.policy
import zlib
from email.parser import BytesParser
from urllib.parse import unquote


def cte_decode(data: bytes, cte: str) -> bytes:
    cte = (cte or "").lower()
    if cte == "base64":
        return base64.b64decode(data, validate=True)
    if cte == "quoted-printable":
        return binascii.a2b_qp(data)
    if cte in ("", "binary", "8bit", "7bit"):
        return data
    raise ValueError("unknown content-transfer-encoding " + cte)


def ce_decode(data: bytes, ce: str) -> bytes:
    ce = (ce or "").lower()
    if ce in ("", "identity"):
        return data
    if ce == "gzip":
        return zlib.decompress(data, 16 + zlib.MAX_WBITS)
    if ce == "deflate":
        try:
            return zlib.decompress(data, -zlib.MAX_WBITS)
        except zlib.error:
            return zlib.decompress(data)
    raise ValueError("unknown content-encoding " + ce)


def email_tree(content_type: str, body: bytes):
    """Parse with the stdlib email package.  Returns (nodes, defects); a node
    is {"ctype", "cte", "ce", "raw" (transfer-decoded bytes), "name",
    "filename", "nhdr", "parts"}."""
    head = b"MIME-Version: 1.0\r\nContent-Type: " + content_type.encode("utf-8", "surrogateescape") + b"\r\n\r\n"
    msg = BytesParser(policy=email.policy.compat32).parsebytes(head + body)
    defects = [type(d).__name__ for d in msg.defects]

    def node(m):
        d = {"ctype": m.get_content_type(), "cte": str(m.get("Content-Transfer-Encoding", "") or ""),
             "ce": str(m.get("Content-Encoding", "") or ""), "nhdr": len(m.keys()), "parts": None, "raw": None}
        defects.extend(type(x).__name__ for x in m.defects)
        try:
            d["name"] = m.get_param("name", header="content-disposition")
            if isinstance(d["name"], tuple):
                d["name"] = email.utils.collapse_rfc2231_value(d["name"])
            d["filename"] = m.get_filename()
        except Exception:  # 8-bit header junk: not judged through this oracle
            d["name"] = d["filename"] = None
        if m.is_multipart():
            d["parts"] = [node(x) for x in m.get_payload()]
        else:
            d["raw"] = m.get_payload(decode=True)
        return d

    if not msg.is_multipart():
        return None, defects
    return [node(x) for x in msg.get_payload()], defects


def delimiter_lines(body: bytes, boundary: str):
    """[(start, end, closing)] for every delimiter line of `boundary`:
    start = offset of the dashes, end = offset after the line's CRLF."""
    b = b"--" + boundary.encode("ascii")
    out = []
    pos = 0
    while True:
        i = body.find(b, pos)
        if i < 0:
            break
        pos = i + 1
        if i != 0 and body[i - 2:i] != b"\r\n":
            continue
        j = i + len(b)
        closing = body[j:j + 2] == b"--"
        if closing:
            j += 2
        k = j
        while k < len(body) and body[k:k + 1] in (b" ", b"\t"):
            k += 1
        if body[k:k + 2] == b"\r\n":
            out.append((i, k + 2, closing))
        elif k >= len(body):
            out.append((i, k, closing))
    return out


def same_name(got, want) -> bool:
    """Field name / filename as delivered vs. as given: verbatim, or in a
    percent-encoded form that decodes to the original."""
    if got is None:
        return False
    if got == want:
        return True
    # documented sanitisation (CHANGES/13206): leading path separators are stripped from
    # Content-Disposition parameter values
    stripped = want.lstrip("\\/")
    if got == stripped:
        return True
    try:
        return unquote(got, "utf-8", "strict") in (want, stripped)
    except Exception:
        return False


def name_class(s: str) -> str:
    """Syntactic class of a name (for violation keys)."""
    cl = []
    if s == "":
        return "empty"
    if s[0] in "/\\":
        cl.append("leading_slash")
    if ";" in s:
        cl.append("semicolon" if s.count(";") == 1 else "semicolons")
    if '"' in s:
        cl.append("dquote")
    if "\\" in s[1:]:
        cl.append("backslash")
    if any(ord(c) > 126 for c in s):
        cl.append("nonascii")
    if "%" in s:
        cl.append("percent")
    if s != s.strip():
        cl.append("outer_space")
    if "'" in s or "*" in s:
        cl.append("rfc2231_char")
    return "+".join(cl) or "plain"


# --------------------------------------------------------------------- mutations

def mutate(body: bytes, boundary: str, mut) -> bytes:
    """One mutation of a valid body.  `mut` = [kind, a, b] with a, b seeds."""
    kind, a, b = mut
    marks = delimiter_lines(body, boundary)
    n = len(body)
    bb = b"--" + boundary.encode("ascii")

    def pick(seq):
        return seq[a % len(seq)] if seq else None

    def header_block():
        """(start, end) of the header block after a picked opening delimiter"""
        opens = [m for m in marks if not m[2]]
        m = pick(opens)
        if m is None:
            return None
        end = body.find(b"\r\n\r\n", m[1] - 2)
        if end < 0:
            return None
        return m[1], end + 2  # block incl. the CRLF of its last line, excl. blank line

    if kind == "truncate":
        return body[: a % (n + 1)]
    if kind == "empty":
        return [b"", b"\r\n", bb, bb + b"\r\n", bb + b"--", b"--", b"\r\n" * 3 + bb + b"--\r\n", bb + b"\r\n\r\n",
                bb + b"\r\n\r\n\r\n" + bb, bb + b"\r\nA: b\r\n"][a % 10]
    if kind == "drop_delim":
        m = pick(marks)
        return body if m is None else body[:m[0]] + body[m[1]:]
    if kind == "dup_delim":
        m = pick(marks)
        return body if m is None else body[:m[1]] + body[m[0]:m[1]] + body[m[1]:]
    if kind == "open_for_close":
        m = pick([x for x in marks if x[2]])
        return body if m is None else body[:m[0]] + bb + b"\r\n" + body[m[1]:]
    if kind == "close_for_open":
        m = pick([x for x in marks if not x[2]])
        return body if m is None else body[:m[0]] + bb + b"--\r\n" + body[m[1]:]
    if kind == "no_close":
        m = pick([x for x in marks if x[2]])
        return body if m is None else body[:m[0]]
    if kind == "drop_final_crlf":
        return body[:-2] if body.endswith(b"\r\n") else body[:-1]
    if kind == "delim_ws":
        m = pick(marks)
        if m is None:
            return body
        e = m[1] - 2 if body[m[1] - 2:m[1]] == b"\r\n" else m[1]
        return body[:e] + [b" ", b"\t \t", b" " * 300, b" x"][b % 4] + body[e:]
    if kind == "no_first_delim":
        return body[marks[0][1]:] if marks else body
    if kind == "preamble":
        pre = [b"preamble\r\n", b"\r\n", b"--\r\n", bb[:-1] + b"\r\n", b"x" * 9000 + b"\r\n", b"no newline", bb + b"x\r\n"][a % 7]
        return pre + body
    if kind == "epilogue":
        return body + [b"epilogue", b"\r\n\r\n", bb + b"\r\n", b"x" * 9000, bb + b"--\r\n", b"\r\n" + bb + b"\r\nA: b\r\n\r\nzz"][a % 6]
    if kind in ("lf_only", "cr_only"):
        hb = header_block()
        if hb is None:
            return body
        s, e = hb
        rep = b"\n" if kind == "lf_only" else b"\r"
        return body[:s - 2] + body[s - 2:e + 2].replace(b"\r\n", rep) + body[e + 2:]
    if kind.startswith("hdr_") or kind in ("oversize_header", "many_headers"):
        hb = header_block()
        if hb is None:
            return body
        s, e = hb
        block = body[s:e]
        if kind == "hdr_nocolon":
            new = block + b"no colon here\r\n"
        elif kind == "hdr_nul":
            new = block + b"X-A: a\x00b\r\n"
        elif kind == "hdr_noblank":
            return body[:e] + body[e + 2:]
        elif kind == "hdr_badname":
            new = block + [b" X: 1\r\n", b"X : 1\r\n", b": 1\r\n", b"X\xff: 1\r\n", b"(x): 1\r\n"][b % 5]
        elif kind == "hdr_fold":
            new = block + b"X-F: a\r\n b\r\n\tc\r\n"
        elif kind == "hdr_clen_big":
            new = _set_header(block, b"Content-Length", str([10 ** 6, 10 ** 12, n, n + 1][b % 4]).encode())
        elif kind == "hdr_clen_small":
            new = _set_header(block, b"Content-Length", str([0, 1, 2, 3][b % 4]).encode())
        elif kind == "hdr_clen_bad":
            new = _set_header(block, b"Content-Length", [b"-1", b"+5", b"1_0", b"abc", b"", b"1 2", b"0x10", b"\xd9\xa1"][b % 8])
        elif kind == "hdr_cte":
            new = _set_header(block, b"Content-Transfer-Encoding", [b"base64", b"quoted-printable", b"x-unknown", b"BASE64", b"7bit"][b % 5])
        elif kind == "hdr_ce":
            new = _set_header(block, b"Content-Encoding", [b"gzip", b"deflate", b"br", b"identity", b"GZIP"][b % 5])
        elif kind == "hdr_nested_ct":
            new = _set_header(block, b"Content-Type", [b"multipart/mixed; boundary=zz", b"multipart/mixed",
                                                      b"multipart/mixed; boundary=" + boundary.encode(),
                                                      b"multipart/x; boundary=" + b"y" * 71, b"multipart/", b";"][b % 6])
        elif kind == "oversize_header":
            size = [8100, 8186, 8192, 9000, 70000, 300000][b % 6]
            new = block + b"X-Big: " + b"h" * size + b"\r\n"
        else:  # many_headers
            cnt = [100, 126, 127, 128, 129, 1000, 20000][b % 7]
            new = block + b"".join(b"X-%d: v\r\n" % i for i in range(cnt))
        return body[:s] + new + body[e:]
    if kind == "b64_damage":
        # aim at a run of base64 text if there is one, else anywhere
        pos = _find_b64_run(body, a)
        ins = [b"!", b"=", b"\r\n", b" ", b"A", b"====", b"\x00", b"-"][b % 8]
        if (b >> 3) % 2:
            return body[:pos] + body[pos + 1:]  # drop one char: misaligns the quartets
        return body[:pos] + ins + body[pos:]
    if kind == "gz_damage":
        i = body.find(b"\x1f\x8b")
        pos = (i + 4 + b % 40) if i >= 0 else a % (n + 1)
        pos = min(pos, max(0, n - 1))
        return body[:pos] + bytes([body[pos] ^ 0x55 if pos < n else 0]) + body[pos + 1:]
    if kind == "huge_part":
        m = pick([x for x in marks if not x[2]])
        if m is None:
            return body
        end = body.find(b"\r\n\r\n", m[1] - 2)
        if end < 0:
            return body
        size = [70000, 140000, 200000][b % 3]
        return body[:end + 4] + (b"Q" * 1023 + b"\n") * (size // 1024) + body[end + 4:]
    if kind == "flip":
        if not n:
            return body
        pos = a % n
        return body[:pos] + bytes([b % 256]) + body[pos + 1:]
    if kind == "insert":
        pos = a % (n + 1)
        ins = [b"\r\n", b"--", bb, b"\r\n" + bb, b"\r\n" + bb + b"--", b"\x00", b"\r", b"\n", b"\r\n\r\n", bb + b"--\r\n",
               b"\r\n" + bb + b"\r\n"][b % 11]
        return body[:pos] + ins + body[pos:]
    if kind == "delete":
        if not n:
            return body
        pos = a % n
        return body[:pos] + body[pos + 1 + b % 8:]
    raise ValueError("unknown mutation " + str(kind))


def _set_header(block: bytes, name: bytes, value: bytes) -> bytes:
    lines = block.split(b"\r\n")
    out = [ln for ln in lines if ln and not ln.lower().startswith(name.lower() + b":")]
    out.append(name + b": " + value)
    return b"\r\n".join(out) + b"\r\n"


_B64 = frozenset(b"ABCDEFGHIJKLMNOPQRSTUVWXYZabcdefghijklmnopqrstuvwxyz0123456789+/=")


def _find_b64_run(body: bytes, seed: int) -> int:
    i = body.find(b"base64\r\n")
    if i >= 0:
        j = body.find(b"\r\n\r\n", i)
        if j >= 0:
            start = j + 4
            end = start
            while end < len(body) and body[end] in _B64:
                end += 1
            if end > start:
                return start + seed % (end - start)
    return seed % (len(body) + 1)


# ---------------------------------------------------------------------- self-test

def selftest() -> None:
    body = (b"--B\r\nContent-Type: text/plain\r\nContent-Disposition: form-data; name=\"a\"; filename=\"f%20x\"\r\n\r\n"
            b"one\r\n--Bx\r\n\r\n--B\r\nContent-Transfer-Encoding: base64\r\n\r\nAAEC\r\n--B\r\n"
            b"Content-Type: multipart/mixed; boundary=I\r\n\r\n--I\r\n\r\nin\r\n--I--\r\n\r\n--B--\r\n")
    tree, defects = email_tree("multipart/form-data; boundary=B", body)
    assert not defects, defects
    assert len(tree) == 3, tree
    assert tree[0]["raw"] == b"one\r\n--Bx\r\n" and tree[0]["name"] == "a" and tree[0]["filename"] == "f%20x", tree[0]
    assert tree[1]["raw"] == b"\x00\x01\x02", tree[1]
    assert tree[2]["parts"] is not None and tree[2]["parts"][0]["raw"] == b"in", tree[2]
    marks = delimiter_lines(body, "B")
    assert [m[2] for m in marks] == [False, False, False, True], marks
    assert body[marks[1][0]:marks[1][1]] == b"--B\r\n"
    assert delimiter_lines(body, "I") == [(body.find(b"--I\r\n"), body.find(b"--I\r\n") + 5, False),
                                          (body.find(b"--I--"), body.find(b"--I--") + 7, True)]
    assert ce_decode(zlib.compress(b"abc"), "deflate") == b"abc"
    co = zlib.compressobj(wbits=-15)
    assert ce_decode(co.compress(b"abc") + co.flush(), "deflate") == b"abc"
    co = zlib.compressobj(wbits=31)
    assert ce_decode(co.compress(b"abc") + co.flush(), "gzip") == b"abc"
    assert cte_decode(b"=C3=A4 =3D\r\n", "quoted-printable") == b"\xc3\xa4 =\r\n"
    assert same_name("f%C3%A4", "fä") and same_name("x", "x") and same_name("x", "/x") and not same_name(None, "x")
    assert not same_name("y", "/x") and same_name("x", "\\/x")
    assert name_class("/a;b") == "leading_slash+semicolon" and name_class("abc") == "plain"
    assert mutate(body, "B", ["drop_delim", 1, 0]).count(b"--B\r\n") == 2
    assert mutate(body, "B", ["open_for_close", 0, 0]).endswith(b"\r\n--B\r\n")
    assert b"Content-Length: 1000000" in mutate(body, "B", ["hdr_clen_big", 0, 0])
    assert mutate(body, "B", ["truncate", 5, 0]) == body[:5]
    for k in ("dup_delim", "close_for_open", "no_close", "drop_final_crlf", "hdr_nocolon", "hdr_noblank", "b64_damage",
              "oversize_header", "many_headers", "huge_part", "flip", "insert", "delete", "lf_only", "preamble",
              "epilogue", "no_first_delim", "empty", "gz_damage", "delim_ws", "cr_only", "hdr_fold", "hdr_nested_ct"):
        out = mutate(body, "B", [k, 3, 5])
        assert isinstance(out, bytes) and (out != body or k in ("gz_damage",)), k
