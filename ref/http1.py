"""Strict RFC 9112 reference framer for request streams, plus an independent
response splitter (DESIGN.md section 5).  Written from the RFC, not from aiohttp.

parse_requests(data, limits) -> (messages, verdict)

verdict = ("COMPLETE", end) | ("INCOMPLETE", at) | ("REJECT", at, cls) | ("DONT_CARE", at, reason)
where `at` is the offset of the first byte of the message (or body element)
that the verdict is about.  DONT_CARE marks zones where RFC 9112 leaves latitude
or aiohttp documents a deliberate choice; the oracle judges nothing from there on.
"""
from __future__ import annotations

import re

TCHAR = frozenset(b"!#$%&'*+-.^_`|~0123456789ABCDEFGHIJKLMNOPQRSTUVWXYZabcdefghijklmnopqrstuvwxyz")
HEX = frozenset(b"0123456789abcdefABCDEF")
DIG = frozenset(b"0123456789")
# field-value: VCHAR / obs-text / SP / HTAB
_BAD_VALUE = re.compile(rb"[\x00-\x08\x0a-\x1f\x7f]")
_BAD_TARGET = re.compile(rb"[\x00-\x20\x7f]")
_ABS = re.compile(rb"[A-Za-z][A-Za-z0-9+.\-]*://[^/?#\x00-\x20\x7f]*([/?#][^\x00-\x20\x7f]*)?")
_AUTHORITY_STRICT = re.compile(rb"(?:[A-Za-z0-9\-._~%!$&'()*+,;=]+|\[[0-9A-Fa-f:.]+\])(?::([0-9]{1,5}))?")
_VERSION = re.compile(rb"HTTP/([0-9])\.([0-9])")
# names aiohttp treats as singletons by policy; RFC does not require rejection
POLICY_SINGLETONS = frozenset(
    [b"content-location", b"content-range", b"content-type", b"etag", b"max-forwards",
     b"server", b"user-agent", b"transfer-encoding"]
)

DEFAULT_LIMITS = {"max_line_size": 8190, "max_field_size": 8190, "max_headers": 128}


def is_token(b: bytes) -> bool:
    return len(b) > 0 and all(c in TCHAR for c in b)


class Rej(Exception):
    def __init__(self, cls):
        self.cls = cls


class Dc(Exception):
    def __init__(self, reason):
        self.reason = reason


class Inc(Exception):
    pass


def _line(data: bytes, pos: int):
    """Return (line_without_crlf, next_pos).  Bare LF -> Rej.  No CRLF yet -> Inc
    (unless a bare LF is already visible, which is a rejection however the rest arrives)."""
    i = data.find(b"\r\n", pos)
    j = data.find(b"\n", pos)
    if j >= 0 and (i < 0 or j < i + 1):
        # an LF not preceded by CR at position j-1 == i
        if not (i >= 0 and j == i + 1):
            raise Rej("bare_lf")
    if i < 0:
        raise Inc()
    return data[pos:i], i + 2


def parse_field_line(line: bytes):
    """-> (name, value) with OWS stripped from the value; raises Rej."""
    if line[:1] in (b" ", b"\t"):
        raise Rej("obs_fold")
    k = line.find(b":")
    if k < 0:
        raise Rej("no_colon")
    name = line[:k]
    if not name:
        raise Rej("empty_name")
    if name[-1:] in (b" ", b"\t") or name[:1] in (b" ", b"\t"):
        raise Rej("ws_around_name")
    if not is_token(name):
        raise Rej("bad_name")
    value = line[k + 1:].strip(b" \t")
    if _BAD_VALUE.search(value):
        raise Rej("ctl_in_value")
    return name, value


def _split_list(v: bytes):
    return [p.strip(b" \t") for p in v.split(b",")]


def _big_int(digits: bytes, base: int = 10) -> int:
    """int() without CPython's 4300-digit guard: any number with more than 18 significant digits is simply
    'more than any stream holds'."""
    d = digits.lstrip(b"0")
    if len(d) > 18:
        return 10 ** 30
    return int(d or b"0", base)


def parse_one_request(data: bytes, pos: int, limits: dict):
    """Parse one request starting at pos.  Returns (msg, next_pos, after) where
    after is None or ("DONT_CARE", reason) describing the rest of the stream.
    Raises Rej / Dc / Inc."""
    lim_line = limits["max_line_size"]
    lim_field = limits["max_field_size"]
    lim_hdrs = limits["max_headers"]
    start = pos
    # empty lines before the request line: a server SHOULD ignore at least one
    while data[pos:pos + 2] == b"\r\n":
        pos += 2
    if pos == len(data) or data[pos:] == b"\r":
        raise Inc()
    try:
        rl, p = _line(data, pos)
    except Inc:
        if len(data) - pos > lim_line:
            raise Rej("limit_line")
        # LF/CTL checks on a partial request line are left to the complete line
        raise
    except Rej as r:
        raise Rej(r.cls + "_in_request_line") if r.cls == "bare_lf" else r
    if len(rl) > lim_line:
        raise Rej("limit_line")
    parts = rl.split(b" ")
    if len(parts) != 3:
        # extra/missing SP: RFC 9112 3 says recipients MAY parse on whitespace
        # boundaries; anything but exactly two SP is refused by a strict reader
        raise Rej("request_line_shape")
    method, target, version = parts
    if not is_token(method):
        raise Rej("bad_method")
    mv = _VERSION.fullmatch(version)
    if mv is None:
        raise Rej("bad_version")
    ver = (int(mv.group(1)), int(mv.group(2)))
    dc_after = None
    if ver not in ((1, 0), (1, 1)):
        raise Dc("http_version_not_1x")
    if not target or _BAD_TARGET.search(target):
        raise Rej("bad_target_bytes")
    mu = method.upper()
    # request-target FORM x METHOD rules (RFC 9112 3.2.3 / 3.2.4, RFC 9110 9.3.6): asterisk-form is only for
    # OPTIONS, CONNECT takes authority-form only (a server MUST reject a CONNECT without a valid port, which
    # an origin-form / asterisk target cannot have).  Judged only when the caller asks for it
    # (limits["strict_target_forms"]); otherwise these stay don't-care zones as before.
    strict_forms = bool(limits.get("strict_target_forms"))
    if mu == b"CONNECT":
        if strict_forms and target == b"*":
            raise Rej("connect_asterisk_target")
        if strict_forms and target.startswith(b"/"):
            raise Rej("connect_origin_form_target")
        if strict_forms and _ABS.fullmatch(target):
            raise Rej("connect_absolute_form_target")
        if target.startswith(b"/") or b"://" in target:
            raise Dc("connect_with_non_authority_target")
        if not _AUTHORITY_STRICT.fullmatch(target):
            raise Dc("connect_authority_syntax")
    elif target.startswith(b"/"):
        pass
    elif target == b"*":
        if mu != b"OPTIONS":
            if strict_forms:
                raise Rej("asterisk_non_options")
            raise Dc("asterisk_non_options")
    else:
        m = _ABS.fullmatch(target)
        if m is None:
            if re.match(rb"[0-9+.\-][A-Za-z0-9+.\-]*://", target):
                # would be absolute-form but for the first character of the scheme (RFC 3986 3.1: ALPHA)
                raise Rej("scheme_first_char_not_alpha")
            raise Rej("bad_target_form")
        auth = target.split(b"://", 1)[1]
        for sep in (b"/", b"?", b"#"):
            auth = auth.split(sep, 1)[0]
        hostport = auth.rsplit(b"@", 1)[-1]
        ma = _AUTHORITY_STRICT.fullmatch(hostport)
        if ma is None or (ma.group(1) and int(ma.group(1)) > 65535):
            raise Dc("absolute_form_authority_syntax")
    # header section
    headers = []
    nlines = 1
    while True:
        try:
            ln, p2 = _line(data, p)
        except Inc:
            if len(data) - p > max(lim_field, lim_line) + 1:
                raise Rej("limit_field")
            raise
        except Rej as r:
            raise Rej(r.cls + "_in_header") if r.cls == "bare_lf" else r
        if ln == b"":
            p = p2
            break
        nlines += 1
        if len(ln) > lim_field:
            # band: whole line longer than the limit but value alone is not
            k = ln.find(b":")
            if k >= 0 and len(ln[k + 1:].strip(b" \t")) <= lim_field and is_token(ln[:k]):
                raise Dc("field_length_band")
            raise Rej("limit_field")
        name, value = parse_field_line(ln)
        headers.append((name, value))
        p = p2
    nfields = len(headers)
    if nfields > lim_hdrs:
        raise Rej("limit_headers")
    if nfields + 2 > lim_hdrs:
        raise Dc("header_count_band")
    low = [(n.lower(), v) for n, v in headers]
    names = [n for n, _ in low]
    hosts = [v for n, v in low if n == b"host"]
    if len(hosts) > 1:
        raise Rej("repeated_host")
    if ver == (1, 1) and not hosts:
        raise Rej("missing_host")
    cls_ = [v for n, v in low if n == b"content-length"]
    tes = [v for n, v in low if n == b"transfer-encoding"]
    if cls_ and tes:
        raise Rej("cl_and_te")
    if len(cls_) > 1:
        raise Rej("repeated_cl")
    for n in set(names):
        if names.count(n) > 1 and n in POLICY_SINGLETONS:
            if n == b"transfer-encoding":
                raise Dc("two_transfer_encoding_fields")
            raise Dc("policy_singleton_duplicate")
    if b"sec-websocket-key1" in names:
        raise Dc("hixie76")
    length = None
    chunked = False
    if cls_:
        v = cls_[0]
        if not v or not all(c in DIG for c in v):
            raise Rej("bad_content_length")
        if len(v.lstrip(b"0")) > 19 or len(v) > 4300:
            # beyond 2**63, or more digits than a bounded number conversion takes: refusing is as good as waiting
            raise Dc("content_length_beyond_any_integer_type")
        length = _big_int(v)
    if tes:
        if ver == (1, 0):
            raise Dc("te_on_http10")
        parts_ = _split_list(tes[0])
        if all(x == b"" for x in parts_):
            # the field is present and names no coding at all: chunked is not the final coding (RFC 9112 6.3-4.3)
            raise Rej("te_not_single_final_chunked")
        if any(x == b"" for x in parts_):
            raise Dc("empty_te_list_element")
        lowp = [x.lower() for x in parts_]
        if any(not is_token(x.split(b";")[0].strip(b" \t")) for x in parts_):
            # an element that is not a transfer-coding token: if the final coding is still a
            # single 'chunked' the framing is unambiguous and 501/400/accept are all defensible
            if lowp[-1] == b"chunked" and lowp.count(b"chunked") == 1:
                raise Dc("non_token_transfer_coding_before_chunked")
            raise Rej("te_not_chunked")
        if lowp.count(b"chunked") != 1 or lowp[-1] != b"chunked":
            raise Rej("te_not_single_final_chunked")
        chunked = True
    conn = b",".join(v for n, v in low if n == b"connection")
    ctoks = {t.strip(b" \t").lower() for t in conn.split(b",") if t.strip(b" \t")}
    if b"close" in ctoks:
        close = True
    elif b"keep-alive" in ctoks:
        close = False
    else:
        close = ver == (1, 0)
    upgrade = b"upgrade" in ctoks and any(n == b"upgrade" and v for n, v in low)
    msg = {
        "method": method, "target": target, "version": ver, "headers": headers,
        "start": start, "head_end": p, "chunked": chunked, "length": length,
        "close": close, "upgrade": upgrade, "body": b"", "chunks": [], "trailers": [],
    }
    max_trailers = lim_hdrs - (nfields + 2)
    # body
    if mu == b"CONNECT":
        msg["end"] = p
        return msg, p, ("DONT_CARE", "connect_tunnel")
    if chunked:
        body = bytearray()
        while True:
            try:
                sl, q = _line(data, p)
            except Inc:
                if len(data) - p > lim_line + 1:
                    raise Rej("limit_chunk_line")
                raise
            except Rej as r:
                raise Rej(r.cls + "_in_chunk_line") if r.cls == "bare_lf" else r
            if len(sl) > lim_line:
                raise Rej("limit_chunk_line")
            k = sl.find(b";")
            size_b = sl if k < 0 else sl[:k]
            ext = b"" if k < 0 else sl[k:]
            if ext and _BAD_VALUE.search(ext):
                raise Rej("ctl_in_chunk_ext")
            if size_b[-1:] in (b" ", b"\t") and ext and all(c in HEX for c in size_b.rstrip(b" \t")) and size_b.rstrip(b" \t"):
                raise Dc("bws_before_chunk_ext")
            if not size_b or not all(c in HEX for c in size_b):
                raise Rej("bad_chunk_size")
            size = _big_int(size_b, 16)
            p = q
            if size == 0:
                break
            if len(data) - p < size:
                raise Inc()
            body += data[p:p + size]
            msg["chunks"].append(size)
            p += size
            tail = data[p:p + 2]
            if tail != b"\r\n":
                if len(tail) < 2 and b"\r\n".startswith(tail):
                    raise Inc()
                raise Rej("no_crlf_after_chunk")
            p += 2
        # trailer section
        ntr = 0
        while True:
            try:
                ln, q = _line(data, p)
            except Inc:
                if len(data) - p > lim_field + 1:
                    raise Rej("limit_trailer")
                raise
            except Rej as r:
                raise Rej(r.cls + "_in_trailer") if r.cls == "bare_lf" else r
            p = q
            if ln == b"":
                break
            ntr += 1
            if len(ln) > lim_field:
                raise Rej("limit_trailer")
            name, value = parse_field_line(ln)
            msg["trailers"].append((name, value))
            if ntr > lim_hdrs:
                raise Rej("limit_trailers")
            if ntr + 1 > max_trailers:
                raise Dc("trailer_count_band")
        msg["body"] = bytes(body)
    elif length:
        if len(data) - p < length:
            raise Inc()
        msg["body"] = data[p:p + length]
        p += length
    msg["end"] = p
    if upgrade and not limits.get("upgrade_declined"):
        # what follows depends on whether the server switches protocols; a caller that knows the
        # offer is declined (RFC 9110 7.8: the connection simply goes on as HTTP/1.1) says so
        return msg, p, ("DONT_CARE", "upgrade_requested")
    if close:
        return msg, p, ("DONT_CARE", "after_connection_close")
    return msg, p, None


def parse_requests(data: bytes, limits: dict | None = None):
    limits = dict(DEFAULT_LIMITS, **(limits or {}))
    msgs = []
    pos = 0
    n = len(data)
    while True:
        # trailing CRLFs after the last message are not a message
        q = pos
        while data[q:q + 2] == b"\r\n":
            q += 2
        if q >= n:
            return msgs, ("COMPLETE", pos)
        try:
            msg, nxt, after = parse_one_request(data, pos, limits)
        except Inc:
            return msgs, ("INCOMPLETE", pos)
        except Rej as r:
            return msgs, ("REJECT", pos, r.cls)
        except Dc as d:
            return msgs, ("DONT_CARE", pos, d.reason)
        msgs.append(msg)
        pos = nxt
        if after is not None:
            if pos >= n:
                return msgs, ("COMPLETE", pos)
            return msgs, ("DONT_CARE", pos, after[1])


# ---------------------------------------------------------------------------
# response splitter (for a server's output): strict, CRLF only


def split_responses(data: bytes, methods: list | None = None, closed: bool = False):
    """Cut a server's output into responses.

    Returns (responses, rest_state) where each response is a dict(status, reason,
    version, headers, body, complete, start, end, framing) and rest_state is
    "clean" (nothing after the last complete response), "partial" (an
    incomplete response at the end), or ("malformed", offset, why).
    `methods[i]` (upper-case bytes) is the method of the i-th request, used for
    HEAD.  1xx responses are returned as responses with interim=True.
    """
    out = []
    pos = 0
    n = len(data)
    final_idx = 0
    while pos < n:
        start = pos
        i = data.find(b"\r\n\r\n", pos)
        if i < 0:
            # is what we have a plausible prefix of a head?
            head = data[pos:]
            if b"\n" in head.replace(b"\r\n", b""):
                return out, ("malformed", pos, "bare LF in response head")
            return out, "partial"
        head = data[pos:i]
        lines = head.split(b"\r\n")
        sl = lines[0]
        m = re.fullmatch(rb"HTTP/(\d)\.(\d) (\d{3})(?: ([^\x00-\x08\x0a-\x1f\x7f]*))?", sl)
        if m is None:
            return out, ("malformed", pos, f"bad status line {sl[:60]!r}")
        status = int(m.group(3))
        headers = []
        for ln in lines[1:]:
            try:
                headers.append(parse_field_line(ln))
            except Rej as r:
                return out, ("malformed", pos, f"bad field line {ln[:60]!r}: {r.cls}")
        low = [(a.lower(), b) for a, b in headers]
        p = i + 4
        method = None
        if methods is not None and final_idx < len(methods):
            method = methods[final_idx]
        resp = {"status": status, "reason": m.group(4) or b"", "version": (int(m.group(1)), int(m.group(2))),
                "headers": headers, "start": start, "interim": 100 <= status < 200 and status != 101,
                "body": b"", "complete": False, "framing": None}
        cl = [b for a, b in low if a == b"content-length"]
        te = [b for a, b in low if a == b"transfer-encoding"]
        if cl and te:
            return out, ("malformed", pos, "response with both Content-Length and Transfer-Encoding")
        if len(cl) > 1:
            return out, ("malformed", pos, "repeated Content-Length")
        if cl and not re.fullmatch(rb"\d+", cl[0]):
            return out, ("malformed", pos, f"bad Content-Length {cl[0]!r}")
        no_body = status < 200 or status in (204, 304) or method == b"HEAD"
        if status == 101 or (method == b"CONNECT" and 200 <= status < 300):
            # 101, or a 2xx answer to CONNECT: the connection becomes a tunnel after the head
            resp.update(complete=True, end=p, framing="upgrade")
            out.append(resp)
            return out, ("upgraded", p)
        if no_body:
            resp.update(complete=True, end=p, framing="none")
        elif te:
            codings = [x.strip(b" \t").lower() for x in b",".join(te).split(b",")]
            if codings[-1] != b"chunked":
                return out, ("malformed", pos, f"Transfer-Encoding without final chunked: {te!r}")
            body = bytearray()
            chunks = []
            ok = False
            while True:
                j = data.find(b"\r\n", p)
                if j < 0:
                    break
                sline = data[p:j]
                sz = sline.split(b";", 1)[0]
                if not sz or not all(c in HEX for c in sz):
                    return out, ("malformed", p, f"bad chunk size line {sline[:40]!r}")
                size = int(sz, 16)
                p = j + 2
                if size == 0:
                    # trailers
                    while True:
                        j = data.find(b"\r\n", p)
                        if j < 0:
                            p = None
                            break
                        ln = data[p:j]
                        p = j + 2
                        if ln == b"":
                            ok = True
                            break
                        try:
                            parse_field_line(ln)
                        except Rej as r:
                            return out, ("malformed", p, f"bad trailer {ln[:40]!r}")
                    break
                if n - p < size + 2:
                    p = None
                    break
                body += data[p:p + size]
                chunks.append(size)
                if data[p + size:p + size + 2] != b"\r\n":
                    return out, ("malformed", p + size, "no CRLF after chunk data")
                p += size + 2
            if not ok:
                resp.update(body=bytes(body), framing="chunked", chunks=chunks)
                out.append(resp)
                return out, "partial"
            resp.update(body=bytes(body), complete=True, end=p, framing="chunked", chunks=chunks)
        elif cl:
            length = int(cl[0])
            if n - p < length:
                resp.update(body=data[p:], framing="length", declared=length)
                out.append(resp)
                return out, "partial"
            resp.update(body=data[p:p + length], complete=True, end=p + length, framing="length", declared=length)
            p += length
        else:
            # close-delimited
            resp.update(body=data[p:], complete=closed, end=n, framing="eof")
            out.append(resp)
            return out, ("clean" if closed else "partial")
        out.append(resp)
        if not resp["interim"]:
            final_idx += 1
        pos = p
    return out, "clean"


# ---------------------------------------------------------------------------
# self-test vectors (hand-checked)


def selftest():
    def v(data, lim=None):
        msgs, verdict = parse_requests(data, lim)
        return len(msgs), verdict[0], (verdict[2] if len(verdict) > 2 else None)

    ok = b"GET / HTTP/1.1\r\nHost: a\r\n\r\n"
    assert v(ok) == (1, "COMPLETE", None)
    assert v(ok + ok) == (2, "COMPLETE", None)
    assert v(ok[:-1]) == (0, "INCOMPLETE", None)
    assert v(b"GET / HTTP/1.1\r\n\r\n") == (0, "REJECT", "missing_host")
    assert v(b"GET / HTTP/1.0\r\n\r\n")[0:2] == (1, "COMPLETE")
    assert v(b"GET / HTTP/1.1\r\nHost: a\r\nHost: b\r\n\r\n") == (0, "REJECT", "repeated_host")
    assert v(b"POST / HTTP/1.1\r\nHost: a\r\nContent-Length: 3\r\n\r\nabc" + ok) == (2, "COMPLETE", None)
    assert v(b"POST / HTTP/1.1\r\nHost: a\r\nContent-Length: 3\r\nTransfer-Encoding: chunked\r\n\r\n") == (0, "REJECT", "cl_and_te")
    assert v(b"POST / HTTP/1.1\r\nHost: a\r\nContent-Length: +3\r\n\r\nabc") == (0, "REJECT", "bad_content_length")
    assert v(b"POST / HTTP/1.1\r\nHost: a\r\nContent-Length: 3\r\nContent-Length: 3\r\n\r\nabc") == (0, "REJECT", "repeated_cl")
    ch = b"POST / HTTP/1.1\r\nHost: a\r\nTransfer-Encoding: chunked\r\n\r\n3\r\nabc\r\n0\r\n\r\n"
    msgs, verdict = parse_requests(ch + ok)
    assert len(msgs) == 2 and msgs[0]["body"] == b"abc" and msgs[0]["chunks"] == [3] and verdict[0] == "COMPLETE"
    assert v(ch.replace(b"chunked", b"chunked, chunked")) == (0, "REJECT", "te_not_single_final_chunked")
    assert v(ch.replace(b"chunked", b"gzip")) == (0, "REJECT", "te_not_single_final_chunked")
    assert v(ch.replace(b"chunked", b"chunked, gzip")) == (0, "REJECT", "te_not_single_final_chunked")
    assert v(ch.replace(b"3\r\nabc", b"3\nabc")) == (0, "REJECT", "bare_lf_in_chunk_line")
    assert v(ch.replace(b"3\r\nabc", b"0x3\r\nabc")) == (0, "REJECT", "bad_chunk_size")
    assert v(ch.replace(b"abc\r\n", b"abcd\r\n")) == (0, "REJECT", "no_crlf_after_chunk")
    assert v(ch.replace(b"3\r\n", b"3;a\rb\r\n")) == (0, "REJECT", "ctl_in_chunk_ext")
    assert v(b"GET / HTTP/1.1\r\nHost : a\r\n\r\n") == (0, "REJECT", "ws_around_name")
    assert v(b"GET / HTTP/1.1\r\nHost: a\r\n b\r\n\r\n") == (0, "REJECT", "obs_fold")
    assert v(b"GET / HTTP/1.1\r\nHost: a\nX: y\r\n\r\n") == (0, "REJECT", "bare_lf_in_header")
    assert v(b"GET / HTTP/1.1\r\nHost: a\r\nX: a\x00b\r\n\r\n") == (0, "REJECT", "ctl_in_value")
    assert v(b"GET /a\nb HTTP/1.1\r\nHost: a\r\n\r\n") == (0, "REJECT", "bare_lf_in_request_line")
    assert v(b"GET /a\tb HTTP/1.1\r\nHost: a\r\n\r\n") == (0, "REJECT", "bad_target_bytes")
    assert v(b"GET  / HTTP/1.1\r\nHost: a\r\n\r\n") == (0, "REJECT", "request_line_shape")
    assert v(b"GET / HTTP/2.0\r\nHost: a\r\n\r\n")[1] == "DONT_CARE"
    assert v(b"GET / HTTP/1.1\r\nHost: a\r\nConnection: close\r\n\r\n" + ok)[0:2] == (1, "DONT_CARE")
    assert v(b"GET http://a:65536/ HTTP/1.1\r\nHost: a\r\n\r\n")[1] == "DONT_CARE"
    assert v(b"GET http://a/ HTTP/1.1\r\nHost: a\r\n\r\n") == (1, "COMPLETE", None)
    # request-target form x method (judged only with strict_target_forms)
    sf = {"strict_target_forms": True}
    h = b" HTTP/1.1\r\nHost: a\r\n\r\n"
    assert v(b"OPTIONS *" + h, sf) == (1, "COMPLETE", None) and v(b"options *" + h, sf) == (1, "COMPLETE", None)
    assert v(b"GET *" + h)[1] == "DONT_CARE" and v(b"CONNECT /p" + h)[1] == "DONT_CARE"
    assert v(ok + b"GET *" + h, sf) == (1, "REJECT", "asterisk_non_options")
    assert v(b"POST * HTTP/1.1\r\nHost: a\r\nContent-Length: 3\r\n\r\nabc", sf) == (0, "REJECT", "asterisk_non_options")
    assert v(b"CONNECT *" + h, sf) == (0, "REJECT", "connect_asterisk_target")
    assert v(b"CONNECT /p" + h, sf) == (0, "REJECT", "connect_origin_form_target")
    assert v(b"CONNECT http://a/p" + h, sf) == (0, "REJECT", "connect_absolute_form_target")
    assert v(b"GET a:80" + h, sf) == (0, "REJECT", "bad_target_form") and v(b"OPTIONS a:80" + h, sf) == (0, "REJECT", "bad_target_form")
    assert v(b"CONNECT a:80" + h, sf)[0] == 1 and v(b"CONNECT a:80" + h + ok, sf)[0:2] == (1, "DONT_CARE")
    assert v(b"OPTIONS http://a/*" + h, sf) == (1, "COMPLETE", None) and v(b"GET /*" + h, sf) == (1, "COMPLETE", None)
    r, st = split_responses(b"HTTP/1.1 200 OK\r\nContent-Length: 2\r\n\r\nhiHTTP/1.1 404 Not Found\r\nTransfer-Encoding: chunked\r\n\r\n1\r\nx\r\n0\r\n\r\n")
    assert st == "clean" and [x["status"] for x in r] == [200, 404] and r[1]["body"] == b"x"
    r, st = split_responses(b"HTTP/1.1 200 OK\r\nContent-Length: 5\r\n\r\nhi")
    assert st == "partial" and not r[0]["complete"]
    r, st = split_responses(b"HTTP/1.1 200 OK\r\nContent-Length: 5\r\n\r\nhi", methods=[b"HEAD"])
    assert st == "partial" and r[0]["complete"] and len(r) == 1
