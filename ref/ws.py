"""ref_ws - RFC 6455 / RFC 7692 reference frame encoder and decoder (DESIGN.md 5).

Written from the RFC text, not from aiohttp's reader/writer:

  RFC 6455  5.2  base framing (FIN, RSV1-3, opcode, MASK, 7/16/64-bit length)
            5.3  masking
            5.4  fragmentation (control frames may be interleaved, data
                 messages may not)
            5.5  control frames (FIN set, payload <= 125), Close body
            5.6/8.1 text is UTF-8 (RFC 3629); failure -> 1007
            7.4  status codes (table below)
  RFC 7692  6.1  RSV1 = "Per-Message Compressed", only on the first frame of a
                 data message, never on control frames
            7.2.1 compression: deflate, flush, strip the 00 00 ff ff tail
            7.2.2 decompression: append 00 00 ff ff, inflate
            7.1.1/7.1.2 context takeover and window bits

`decode()` returns the messages up to the first violation and the set of close
codes that violation allows.  Where the RFCs leave a recipient latitude the
decoder has an explicit switch, and a caller that must not demand either
behaviour decodes with both settings (see `decode_variants`):

  utf8_fail_fast   invalid UTF-8 may be reported as soon as the offending
                   octets arrive or when the message is complete (RFC 6455 8.1
                   fixes the code, not the moment)
  strict_min_len   5.2 says a *sender* MUST use the minimal length encoding; it
                   does not say what a receiver does with a non-minimal one
  wire_cap         the message size limit (an implementation parameter, not an
                   RFC rule) may also be applied to the compressed size
  registered close codes 1012-1014 (IANA registry, not in RFC 6455) are
                   accepted or refused (`iana_codes`)

Messages are tuples:
  ("text", bytes) ("binary", bytes) ("ping", bytes) ("pong", bytes)
  ("close", code | None, reason_bytes)
Text payloads stay bytes (validated); the caller compares with str.encode().
"""
from __future__ import annotations

import struct
import zlib

OP_CONT, OP_TEXT, OP_BINARY, OP_CLOSE, OP_PING, OP_PONG = 0x0, 0x1, 0x2, 0x8, 0x9, 0xA
DATA_OPCODES = (OP_CONT, OP_TEXT, OP_BINARY)
CONTROL_OPCODES = (OP_CLOSE, OP_PING, OP_PONG)
KNOWN_OPCODES = DATA_OPCODES + CONTROL_OPCODES
KIND_OF = {OP_TEXT: "text", OP_BINARY: "binary", OP_PING: "ping", OP_PONG: "pong", OP_CLOSE: "close"}
OPCODE_OF = {v: k for k, v in KIND_OF.items()}

DEFLATE_TAIL = b"\x00\x00\xff\xff"

# close codes an endpoint may put in a Close frame, RFC 6455 7.4.1 / 7.4.2
RFC_CLOSE_CODES = frozenset({1000, 1001, 1002, 1003, 1007, 1008, 1009, 1010, 1011})
IANA_CLOSE_CODES = frozenset({1012, 1013, 1014})  # registered later; latitude
# 1004 reserved, 1005/1006/1015 "MUST NOT be set as a status code in a Close
# control frame by an endpoint"; 0-999 unused; 1016-2999 reserved for the
# protocol and not defined; 3000-4999 libraries/applications; >= 5000 undefined.

PROTOCOL_ERROR = 1002
INVALID_DATA = 1007
TOO_BIG = 1009


def close_code_status(code: int) -> str:
    """'valid' | 'invalid' | 'iana' (registered after RFC 6455: latitude)."""
    if 3000 <= code <= 4999 or code in RFC_CLOSE_CODES:
        return "valid"
    if code in IANA_CLOSE_CODES:
        return "iana"
    return "invalid"


# ---------------------------------------------------------------------------
# RFC 6455 5.3 masking


def apply_mask(data: bytes, mask: bytes) -> bytes:
    """octet i of the result = octet i of data XOR mask[i mod 4]."""
    n = len(data)
    if n == 0:
        return b""
    if n < 32:
        return bytes(b ^ mask[i & 3] for i, b in enumerate(data))
    key = (mask * (n // 4 + 1))[:n]
    return (int.from_bytes(data, "big") ^ int.from_bytes(key, "big")).to_bytes(n, "big")


# ---------------------------------------------------------------------------
# RFC 3629 UTF-8 (well-formed byte sequences, table 3-7 of Unicode / section 4)

UTF8_ACCEPT = 0
UTF8_REJECT = -1


def utf8_step(state, data: bytes):
    """Incremental validator.  state is UTF8_ACCEPT or (need, lo, hi) where
    `need` continuation octets are outstanding and the next one must lie in
    [lo, hi].  Returns the new state or UTF8_REJECT."""
    if state == UTF8_REJECT:
        return UTF8_REJECT
    if state == UTF8_ACCEPT:
        need, lo, hi = 0, 0x80, 0xBF
    else:
        need, lo, hi = state
    for b in data:
        if need:
            if not (lo <= b <= hi):
                return UTF8_REJECT
            need -= 1
            lo, hi = 0x80, 0xBF
            continue
        if b <= 0x7F:
            continue
        if 0xC2 <= b <= 0xDF:
            need, lo, hi = 1, 0x80, 0xBF
        elif b == 0xE0:
            need, lo, hi = 2, 0xA0, 0xBF  # no overlong 3-byte forms
        elif 0xE1 <= b <= 0xEC or 0xEE <= b <= 0xEF:
            need, lo, hi = 2, 0x80, 0xBF
        elif b == 0xED:
            need, lo, hi = 2, 0x80, 0x9F  # no surrogates U+D800..DFFF
        elif b == 0xF0:
            need, lo, hi = 3, 0x90, 0xBF  # no overlong 4-byte forms
        elif 0xF1 <= b <= 0xF3:
            need, lo, hi = 3, 0x80, 0xBF
        elif b == 0xF4:
            need, lo, hi = 3, 0x80, 0x8F  # <= U+10FFFF
        else:
            return UTF8_REJECT  # 80..C1 as lead, F5..FF
    if need:
        return (need, lo, hi)
    return UTF8_ACCEPT


def utf8_valid(data: bytes) -> bool:
    if data.isascii():
        return True
    return utf8_step(UTF8_ACCEPT, data) == UTF8_ACCEPT


# ---------------------------------------------------------------------------
# encoder


def build_frame(opcode: int, payload: bytes = b"", *, fin: bool = True, rsv1: bool = False,
                rsv2: bool = False, rsv3: bool = False, mask: bytes | None = None,
                len_form: int | None = None, declared_len: int | None = None) -> bytes:
    """One frame, RFC 6455 5.2.  `len_form` (7, 16 or 64) forces a length
    encoding (possibly non-minimal), `declared_len` writes a length that differs
    from len(payload) - both exist to build *invalid* or truncated input."""
    b0 = (0x80 if fin else 0) | (0x40 if rsv1 else 0) | (0x20 if rsv2 else 0) | (0x10 if rsv3 else 0) | (opcode & 0xF)
    n = len(payload) if declared_len is None else declared_len
    if len_form is None:
        len_form = 7 if n <= 125 else (16 if n <= 0xFFFF else 64)
    mbit = 0x80 if mask is not None else 0
    if len_form == 7:
        if n > 125:
            raise ValueError("7-bit length form holds 0..125")
        head = bytes([b0, mbit | n])
    elif len_form == 16:
        if n > 0xFFFF:
            raise ValueError("16-bit length form holds 0..65535")
        head = bytes([b0, mbit | 126]) + struct.pack("!H", n)
    else:
        head = bytes([b0, mbit | 127]) + struct.pack("!Q", n)
    if mask is not None:
        if len(mask) != 4:
            raise ValueError("mask is 4 octets")
        return head + mask + apply_mask(payload, mask)
    return head + payload


def close_payload(code: int | None, reason: bytes = b"") -> bytes:
    if code is None:
        return b""
    return struct.pack("!H", code) + reason


class Deflater:
    """Sender side of permessage-deflate (RFC 7692 7.2.1)."""

    def __init__(self, wbits: int = 15, no_context_takeover: bool = False, level: int = 6):
        if not 9 <= wbits <= 15:
            raise ValueError("window bits 9..15 (zlib cannot do 8)")
        self.wbits = wbits
        self.no_context_takeover = no_context_takeover
        self.level = level
        self._c = None

    def compress_message(self, data: bytes) -> bytes:
        if self._c is None or self.no_context_takeover:
            self._c = zlib.compressobj(self.level, zlib.DEFLATED, -self.wbits)
        out = self._c.compress(data) + self._c.flush(zlib.Z_SYNC_FLUSH)
        assert out.endswith(DEFLATE_TAIL)
        return out[:-4]


def split_payload(payload: bytes, sizes) -> list[bytes]:
    """Cut payload into len(sizes)+1 pieces; sizes are the lengths of all but the last."""
    out = []
    p = 0
    for s in sizes:
        out.append(payload[p:p + s])
        p += s
    out.append(payload[p:])
    return out


def encode_message(kind: str, payload: bytes = b"", *, code: int | None = None, masks=None,
                   deflater: Deflater | None = None, fragments=()) -> bytes:
    """A complete, valid message.  `masks`: None (unmasked) or an iterator of
    4-octet keys (one is taken per frame).  `deflater`: compress this data
    message.  `fragments`: lengths of all wire fragments but the last."""
    def nm():
        return None if masks is None else next(masks)

    op = OPCODE_OF[kind]
    if kind == "close":
        return build_frame(op, close_payload(code, payload), mask=nm())
    if op in CONTROL_OPCODES:
        return build_frame(op, payload, mask=nm())
    rsv1 = False
    if deflater is not None:
        payload = deflater.compress_message(payload)
        rsv1 = True
    pieces = split_payload(payload, fragments)
    out = bytearray()
    for i, piece in enumerate(pieces):
        out += build_frame(op if i == 0 else OP_CONT, piece, fin=(i == len(pieces) - 1),
                           rsv1=(rsv1 and i == 0), mask=nm())
    return bytes(out)


# ---------------------------------------------------------------------------
# decoder


class Violation:
    __slots__ = ("cls", "codes", "lo", "hi", "frame", "any_exception", "detail")

    def __init__(self, cls, codes, lo, hi, frame, any_exception=False, detail=""):
        self.detail = detail    # sub-class of the input (stable, small vocabulary)
        self.cls = cls          # stable class name of the rule that was broken
        self.codes = frozenset(codes)  # close codes the rule allows
        self.lo = lo            # stream offset from which a decoder can know
        self.hi = hi            # stream offset by which every decoder must know
        self.frame = frame      # index of the offending frame
        self.any_exception = any_exception  # RFC names no code (corrupt deflate data)

    def __repr__(self):
        return f"Violation({self.cls}{':' + self.detail if self.detail else ''}, codes={sorted(self.codes)}, lo={self.lo}, hi={self.hi}, frame={self.frame})"


class Result:
    __slots__ = ("messages", "error", "incomplete", "closed", "consumed", "frames", "notes")

    def __init__(self):
        self.messages = []
        self.error = None       # Violation | None
        self.incomplete = False  # stream ends inside a frame / inside a fragmented message
        self.closed = False     # a valid Close frame was decoded (and decoding stopped if stop_at_close)
        self.consumed = 0       # offset of the first octet not belonging to a fully processed frame
        self.frames = []        # (start, end, opcode, fin, rsv1, payload_len)
        self.notes = set()      # latitude switches that were consulted

    def key(self):
        e = self.error
        return (tuple(self.messages), None if e is None else (e.cls, tuple(sorted(e.codes)), e.lo, e.hi),
                self.closed, self.incomplete)


class _Inflater:
    """Receiver side of permessage-deflate (RFC 7692 7.2.2) with an output cap.
    A block with BFINAL=1 ends the zlib stream; decoding continues with a fresh
    inflater (7.2.3.4).  Each such restart is counted as a member."""

    def __init__(self):
        self._d = zlib.decompressobj(-15)

    def message(self, data: bytes, max_out: int, max_members: int | None):
        """-> (status, bytes) with status in ok | too_big | too_many_members | corrupt"""
        buf = data + DEFLATE_TAIL
        out = []
        total = 0
        members = 1
        while True:
            if self._d.eof:
                self._d = zlib.decompressobj(-15)
            try:
                if max_out:
                    piece = self._d.decompress(buf, max_out + 1 - total)
                else:
                    piece = self._d.decompress(buf)
            except zlib.error:
                self._d = zlib.decompressobj(-15)
                return "corrupt", b""
            total += len(piece)
            out.append(piece)
            if max_out and total > max_out:
                return "too_big", b""
            if self._d.eof:
                buf = self._d.unused_data
                if not buf:
                    break
                members += 1
                if max_members is not None and members > max_members:
                    return "too_many_members", b""
                continue
            buf = self._d.unconsumed_tail
            if not buf:
                break
        return "ok", b"".join(out)


def decode(stream: bytes, *, deflate: bool = False, max_msg_size: int = 0, validate_text: bool = True,
           require_mask: bool | None = None, utf8_fail_fast: bool = False, strict_min_len: bool = False,
           wire_cap: bool = False, iana_codes: bool = True, stop_at_close: bool = True,
           max_members: int | None = None, members_band: int = 0) -> Result:
    """Decode a byte stream received by one endpoint.

    deflate        permessage-deflate was negotiated (RSV1 meaningful)
    max_msg_size   0 = unlimited; a data message whose payload (after
                   decompression) is longer is refused with 1009
    require_mask   True (we are a server), False (we are a client), None (do not judge)
    max_members    implementation cap on BFINAL-terminated deflate members in one message
    """
    res = Result()
    n = len(stream)
    pos = 0
    fidx = 0
    frag_op = None      # opcode of the data message being reassembled
    frag_parts = []
    frag_len = 0
    frag_comp = False
    frag_utf8 = UTF8_ACCEPT
    inflater = _Inflater() if deflate else None

    def fail(cls, codes, lo, hi, any_exception=False, detail=""):
        res.error = Violation(cls, codes, lo, hi, fidx, any_exception, detail)
        return res

    while True:
        start = pos
        res.consumed = start
        if n - pos < 2:
            res.incomplete = (n - pos > 0) or frag_op is not None
            return res
        b0, b1 = stream[pos], stream[pos + 1]
        fin = bool(b0 & 0x80)
        rsv1, rsv2, rsv3 = bool(b0 & 0x40), bool(b0 & 0x20), bool(b0 & 0x10)
        opcode = b0 & 0x0F
        masked = bool(b1 & 0x80)
        l7 = b1 & 0x7F
        p = pos + 2
        # --- extended length (needed to know where the frame ends) -----------
        ext = 0 if l7 < 126 else (2 if l7 == 126 else 8)
        plen = None
        if n - p >= ext:
            if ext == 0:
                plen = l7
            elif ext == 2:
                plen = struct.unpack_from("!H", stream, p)[0]
            else:
                plen = struct.unpack_from("!Q", stream, p)[0]
        hdr_end = p + ext + (4 if masked else 0)
        frame_end = None if plen is None else hdr_end + plen
        # "must be known by": the end of the frame if it can be located, else never
        must = frame_end if frame_end is not None else float("inf")

        # --- rules that need only the first two octets -------------------------
        # Every rule the frame's header breaks is collected: a decoder may apply
        # them in any order, so each of their codes is acceptable.
        hv = []  # [cls, codes, detail, lo]

        def note(cls, codes, detail="", lo=start + 2):
            if hv:
                hv[1] |= set(codes)
            else:
                hv.extend([cls, set(codes), detail, lo])

        if rsv2 or rsv3:
            note("rsv23_set", {PROTOCOL_ERROR})
        if rsv1 and not deflate:
            note("rsv1_not_negotiated", {PROTOCOL_ERROR})
        if opcode not in KNOWN_OPCODES:
            note("reserved_opcode", {PROTOCOL_ERROR})
        elif opcode in CONTROL_OPCODES:
            if not fin:
                note("fragmented_control", {PROTOCOL_ERROR})
            if l7 > 125:
                note("control_too_long", {PROTOCOL_ERROR})
            if rsv1 and deflate:
                note("rsv1_on_control", {PROTOCOL_ERROR})
        else:
            if opcode == OP_CONT:
                if frag_op is None:
                    note("continuation_without_start", {PROTOCOL_ERROR})
                elif rsv1 and deflate:
                    note("rsv1_on_continuation", {PROTOCOL_ERROR})
            elif frag_op is not None:
                note("data_frame_inside_fragmented_message", {PROTOCOL_ERROR},
                     detail=("fin" if fin else "nonfin") + ("_partial0" if frag_len == 0 else "_partialN"))
        if require_mask is not None and masked != require_mask:
            note("mask_direction", {PROTOCOL_ERROR})

        # --- length ---------------------------------------------------------------
        if plen is None:
            if hv:
                return fail(hv[0], hv[1], hv[3], must, detail=hv[2])
            res.incomplete = True
            return res
        p += ext
        if ext == 8 and plen >> 63:
            # 5.2: "the most significant bit MUST be 0"
            note("length_msb_set", {PROTOCOL_ERROR, TOO_BIG}, lo=p)
            must = p
        elif (ext == 2 and plen < 126) or (ext == 8 and plen < 65536):
            res.notes.add("strict_min_len")
            if strict_min_len:
                note("non_minimal_length", {PROTOCOL_ERROR}, lo=p)
        if opcode in DATA_OPCODES and max_msg_size and not (ext == 8 and plen >> 63):
            comp = frag_comp if opcode == OP_CONT else rsv1
            if comp and deflate:
                res.notes.add("wire_cap")
            if (not (comp and deflate) or wire_cap) and frag_len + plen > max_msg_size:
                note("message_too_big", {TOO_BIG}, lo=p)
        if hv:
            return fail(hv[0], hv[1], hv[3], must, detail=hv[2])
        # --- mask key and payload -------------------------------------------------
        if n < frame_end:
            res.incomplete = True
            # UTF-8 fail-fast may already see bad octets of a partial frame; the
            # lazy reading (complete frames only) is the reference here
            return res
        if masked:
            key = stream[p:p + 4]
            p += 4
            payload = apply_mask(stream[p:frame_end], key)
        else:
            payload = stream[p:frame_end]
        pos = frame_end
        res.frames.append((start, frame_end, opcode, fin, rsv1, plen))

        if opcode in CONTROL_OPCODES:
            if opcode == OP_PING:
                res.messages.append(("ping", payload))
            elif opcode == OP_PONG:
                res.messages.append(("pong", payload))
            else:
                if len(payload) == 1:
                    return fail("close_payload_len_1", {PROTOCOL_ERROR}, frame_end, frame_end)
                if not payload:
                    res.messages.append(("close", None, b""))
                else:
                    code = struct.unpack("!H", payload[:2])[0]
                    reason = payload[2:]
                    st = close_code_status(code)
                    codes = set()
                    cls = []
                    if st == "iana":
                        res.notes.add("iana_codes")
                        if not iana_codes:
                            st = "invalid"
                    if st == "invalid":
                        codes.add(PROTOCOL_ERROR)
                        cls.append("invalid_close_code")
                    if not utf8_valid(reason):
                        codes.add(INVALID_DATA)
                        cls.append("close_reason_not_utf8")
                    if codes:
                        return fail("+".join(cls), codes, frame_end, frame_end,
                                    detail=str(code) if st == "invalid" else "")
                    res.messages.append(("close", code, reason))
                res.closed = True
                if stop_at_close:
                    res.consumed = pos
                    res.incomplete = False
                    return res
            fidx += 1
            continue

        # --- data frame -----------------------------------------------------------
        if opcode != OP_CONT:
            frag_op = opcode
            frag_parts = []
            frag_len = 0
            frag_comp = rsv1
            frag_utf8 = UTF8_ACCEPT
        frag_parts.append(payload)
        frag_len += plen
        if frag_op == OP_TEXT and validate_text and not frag_comp:
            frag_utf8 = utf8_step(frag_utf8, payload)
            if frag_utf8 == UTF8_REJECT:
                res.notes.add("utf8_fail_fast")
                if utf8_fail_fast:
                    return fail("text_not_utf8", {INVALID_DATA}, start + 2, frame_end)
        if not fin:
            fidx += 1
            continue
        body = b"".join(frag_parts)
        op = frag_op
        comp = frag_comp
        frag_op = None
        frag_parts = []
        if comp:
            status, body = inflater.message(body, max_msg_size, max_members)
            if status == "too_big":
                return fail("message_too_big_inflated", {TOO_BIG}, frame_end, frame_end)
            if status == "too_many_members":
                return fail("too_many_deflate_members", {TOO_BIG}, frame_end, frame_end)
            if status == "corrupt":
                return fail("corrupt_deflate_data", {PROTOCOL_ERROR, INVALID_DATA}, frame_end, frame_end,
                            any_exception=True)
        if max_msg_size and len(body) > max_msg_size:
            return fail("message_too_big", {TOO_BIG}, frame_end, frame_end)
        if op == OP_TEXT:
            if validate_text and not utf8_valid(body):
                return fail("text_not_utf8", {INVALID_DATA}, frame_end, frame_end)
            res.messages.append(("text", body))
        else:
            res.messages.append(("binary", body))
        frag_len = 0
        fidx += 1


LATITUDE_SWITCHES = ("utf8_fail_fast", "strict_min_len", "wire_cap", "iana_codes")


def decode_variants(stream: bytes, **kw):
    """Primary decoding plus the decodings under every latitude switch that was
    actually consulted; duplicates removed.  The first element is the primary."""
    base = dict(utf8_fail_fast=False, strict_min_len=False, wire_cap=True, iana_codes=True)
    base.update({k: v for k, v in kw.items() if k in LATITUDE_SWITCHES})
    rest = {k: v for k, v in kw.items() if k not in LATITUDE_SWITCHES}
    first = decode(stream, **rest, **base)
    out = [first]
    seen = {first.key()}
    notes = set(first.notes)
    done = set()
    # toggling one switch may expose another (the stream is decoded further)
    frontier = [dict(base)]
    while frontier:
        cur = frontier.pop()
        for sw in sorted(notes):
            alt = dict(cur)
            alt[sw] = not alt[sw]
            sig = tuple(sorted(alt.items()))
            if sig in done:
                continue
            done.add(sig)
            r = decode(stream, **rest, **alt)
            notes |= r.notes
            frontier.append(alt)
            if r.key() not in seen:
                seen.add(r.key())
                out.append(r)
        if len(done) > 32:
            break
    return out


# ---------------------------------------------------------------------------
# self-test: RFC vectors, hand-checked cases, encoder/decoder agreement


def oracle_selftest():
    H = bytes.fromhex
    hello = b"Hello"

    def msgs(stream, **kw):
        r = decode(stream, **kw)
        assert r.error is None, r.error
        assert not r.incomplete, "incomplete"
        return r.messages

    def err(stream, **kw):
        r = decode(stream, **kw)
        assert r.error is not None, ("no violation", r.messages)
        return r

    # --- RFC 6455 5.7 examples ------------------------------------------------
    assert msgs(H("810548656c6c6f")) == [("text", hello)]
    assert msgs(H("818537fa213d7f9f4d5158")) == [("text", hello)]
    assert msgs(H("010348656c") + H("80026c6f")) == [("text", hello)]
    assert msgs(H("890548656c6c6f")) == [("ping", hello)]
    assert msgs(H("8a8537fa213d7f9f4d5158")) == [("pong", hello)]
    b256 = bytes(range(256))
    assert msgs(H("827e0100") + b256) == [("binary", b256)]
    b64k = bytes(i * 7 & 0xFF for i in range(65536))
    assert msgs(H("827f0000000000010000") + b64k) == [("binary", b64k)]
    # encoder reproduces them octet for octet
    assert build_frame(OP_TEXT, hello) == H("810548656c6c6f")
    assert build_frame(OP_TEXT, hello, mask=H("37fa213d")) == H("818537fa213d7f9f4d5158")
    assert encode_message("text", hello, fragments=[3]) == H("010348656c80026c6f")
    assert build_frame(OP_PING, hello) == H("890548656c6c6f")
    assert build_frame(OP_PONG, hello, mask=H("37fa213d")) == H("8a8537fa213d7f9f4d5158")
    assert build_frame(OP_BINARY, b256) == H("827e0100") + b256
    assert build_frame(OP_BINARY, b64k) == H("827f0000000000010000") + b64k
    assert build_frame(OP_BINARY, b"x" * 125)[:2] == H("827d")
    assert build_frame(OP_BINARY, b"x" * 126)[:4] == H("827e007e")
    assert build_frame(OP_BINARY, b"x" * 65535)[:4] == H("827effff")
    assert apply_mask(apply_mask(b64k, H("37fa213d")), H("37fa213d")) == b64k
    assert apply_mask(b"abcdefg" * 9, b"\x01\x02\x03\x04") == bytes(
        b ^ (1, 2, 3, 4)[i % 4] for i, b in enumerate(b"abcdefg" * 9))

    # --- RFC 7692 7.2.3 examples ----------------------------------------------
    assert msgs(H("c107f248cdc9c90700"), deflate=True) == [("text", hello)]
    assert msgs(H("4103f248cd") + H("8004c9c90700"), deflate=True) == [("text", hello)]
    # 7.2.3.2 the second "Hello" reuses the window of the first
    assert msgs(H("c107f248cdc9c90700") + H("c105f200110000"), deflate=True) == [("text", hello)] * 2
    # 7.2.3.3 block without compression
    assert msgs(H("c10b000500faff48656c6c6f00"), deflate=True) == [("text", hello)]
    # 7.2.3.4 BFINAL=1 block followed by the 0x00 octet
    assert msgs(H("c108f348cdc9c9070000"), deflate=True) == [("text", hello)]
    # ... and the context is usable afterwards
    assert msgs(H("c108f348cdc9c9070000") + H("c107f248cdc9c90700"), deflate=True) == [("text", hello)] * 2
    # 7.2.3.5 two deflate blocks in one message
    assert msgs(H("c10df248050000 00ffffcac9c90700".replace(" ", "")), deflate=True) == [("text", hello)]
    d = Deflater()
    assert d.compress_message(hello) == H("f248cdc9c90700")
    assert d.compress_message(hello) == H("f200110000")
    d = Deflater(no_context_takeover=True)
    assert d.compress_message(hello) == d.compress_message(hello) == H("f248cdc9c90700")
    # RSV1 without the extension / on a control frame / on a continuation
    assert err(H("c107f248cdc9c90700")).error.cls == "rsv1_not_negotiated"
    assert err(H("c900"), deflate=True).error.cls == "rsv1_on_control"
    assert err(H("4103f248cd") + H("c004c9c90700"), deflate=True).error.cls == "rsv1_on_continuation"
    # uncompressed message while the extension is on
    assert msgs(H("810548656c6c6f"), deflate=True) == [("text", hello)]

    # --- header rules -----------------------------------------------------------
    for b0 in (0xA1, 0x91, 0xB1):
        e = err(bytes([b0, 0]))
        assert e.error.cls == "rsv23_set" and e.error.codes == {1002}
    for op in (3, 4, 5, 6, 7, 0xB, 0xC, 0xD, 0xE, 0xF):
        assert err(bytes([0x80 | op, 0])).error.cls == "reserved_opcode"
    assert err(H("0900")).error.cls == "fragmented_control"
    assert err(H("897e007e") + b"x" * 126).error.cls == "control_too_long"
    assert msgs(H("897d") + b"x" * 125) == [("ping", b"x" * 125)]
    assert err(H("8000")).error.cls == "continuation_without_start"
    assert err(H("0100") + H("8100")).error.cls == "data_frame_inside_fragmented_message"
    assert err(H("0100") + H("0200")).error.cls == "data_frame_inside_fragmented_message"
    r = err(H("8101") + b"a" + H("0101") + b"b" + H("8900") + H("8201") + b"c")
    assert r.messages == [("text", b"a"), ("ping", b"")] and r.error.frame == 3
    # control frames between fragments are delivered at once, the message after
    assert msgs(H("0101") + b"a" + H("8900") + H("8001") + b"b") == [("ping", b""), ("text", b"ab")]
    # 64-bit length with the top bit set
    e = err(H("827f8000000000000000"))
    assert e.error.cls == "length_msb_set" and e.error.codes == {1002, 1009}
    # non-minimal lengths: latitude
    assert msgs(H("817e0001") + b"a") == [("text", b"a")]
    assert err(H("817e0001") + b"a", strict_min_len=True).error.cls == "non_minimal_length"
    assert err(H("817f0000000000000001") + b"a", strict_min_len=True).error.cls == "non_minimal_length"
    # mask direction
    assert err(H("810548656c6c6f"), require_mask=True).error.cls == "mask_direction"
    assert err(H("818537fa213d7f9f4d5158"), require_mask=False).error.cls == "mask_direction"

    # --- UTF-8 (RFC 3629) ----------------------------------------------------------
    good = ["", "a", "\u00e9", "\u20ac", "\U0001F600", "\ud7ff", "\ue000", "\U0010ffff", "\u03ba\u1f79\u03c3\u03bc\u03b5"]
    for s in good:
        assert utf8_valid(s.encode()), s
    bad = [b"\x80", b"\xbf", b"\xc0\xaf", b"\xc1\xbf", b"\xe0\x80\xaf", b"\xe0\x9f\xbf", b"\xed\xa0\x80",
           b"\xed\xbf\xbf", b"\xf0\x80\x80\xaf", b"\xf0\x8f\xbf\xbf", b"\xf4\x90\x80\x80", b"\xf5\x80\x80\x80",
           b"\xff", b"\xfe", b"\xc2", b"\xe2\x82", b"\xf0\x9f\x98", b"a\xc2", b"\xc2a", b"\xe2\x82a",
           b"\xce\xba\xe1\xbd\xb9\xcf\x83\xce\xbc\xce\xb5\xed\xa0\x80edited"]
    for b in bad:
        assert not utf8_valid(b), b
    import random as _r
    rr = _r.Random(7)
    for _ in range(3000):
        b = bytes(rr.choice(b"a\x80\xbf\xc2\xe0\xa0\xed\x9f\xf0\x90\xf4\x8f\xe2\x82\xac") for _ in range(rr.randint(0, 6)))
        try:
            b.decode("utf-8")
            py = True
        except UnicodeDecodeError:
            py = False
        assert utf8_valid(b) == py, b
        k = rr.randint(0, len(b))
        st = utf8_step(utf8_step(UTF8_ACCEPT, b[:k]), b[k:])
        assert (st == UTF8_ACCEPT) == py, (b, k)
    euro = "\u20ac".encode()
    # a character split across fragments is fine; a broken one is 1007
    assert msgs(H("0101") + euro[:1] + H("8002") + euro[1:]) == [("text", euro)]
    e = err(H("0101") + euro[:1] + H("8001") + b"a")
    assert e.error.cls == "text_not_utf8" and e.error.codes == {1007} and e.error.frame == 1
    e = err(H("0101") + b"\xff" + H("8900") + H("8000"))
    assert e.messages == [("ping", b"")] and e.error.frame == 2
    e = err(H("0101") + b"\xff" + H("8900") + H("8000"), utf8_fail_fast=True)
    assert e.messages == [] and e.error.frame == 0
    assert msgs(H("8101") + b"\xff", validate_text=False) == [("text", b"\xff")]
    assert msgs(H("8201") + b"\xff") == [("binary", b"\xff")]

    # --- close ------------------------------------------------------------------------
    assert msgs(H("8800")) == [("close", None, b"")]
    assert msgs(H("880203e8")) == [("close", 1000, b"")]
    assert msgs(H("880503e8") + b"bye") == [("close", 1000, b"bye")]
    assert err(H("880103")).error.cls == "close_payload_len_1"
    for code in (0, 999, 1004, 1005, 1006, 1015, 1016, 1100, 2000, 2999, 5000, 65535):
        e = err(H("8802") + struct.pack("!H", code))
        assert e.error.cls == "invalid_close_code" and e.error.codes == {1002}, code
    for code in (1000, 1001, 1002, 1003, 1007, 1008, 1009, 1010, 1011, 3000, 3999, 4000, 4999):
        assert msgs(H("8802") + struct.pack("!H", code)) == [("close", code, b"")]
    assert msgs(H("8802") + struct.pack("!H", 1012)) == [("close", 1012, b"")]
    assert err(H("8802") + struct.pack("!H", 1012), iana_codes=False).error.cls == "invalid_close_code"
    e = err(H("880303e8ff"))
    assert e.error.cls == "close_reason_not_utf8" and e.error.codes == {1007}
    e = err(H("880303eeff"))  # 1006 and bad reason
    assert e.error.codes == {1002, 1007}
    r = decode(H("8800") + H("8100"))
    assert r.closed and r.messages == [("close", None, b"")] and r.consumed == 2
    r = decode(H("8800") + H("8100"), stop_at_close=False)
    assert r.messages == [("close", None, b""), ("text", b"")]

    # --- size limit --------------------------------------------------------------------
    assert msgs(H("8204") + b"abcd", max_msg_size=4) == [("binary", b"abcd")]
    e = err(H("8205") + b"abcde", max_msg_size=4)
    assert e.error.cls == "message_too_big" and e.error.codes == {1009} and e.error.lo == 2
    e = err(H("0203") + b"abc" + H("8900") + H("8002") + b"de", max_msg_size=4)
    assert e.messages == [("ping", b"")] and e.error.frame == 2 and e.error.lo == 9
    assert msgs(H("0203") + b"abc" + H("8001") + b"d", max_msg_size=4) == [("binary", b"abcd")]
    assert msgs(H("897d") + b"x" * 125, max_msg_size=4) == [("ping", b"x" * 125)]
    big = Deflater().compress_message(b"\0" * 100000)
    assert len(big) < 200
    e = err(build_frame(OP_BINARY, big, rsv1=True), deflate=True, max_msg_size=4096)
    assert e.error.cls == "message_too_big_inflated"
    assert msgs(build_frame(OP_BINARY, big, rsv1=True), deflate=True, max_msg_size=100000) == [("binary", b"\0" * 100000)]
    # many members: each "\x03\x00" is an empty BFINAL fixed block
    many = b"\x03\x00" * 40
    assert msgs(build_frame(OP_BINARY, many, rsv1=True), deflate=True, max_members=1024) == [("binary", b"")]
    e = err(build_frame(OP_BINARY, many, rsv1=True), deflate=True, max_members=16)
    assert e.error.cls == "too_many_deflate_members"
    e = err(build_frame(OP_BINARY, b"\xff\xff\xff\xff", rsv1=True), deflate=True)
    assert e.error.cls == "corrupt_deflate_data" and e.error.any_exception

    # --- incomplete input ------------------------------------------------------------------
    full = H("810548656c6c6f")
    for k in range(len(full)):
        r = decode(full[:k])
        assert r.error is None and r.messages == [] and r.incomplete == (k > 0), k
    r = decode(H("0101") + b"a")
    assert r.incomplete and r.messages == []

    # --- encoder/decoder agreement over a seeded sample -----------------------------------------
    for i in range(300):
        rr = _r.Random(i)
        defl = rr.random() < 0.5
        dfl = Deflater(rr.randint(9, 15), rr.random() < 0.5) if defl else None
        masks = iter(lambda: rr.randbytes(4), None) if rr.random() < 0.5 else None
        want = []
        wire = bytearray()
        for _ in range(rr.randint(1, 6)):
            kind = rr.choice(["text", "binary", "ping", "pong"])
            size = rr.choice([0, 1, 2, 5, 125, 126, 127, 300, 70000]) if kind in ("text", "binary") else rr.choice([0, 1, 125])
            body = bytes(rr.choice(b"abc d") for _ in range(size))
            frs = sorted(rr.randint(0, 8) for _ in range(rr.randint(0, 3))) if kind in ("text", "binary") else ()
            wire += encode_message(kind, body, masks=masks, fragments=frs,
                                   deflater=dfl if (kind in ("text", "binary") and rr.random() < 0.7) else None)
            want.append((kind, body))
        wire += encode_message("close", b"done", code=1000, masks=masks)
        want.append(("close", 1000, b"done"))
        r = decode(bytes(wire), deflate=defl)
        assert r.error is None and r.messages == want and r.closed, i
    return True


if __name__ == "__main__":
    oracle_selftest()
    print("ref.ws self-test ok")
