"""ref_static - reference model for C15 (static file serving).

Two independent parts, both written from the RFCs / aiohttp's documentation and
not from aiohttp's code:

1. Confinement.  `readings()` turns a request-target into the relative file
   names it can defensibly denote under a route prefix (RFC 3986: one level of
   percent-decoding, dot segments removed before or after decoding);
   `candidates()` maps such a name to real files with `os.path.realpath` and
   decides whether serving them is allowed:
     * symlink following off: the real location must be inside the real root;
     * symlink following on ("URI cannot traverse out, but symlinks can",
       docs/web_advanced.rst): the *lexically* normalised path must stay below
       the root, after which symlinks may lead anywhere.
   POSIX path semantics are assumed (backslash and "C:" are ordinary
   characters); NUL never names a file.

2. Range / If-Range / conditional arithmetic (RFC 9110 sections 13 and 14).
   `evaluate()` returns the set of acceptable outcomes for one selected
   representation; `check_response()` compares a response with it.

Where the RFC leaves a choice the outcome set has several members and the
reason is recorded in `Expect.cls`; the list is short and explicit:
   invalid ranges-specifier .......... ignore (200) or reject (416/400)   [14.2]
   several ranges .................... ignore (200) or reject (416)        [14.2]
   suffix range on an empty file ..... 416 or 200 (a 206 cannot be written) [14.1.2/14.4]
   If-Range date later than L-M ...... 206 or 200 (strictly: 200)          [13.1.5]
   If-Range neither tag nor date ..... 206 or 200
   HEAD with Range ................... with or without range handling       [14.2]
   If-Match / If-None-Match list with malformed elements: the field is present, so it is never treated as
   absent; it may be read as "nothing usable" (If-Match false -> 412, If-None-Match true -> go on, with
   If-Modified-Since ignored) or as the list of its well-formed members   [13.1.1, 13.1.2, 13.2.2]
"""
from __future__ import annotations

import calendar
import os
import re
import time as _time

# ---------------------------------------------------------------------------
# part 1: request-target -> file


_HEX = "0123456789abcdefABCDEF"


def decode_once(s: str) -> str | None:
    """One level of percent-decoding (RFC 3986 2.1).  `s` is the latin-1 view
    of the raw target bytes.  Returns the decoded bytes as a str in the file
    system encoding (surrogateescape), or None if an escape is malformed."""
    out = bytearray()
    i, n = 0, len(s)
    while i < n:
        c = s[i]
        if c == "%":
            h = s[i + 1:i + 3]
            if len(h) != 2 or h[0] not in _HEX or h[1] not in _HEX:
                return None
            out.append(int(h, 16))
            i += 3
        else:
            out += c.encode("latin-1")
            i += 1
    return out.decode("utf-8", "surrogateescape")


def remove_dot_segments(path: str) -> str:
    """RFC 3986 section 5.2.4."""
    inp = path
    out: list[str] = []
    while inp:
        if inp.startswith("../"):
            inp = inp[3:]
        elif inp.startswith("./"):
            inp = inp[2:]
        elif inp.startswith("/./"):
            inp = inp[2:]
        elif inp == "/.":
            inp = "/"
        elif inp.startswith("/../"):
            inp = inp[3:]
            if out:
                out.pop()
        elif inp == "/..":
            inp = "/"
            if out:
                out.pop()
        elif inp in (".", ".."):
            inp = ""
        else:
            j = inp.find("/", 1)
            if j < 0:
                out.append(inp)
                inp = ""
            else:
                out.append(inp[:j])
                inp = inp[j:]
    return "".join(out)


def split_target(target: str) -> str | None:
    """Path component of a request-target (origin-form or absolute-form)."""
    t = target
    m = re.match(r"^[A-Za-z][A-Za-z0-9+.\-]*://[^/?#]*", t)
    if m:
        t = t[m.end():] or "/"
    if not t.startswith("/"):
        return None
    for sep in ("#", "?"):
        k = t.find(sep)
        if k >= 0:
            t = t[:k]
    return t


def readings(target: str, prefix: str) -> list[str]:
    """Relative file names (below the static root) which `target` can denote
    under route `prefix` ("/static").  Empty list: the target does not
    address the route under any defensible reading."""
    path = split_target(target)
    if path is None:
        return []
    outs: list[str] = []
    variants = []
    d = decode_once(path)
    if d is not None:
        variants.append(d)                       # decode, keep dot segments (the file system resolves them)
        variants.append(remove_dot_segments(d))  # decode, then RFC 3986 normalisation
    r = decode_once(remove_dot_segments(path))
    if r is not None:
        variants.append(r)                       # normalise the raw path, then decode
    for v in variants:
        if v == prefix:
            rel = ""
        elif v.startswith(prefix + "/"):
            rel = v[len(prefix) + 1:]
        else:
            continue
        if rel not in outs:
            outs.append(rel)
    return outs


def is_inside(real: str, real_root: str) -> bool:
    return real == real_root or real.startswith(real_root.rstrip(os.sep) + os.sep)


def candidates(real_root: str, rel: str, follow: bool) -> list[str]:
    """Real paths that a request for `rel` may legitimately be answered from."""
    if "\x00" in rel:
        return []
    res: list[str] = []
    joined = real_root + os.sep + rel            # string concatenation: an "absolute" rel never resets the base
    lexical = os.path.normpath(joined)
    if follow:
        # only the URL may not climb out; symlinks may
        if is_inside(lexical, real_root):
            res.append(os.path.realpath(lexical))
        return res
    for p in (joined, lexical):
        try:
            real = os.path.realpath(p)
        except (OSError, ValueError):
            continue
        if is_inside(real, real_root) and real not in res:
            res.append(real)
    return res


# ---------------------------------------------------------------------------
# part 2: RFC 9110 range and conditional arithmetic

_DAYS = ("Mon", "Tue", "Wed", "Thu", "Fri", "Sat", "Sun")
_MONTHS = ("Jan", "Feb", "Mar", "Apr", "May", "Jun", "Jul", "Aug", "Sep", "Oct", "Nov", "Dec")
_IMF = re.compile(r"(Mon|Tue|Wed|Thu|Fri|Sat|Sun), (\d{2}) (Jan|Feb|Mar|Apr|May|Jun|Jul|Aug|Sep|Oct|Nov|Dec) (\d{4}) "
                  r"(\d{2}):(\d{2}):(\d{2}) GMT")


def http_date(ts: int) -> str:
    """IMF-fixdate (RFC 9110 5.6.7)."""
    y, mo, d, h, mi, s, wd, *_ = _time.gmtime(ts)
    return f"{_DAYS[wd]}, {d:02d} {_MONTHS[mo - 1]} {y:04d} {h:02d}:{mi:02d}:{s:02d} GMT"


def parse_http_date(v: str | None) -> int | None:
    """Seconds since the epoch for an IMF-fixdate; None for anything else (a
    recipient ignores a conditional date it cannot parse)."""
    if v is None:
        return None
    m = _IMF.fullmatch(v.strip(" \t"))
    if not m:
        return None
    _wd, d, mon, y, h, mi, s = m.groups()
    try:
        return calendar.timegm((int(y), _MONTHS.index(mon) + 1, int(d), int(h), int(mi), int(s), 0, 0, 0))
    except (ValueError, OverflowError):
        return None


_TOKEN = r"[!#$%&'*+\-.^_`|~0-9A-Za-z]+"
_ETAG = re.compile(r'(W/)?"([\x21\x23-\x7e\x80-\xff]*)"')


def parse_etag_list(v: str | None):
    """None (absent/empty), "*", a list of (weak, opaque) or "invalid"."""
    if v is None:
        return None
    v = v.strip(" \t")
    if v == "":
        return None
    if v == "*":
        return "*"
    out = []
    for part in v.split(","):
        part = part.strip(" \t")
        if part == "":
            continue
        m = _ETAG.fullmatch(part)
        if not m:
            return "invalid"
        out.append((bool(m.group(1)), m.group(2)))
    return out or "invalid"


def parse_range(v: str | None):
    """Classify a Range field value (RFC 9110 14.1.1, 14.2).

    ("none",) | ("other_unit", unit) | ("invalid", why) | ("multi", n) |
    ("int", first, last|None) | ("suffix", n); plus a flag `unit_case` as the
    last element for the bytes forms when the unit is not spelled in lower case.
    """
    if v is None:
        return ("none",)
    v = v.strip(" \t")
    m = re.fullmatch(rf"({_TOKEN})=(.*)", v, re.S)
    if not m:
        return ("invalid", "no range-unit '='")
    unit, rest = m.group(1), m.group(2)
    if unit.lower() != "bytes":
        # "An origin server MUST ignore a Range header field that contains a
        # range unit it does not understand."
        return ("other_unit", unit)
    odd_case = unit != "bytes"
    # range-set = 1#range-spec = range-spec *( OWS "," OWS range-spec ): white space only around commas
    specs = rest.split(",")
    specs = [(x.lstrip(" \t") if i > 0 else x) for i, x in enumerate(specs)]
    specs = [(x.rstrip(" \t") if i < len(specs) - 1 else x) for i, x in enumerate(specs)]
    # range-set = 1#range-spec: empty list elements are tolerated by recipients
    # of a list (RFC 9110 5.6.1.2) but at least one element is needed
    nonempty = [s for s in specs if s != ""]
    if not nonempty:
        return ("invalid", "empty range-set")
    parsed = []
    for s in nonempty:
        m = re.fullmatch(r"([0-9]*)-([0-9]*)", s, re.A)
        if not m or (m.group(1) == "" and m.group(2) == ""):
            return ("invalid", "bad range-spec")
        a, b = m.group(1), m.group(2)
        if a == "":
            parsed.append(("suffix", int(b)))
        elif b == "":
            parsed.append(("int", int(a), None))
        else:
            if int(b) < int(a):
                return ("invalid", "last-pos < first-pos")   # 14.1.1: "An int-range is invalid if ..."
            parsed.append(("int", int(a), int(b)))
    if len(parsed) > 1 or len(specs) > 1:
        return ("multi", len(parsed), odd_case)
    return parsed[0] + (odd_case,)


class Outcome:
    """One acceptable answer.  kind: full | partial | unsat | bad_request |
    not_modified | precondition_failed"""

    __slots__ = ("kind", "start", "end")

    def __init__(self, kind, start=None, end=None):
        self.kind, self.start, self.end = kind, start, end

    def __repr__(self):
        return f"{self.kind}[{self.start}:{self.end}]" if self.kind == "partial" else self.kind

    def __eq__(self, o):
        return (self.kind, self.start, self.end) == (o.kind, o.start, o.end)


class Expect:
    """outcomes: acceptable answers; cls: full description of the case (for
    messages); key_cls: the one fact that decided the expectation (for keys)."""

    __slots__ = ("outcomes", "cls", "key_cls", "alts")

    def __init__(self, outcomes, cls, key_cls=None):
        self.outcomes, self.cls = outcomes, cls
        self.alts = None      # several readings of the request (malformed entity-tag lists): one Expect per reading
        self.key_cls = key_cls if key_cls is not None else cls

    def __repr__(self):
        return f"Expect({self.outcomes}, {self.cls})"


def evaluate_range(spec, size: int):
    """-> (list of Outcome, class name).  RFC 9110 14.1.2 / 14.2 / 15.5.17."""
    k = spec[0]
    if k == "none":
        return [Outcome("full")], "no_range"
    if k == "other_unit":
        return [Outcome("full")], "other_unit"
    if k == "invalid":
        return [Outcome("full"), Outcome("unsat"), Outcome("bad_request")], "invalid_range"
    if k == "multi":
        return [Outcome("full"), Outcome("unsat")], "multi_range"
    suffix = "_unit_case" if spec[-1] else ""
    if k == "suffix":
        n = spec[1]
        if n == 0:
            return [Outcome("unsat")], "suffix_zero" + suffix
        if size == 0:
            return [Outcome("unsat"), Outcome("full")], "suffix_on_empty" + suffix
        return [Outcome("partial", max(0, size - n), size)], ("suffix_longer" if n > size else "suffix") + suffix
    first, last = spec[1], spec[2]
    if first >= size:
        return [Outcome("unsat")], ("first_eq_size" if first == size else "first_gt_size") + suffix
    if last is None:
        return [Outcome("partial", first, size)], "open_ended" + suffix
    return [Outcome("partial", first, min(last, size - 1) + 1)], ("last_ge_size" if last >= size else "closed") + suffix


def _hdr(headers, name):
    name = name.lower()
    for k, v in headers:
        if k.lower() == name:
            return v
    return None


def scan_etag_field(v: str | None):
    """Tolerant reading of an If-Match / If-None-Match field value.

    None (field absent or empty) | "*" | (members, malformed): `members` are the well-formed entity-tags
    (weak, opaque) found between the list separators, `malformed` says whether anything else - an unquoted
    tag, "W/x", an unterminated quote, text after a closing quote - occurs in the value.  Empty list
    elements are skipped and are not malformed (RFC 9110 5.6.1.2).  Unlike `parse_etag_list` a comma
    inside the quotes belongs to the opaque tag (etagc includes %x2C)."""
    r = _scan_etag_field(v)
    return r if r is None or r == "*" else r[:2]


def etag_field_empty_elements(v: str | None) -> int:
    """Number of empty list elements before a well-formed or malformed element ('"a",,"b"', ', "a"'); a
    recipient MUST parse and ignore them (RFC 9110 5.6.1.2).  A trailing comma is not counted."""
    r = _scan_etag_field(v)
    return 0 if r is None or r == "*" else r[2]


def _scan_etag_field(v):
    if v is None:
        return None
    v = v.strip(" \t")
    if v == "":
        return None
    if v == "*":
        return "*"
    members, malformed, empties = [], False, 0
    i, n = 0, len(v)
    while i < n:
        while i < n and v[i] in " \t":
            i += 1
        if i >= n:
            break
        if v[i] == ",":
            i += 1
            empties += 1
            continue
        m = _ETAG.match(v, i)
        if m:
            j = m.end()
            while j < n and v[j] in " \t":
                j += 1
            if j >= n or v[j] == ",":
                members.append((bool(m.group(1)), m.group(2)))
                i = j + 1
                continue
        malformed = True
        j = v.find(",", i)
        i = n if j < 0 else j + 1
    return members, malformed, empties


def _tag_readings(field):
    """The defensible readings of a scanned entity-tag field, each None (absent) | "*" | list of members.

    RFC 9110 13.1.1 / 13.1.2: the condition is decided by "*", else by a list of entity-tags, and
    "otherwise" - a present field that is neither - If-Match is false and If-None-Match is true; that is
    the reading [] (present, matches nothing).  A field that is present is never read as absent.  For a
    list with malformed elements a recipient may also have kept the well-formed members."""
    if field is None or field == "*":
        return [field]
    members, malformed = field
    if not malformed:
        return [members]
    return [[], members] if members else [[]]


def evaluate(method: str, headers, size: int, last_modified: int, etag: str) -> Expect:
    """Acceptable outcomes for GET/HEAD on a representation of `size` bytes
    with validators (`last_modified` in whole seconds, strong `etag` opaque
    value without quotes).  Order of evaluation: RFC 9110 13.2.2.

    An If-Match / If-None-Match value with malformed elements has more than one reading
    (`_tag_readings`); the acceptable outcomes are the union over the readings."""
    imf = scan_etag_field(_hdr(headers, "If-Match"))
    inmf = scan_etag_field(_hdr(headers, "If-None-Match"))
    bad = [n for n, f in (("if_match", imf), ("if_none_match", inmf)) if isinstance(f, tuple) and f[1]]
    empties = any(etag_field_empty_elements(_hdr(headers, n)) for n in ("If-Match", "If-None-Match"))
    alts = []
    for im in _tag_readings(imf):
        for inm in _tag_readings(inmf):
            e = _evaluate(method, headers, size, last_modified, etag, im, inm)
            cls, kcls = e.cls, e.key_cls
            if bad:
                cls = "malformed_" + "+".join(bad) + ":" + cls
                if kcls == "if_match_false":
                    kcls = "if_match_malformed"
            if empties:
                # empty list elements, which a recipient must skip, are not malformed: judged strictly. (They had a key
                # class of their own, C15-F7, until the etag list parser was repaired.)
                cls = "empty_list_element:" + cls
            alts.append(Expect(e.outcomes, cls, kcls))
    exp = alts[0]
    if len(alts) > 1:
        outs = []
        for e in alts:
            outs = _merge(outs, e.outcomes)
        # the first reading (nothing usable in the field) names the class of the union
        exp = Expect(outs, "|".join(e.cls for e in alts), alts[0].key_cls)
        exp.alts = alts
    return exp


def _evaluate(method: str, headers, size: int, last_modified: int, etag: str, im, inm) -> Expect:
    ius = parse_http_date(_hdr(headers, "If-Unmodified-Since"))
    ims = parse_http_date(_hdr(headers, "If-Modified-Since"))
    # step 1/2
    if im is not None:
        ok = im == "*" or any((not w) and t == etag for w, t in im)     # strong comparison
        if not ok:
            return Expect([Outcome("precondition_failed")], "if_match_false")
    elif ius is not None:
        if not last_modified <= ius:
            return Expect([Outcome("precondition_failed")], "if_unmodified_since_false")
    # step 3/4
    if inm is not None:
        hit = inm == "*" or any(t == etag for _w, t in inm)            # weak comparison
        if hit:
            return Expect([Outcome("not_modified")], "if_none_match_false")
    elif ims is not None:
        if last_modified <= ims:
            return Expect([Outcome("not_modified")], "if_modified_since_false")
    # step 5
    rv = _hdr(headers, "Range")
    spec = parse_range(rv)
    outs, rcls = evaluate_range(spec, size)
    cls = rcls
    kcls = "unit_case" if rcls.endswith("_unit_case") else rcls
    irv = _hdr(headers, "If-Range")
    if spec[0] != "none" and irv is not None:
        irv = irv.strip(" \t")
        tag = _ETAG.fullmatch(irv)
        date = parse_http_date(irv)
        if tag is not None:
            if tag.group(1) or tag.group(2) != etag:
                # strong comparison failed: "the server MUST ignore the Range header field"
                outs, cls, kcls = [Outcome("full")], "if_range_etag_false:" + rcls, "if_range_etag_false"
            else:
                cls = "if_range_etag_true:" + rcls
        elif date is not None:
            if date == last_modified:
                cls = "if_range_date_true:" + rcls
            elif date < last_modified:
                outs, cls, kcls = [Outcome("full")], "if_range_date_false:" + rcls, "if_range_date_false"
            else:
                outs = _merge(outs, [Outcome("full")])
                cls = "if_range_date_later:" + rcls
        else:
            outs = _merge(outs, [Outcome("full")])
            cls = "if_range_invalid:" + rcls
    if method == "HEAD" and spec[0] != "none":
        # range handling is only defined for GET; a HEAD answer may or may not mirror it
        outs = _merge(outs, [Outcome("full")])
        cls = "head:" + cls
    return Expect(outs, cls, kcls)


def _merge(a, b):
    out = list(a)
    for x in b:
        if x not in out:
            out.append(x)
    return out


_CR = re.compile(r"bytes (\d+)-(\d+)/(\d+)")
_CR_UNSAT = re.compile(r"bytes \*/(\d+)")


def check_response(exp: Expect, method: str, status: int, headers, body: bytes, complete: bool,
                   data: bytes, prefix_ok: bool = False):
    """`_check_response` for every reading of the request: the response must be right under one of them.  When
    it is right under none, the complaint is made under the reading the server evidently took: for a 304/412
    the first one, otherwise the first reading under which the preconditions let the request through (if any)."""
    if not exp.alts:
        return _check_response(exp, method, status, headers, body, complete, data, prefix_ok)
    res = [_check_response(e, method, status, headers, body, complete, data, prefix_ok) for e in exp.alts]
    if any(not r for r in res):
        return []
    if status not in (304, 412):
        for e, r in zip(exp.alts, res):
            if not {o.kind for o in e.outcomes} <= {"not_modified", "precondition_failed"}:
                return r
    return res[0]


def _check_response(exp: Expect, method: str, status: int, headers, body: bytes, complete: bool,
                    data: bytes, prefix_ok: bool = False):
    """Compare one response with the expectation for the representation `data`.

    Returns a list of (invariant, key, message).  `complete` False means the
    body was cut short by a fault (`prefix_ok`): it must then be a prefix of
    the right slice.  Header names in `headers` are str."""
    v = []
    size = len(data)
    cl = _hdr(headers, "Content-Length")
    cr = _hdr(headers, "Content-Range")
    head = method == "HEAD"

    def bad(inv, key, msg):
        v.append((inv, key, f"{msg} [case {exp.cls}; acceptable {_want(exp)} {exp.outcomes}]"))

    kinds = {o.kind for o in exp.outcomes}
    if status == 200:
        if "full" not in kinds:
            inv = "conditional_status" if kinds <= {"not_modified", "precondition_failed"} else "range_status"
            bad(inv, f"200_for_{exp.key_cls}", "whole file served with 200")
            return v
        start, end = 0, size
        if cr is not None:
            bad("content_range", "content_range_on_200", f"Content-Range {cr!r} on a 200 response")
    elif status == 206:
        parts = [o for o in exp.outcomes if o.kind == "partial"]
        m = _CR.fullmatch(cr or "")
        if m is None:
            bad("content_range", "206_without_valid_content_range", f"206 with Content-Range {cr!r}")
            return v
        start, last, total = int(m.group(1)), int(m.group(2)), int(m.group(3))
        end = last + 1
        if total != size or last < start or last >= size:
            bad("content_range", f"content_range_inconsistent:{exp.key_cls}",
                f"Content-Range {cr!r} is not a range of a {size}-byte representation")
            return v
        if not parts:
            inv = "conditional_status" if kinds <= {"not_modified", "precondition_failed"} else "range_status"
            bad(inv, f"206_for_{exp.key_cls}", f"206 {cr!r} served")
            return v
        if not any((o.start, o.end) == (start, end) for o in parts):
            bad("range_slice", f"wrong_slice:{exp.key_cls}", f"206 {cr!r} but the requested range is {parts}")
            return v
    elif status == 416:
        if "unsat" not in kinds:
            bad("range_status", f"416_for_{exp.key_cls}", "416 for a range that can be satisfied or must be ignored")
        if cr is not None and not (_CR_UNSAT.fullmatch(cr) and int(_CR_UNSAT.fullmatch(cr).group(1)) == size):
            bad("content_range", "416_content_range", f"416 with Content-Range {cr!r} for a {size}-byte representation")
        return v
    elif status == 400:
        if "bad_request" not in kinds:
            bad("range_status", f"400_for_{exp.key_cls}", "400")
        return v
    elif status == 304:
        if "not_modified" not in kinds:
            bad("conditional_status", f"304_for_{exp.key_cls}", "304")
        if body:
            bad("body_exact", "body_on_304", f"304 with {len(body)} body bytes")
        return v
    elif status == 412:
        if "precondition_failed" not in kinds:
            bad("conditional_status", f"412_for_{exp.key_cls}", "412")
        return v
    else:
        bad("range_status", f"status_{status}_for_{exp.key_cls}", f"unexpected status {status}")
        return v
    # 200 / 206 with [start, end)
    if kinds <= {"not_modified", "precondition_failed"}:
        bad("conditional_status", f"{status}_for_{exp.key_cls}", f"{status}")
        return v
    want = data[start:end]
    if cl is None or not cl.isdigit():
        bad("content_length", "no_content_length", f"Content-Length {cl!r} on a file response")
    elif int(cl) != len(want):
        bad("content_length", f"content_length_mismatch:{status}", f"Content-Length {cl} but the slice [{start}:{end}] has {len(want)} bytes")
    if head:
        if body:
            bad("body_exact", "body_on_head", f"HEAD answered with {len(body)} body bytes")
        return v
    if complete:
        if body != want:
            bad("body_exact", f"body_differs:{status}", f"body ({len(body)} bytes) is not file[{start}:{end}] ({len(want)} bytes); "
                f"first difference at {_first_diff(body, want)}")
    else:
        if not prefix_ok:
            bad("body_exact", f"body_incomplete:{status}", f"body has {len(body)} of {len(want)} bytes and the response never finished")
        elif not want.startswith(body):
            bad("body_exact", f"truncated_body_not_a_prefix:{status}", f"{len(body)} bytes received before the fault are not a prefix of file[{start}:{end}]")
    return v


def _want(exp: Expect) -> str:
    names = {"full": "200", "partial": "206", "unsat": "416", "bad_request": "400", "not_modified": "304",
             "precondition_failed": "412"}
    return "/".join(names[o.kind] for o in exp.outcomes)


def _first_diff(a: bytes, b: bytes) -> int:
    n = min(len(a), len(b))
    for i in range(n):
        if a[i] != b[i]:
            return i
    return n


# ---------------------------------------------------------------------------
# self-test: hand-checked vectors


def oracle_selftest():
    # -- percent-decoding and dot segments (RFC 3986 5.2.4 examples)
    assert remove_dot_segments("/a/b/c/./../../g") == "/a/g"
    assert remove_dot_segments("mid/content=5/../6") == "mid/6"
    assert remove_dot_segments("/static/../../x") == "/x"
    assert decode_once("%2e%2E%2f%252e") == "../%2e"
    assert decode_once("%zz") is None and decode_once("abc%2") is None and decode_once("%") is None
    assert decode_once("a%00b") == "a\x00b"
    assert readings("/static/in.txt", "/static") == ["in.txt"]
    assert readings("/static/a/../in.txt", "/static") == ["a/../in.txt", "in.txt"]
    assert readings("/static/../x", "/static") == ["../x"]          # only the keep-dots reading stays under the prefix;
    assert readings("/static/%2e%2e/x", "/static") == ["../x"]      # candidates() then refuses to climb out
    assert readings("/static/..%2f..%2fetc", "/static") == ["../../etc"]
    assert readings("/static/%252e%252e/x", "/static") == ["%2e%2e/x"]
    assert readings("http://h.test/static/in.txt?x=1#f", "/static") == ["in.txt"]
    assert readings("/static", "/static") == [""] and readings("/staticx/in.txt", "/static") == []
    assert readings("/static//etc/passwd", "/static") == ["/etc/passwd"]
    assert readings("/stati%63/in.txt", "/static") == ["in.txt"]
    assert readings("*", "/static") == []
    # -- confinement on a private scratch tree
    import shutil
    import tempfile
    base = os.path.realpath(tempfile.mkdtemp(prefix="verif-c15-selftest-"))
    try:
        root = os.path.join(base, "root")
        os.makedirs(os.path.join(root, "sub"))
        os.makedirs(os.path.join(base, "outside"))
        os.makedirs(os.path.join(base, "rootx"))
        for p in ("root/in.txt", "root/sub/deep.txt", "outside/secret.txt", "rootx/evil.txt"):
            with open(os.path.join(base, p), "w") as f:
                f.write(p)
        os.symlink("../outside/secret.txt", os.path.join(root, "out_link"))
        os.symlink("../outside", os.path.join(root, "out_dir"))
        os.symlink("in.txt", os.path.join(root, "in_link"))
        os.symlink("loop", os.path.join(root, "loop"))
        j = os.path.join
        assert candidates(root, "in.txt", False) == [j(root, "in.txt")]
        assert candidates(root, "in_link", False) == [j(root, "in.txt")]
        assert candidates(root, "sub/../in.txt", False) == [j(root, "in.txt")]
        assert candidates(root, "../outside/secret.txt", False) == []
        assert candidates(root, "../outside/secret.txt", True) == []          # the URL may not climb out even when following
        assert candidates(root, "../rootx/evil.txt", False) == []              # "root" is a string prefix of "rootx"
        assert candidates(root, "out_link", False) == []
        assert candidates(root, "out_link", True) == [j(base, "outside", "secret.txt")]
        assert candidates(root, "out_dir/secret.txt", True) == [j(base, "outside", "secret.txt")]
        assert candidates(root, "out_dir/secret.txt", False) == []
        assert candidates(root, "out_dir/../in.txt", False) == [j(root, "in.txt")]   # lexical reading only
        assert candidates(root, "out_dir/../secret.txt", True) == [j(root, "secret.txt")]  # lexical; does not exist, nothing to serve
        assert candidates(root, "/etc/passwd", False) == [j(root, "etc/passwd")]     # absolute name never resets the base
        assert candidates(root, "a\x00b", False) == []
        assert candidates(root, "", False) == [root]
        assert [os.path.basename(p) for p in candidates(root, "loop", False)] in (["loop"], [])  # realpath of a loop stays put; not a regular file
    finally:
        shutil.rmtree(base, ignore_errors=True)
    # -- dates, entity tags
    assert http_date(784111777) == "Sun, 06 Nov 1994 08:49:37 GMT"       # RFC 9110 5.6.7 example
    assert parse_http_date("Sun, 06 Nov 1994 08:49:37 GMT") == 784111777
    assert parse_http_date("Sunday, 06-Nov-94 08:49:37 GMT") is None and parse_http_date("garbage") is None
    assert parse_etag_list('"a", W/"b"') == [(False, "a"), (True, "b")]
    assert parse_etag_list("*") == "*" and parse_etag_list("") is None and parse_etag_list("a") == "invalid"
    # -- Range classification (RFC 9110 14.1.2 examples, 10000-byte representation)
    P = parse_range
    assert P(None) == ("none",) and P("bytes=0-499") == ("int", 0, 499, False)
    assert P("bytes=-500") == ("suffix", 500, False) and P("bytes=9500-") == ("int", 9500, None, False)
    assert P("bytes=500-600,601-999")[0] == "multi" and P("bytes=0-0,-1")[0] == "multi" and P("bytes=0-0 , -1")[0] == "multi"
    assert P("items=0-5") == ("other_unit", "items") and P("Bytes=0-1") == ("int", 0, 1, True)
    for bad_ in ("bytes=", "bytes=-", "bytes=a-b", "bytes=5-2", "bytes 0-1", "bytes=0-1-2", "bytes=0x1-2", "bytes= 0 - 1", "bytes= 0-1", "bytes=0-1 ,2-3 x",
                 "=0-1", "bytes=1", "bytes=--1", "bytes=١-٢"):
        assert P(bad_)[0] == "invalid", bad_

    def ev(rng, size):
        return evaluate_range(P(rng), size)[0]

    O = Outcome
    assert ev("bytes=0-499", 10000) == [O("partial", 0, 500)]
    assert ev("bytes=500-999", 10000) == [O("partial", 500, 1000)]
    assert ev("bytes=-500", 10000) == [O("partial", 9500, 10000)]
    assert ev("bytes=9500-", 10000) == [O("partial", 9500, 10000)]
    assert ev("bytes=0-0", 10000) == [O("partial", 0, 1)] and ev("bytes=-1", 10000) == [O("partial", 9999, 10000)]
    assert ev("bytes=9999-20000", 10000) == [O("partial", 9999, 10000)]      # last-pos clamped
    assert ev("bytes=10000-", 10000) == [O("unsat")] and ev("bytes=10000-10001", 10000) == [O("unsat")]
    assert ev("bytes=-0", 10000) == [O("unsat")]                              # zero suffix-length is never satisfiable
    assert ev("bytes=-20000", 10000) == [O("partial", 0, 10000)]              # suffix longer than the file: whole file
    assert ev("bytes=0-", 0) == [O("unsat")] and ev("bytes=0-0", 0) == [O("unsat")]
    assert ev("bytes=-1", 0) == [O("unsat"), O("full")]
    assert ev("bytes=0-0", 1) == [O("partial", 0, 1)] and ev("bytes=1-", 1) == [O("unsat")]
    assert ev("items=0-1", 10) == [O("full")]
    assert O("unsat") in ev("bytes=5-2", 10) and O("full") in ev("bytes=5-2", 10)
    # -- conditionals (13.2.2 order) and If-Range (13.1.5)
    lm = 784111777
    D = http_date

    def E(h, size=10, method="GET"):
        return evaluate(method, h, size, lm, "tag").outcomes

    assert E([]) == [O("full")]
    assert E([("If-Match", '"x"')]) == [O("precondition_failed")] and E([("If-Match", '"tag"')]) == [O("full")]
    assert E([("If-Match", 'W/"tag"')]) == [O("precondition_failed")]        # strong comparison
    assert E([("If-Match", "*")]) == [O("full")]
    assert E([("If-Unmodified-Since", D(lm - 1))]) == [O("precondition_failed")]
    assert E([("If-Unmodified-Since", D(lm))]) == [O("full")]
    assert E([("If-Match", '"tag"'), ("If-Unmodified-Since", D(lm - 1))]) == [O("full")]   # I-U-S ignored when If-Match present
    assert E([("If-None-Match", 'W/"tag"')]) == [O("not_modified")]           # weak comparison
    assert E([("If-None-Match", '"x"'), ("If-Modified-Since", D(lm))]) == [O("full")]      # I-M-S ignored when I-N-M present
    assert E([("If-Modified-Since", D(lm))]) == [O("not_modified")] and E([("If-Modified-Since", D(lm - 1))]) == [O("full")]
    assert E([("If-Modified-Since", "garbage")]) == [O("full")]
    assert E([("If-Match", '"x"'), ("If-None-Match", '"tag"')]) == [O("precondition_failed")]
    assert E([("If-None-Match", "*"), ("Range", "bytes=0-1")]) == [O("not_modified")]
    # present but malformed entity-tag fields (13.1.1 / 13.1.2 "otherwise"): If-Match false, If-None-Match true
    S = scan_etag_field
    assert S(None) is None and S(" ") is None and S("*") == "*" and S('"a", W/"b"') == ([(False, "a"), (True, "b")], False)
    assert S("tag") == ([], True) and S("W/tag") == ([], True) and S('"tag') == ([], True) and S('"a"x, "b"') == ([(False, "b")], True)
    assert S('"a,b"') == ([(False, "a,b")], False) and S(', "a",,') == ([(False, "a")], False) and S('"a" "b"') == ([], True)
    PF, NM, FU = O("precondition_failed"), O("not_modified"), O("full")
    assert E([("If-Match", "tag")]) == [PF] and E([("If-Match", "W/tag")]) == [PF] and E([("If-Match", '"tag')]) == [PF]
    assert E([("If-Match", 'x, "nomatch"')]) == [PF] and E([("If-Match", ",")]) == [PF]
    assert E([("If-Match", '"tag", x')]) == [PF, FU] and E([("If-Match", 'x, "tag"')]) == [PF, FU]
    assert E([("If-Match", "tag"), ("If-Unmodified-Since", D(lm))]) == [PF]                  # a present If-Match is never 'absent'
    assert E([("If-Match", "tag"), ("Range", "bytes=2-3")]) == [PF]
    assert E([("If-None-Match", "tag")]) == [FU] and E([("If-None-Match", "tag"), ("If-Modified-Since", D(lm))]) == [FU]
    assert E([("If-None-Match", 'x, "nomatch"'), ("If-Modified-Since", D(lm + 1))]) == [FU]
    assert E([("If-None-Match", 'x, W/"tag"'), ("If-Modified-Since", D(lm))]) == [FU, NM]
    assert E([("If-None-Match", '"tag')] + [("Range", "bytes=2-3")]) == [O("partial", 2, 4)]
    assert evaluate("GET", [("If-Match", "tag")], 10, lm, "tag").key_cls == "if_match_malformed"
    assert etag_field_empty_elements(', "a"') == 1 and etag_field_empty_elements('"a",, "b",') == 1 and etag_field_empty_elements('"a", "b",') == 0
    assert E([("If-Match", ', "tag"')]) == [FU] and E([("If-None-Match", '"x",,W/"tag"')]) == [NM] and E([("If-Match", ', "x"')]) == [PF]
    assert evaluate("GET", [("If-None-Match", ', "tag"')], 10, lm, "tag").key_cls == "if_none_match_false"
    assert evaluate("GET", [("If-None-Match", ', tag')], 10, lm, "tag").key_cls == "no_range"
    assert evaluate("GET", [("If-Match", '"x"')], 10, lm, "tag").key_cls == "if_match_false"
    assert E([("Range", "bytes=2-3")]) == [O("partial", 2, 4)]
    assert E([("Range", "bytes=2-3"), ("If-Range", '"tag"')]) == [O("partial", 2, 4)]
    assert E([("Range", "bytes=2-3"), ("If-Range", '"old"')]) == [O("full")]
    assert E([("Range", "bytes=2-3"), ("If-Range", 'W/"tag"')]) == [O("full")]
    assert E([("Range", "bytes=2-3"), ("If-Range", D(lm))]) == [O("partial", 2, 4)]
    assert E([("Range", "bytes=2-3"), ("If-Range", D(lm - 1))]) == [O("full")]
    assert E([("Range", "bytes=2-3"), ("If-Range", D(lm + 1))]) == [O("partial", 2, 4), O("full")]
    assert E([("If-Range", '"old"')]) == [O("full")]                            # If-Range without Range is ignored
    assert E([("Range", "bytes=10-"), ("If-Range", '"old"')]) == [O("full")]    # ... and a false If-Range hides an unsatisfiable range
    assert E([("Range", "bytes=2-3")], method="HEAD") == [O("partial", 2, 4), O("full")]
    # -- response comparison
    data = bytes(range(10))
    H = lambda **kw: [(k.replace("_", "-"), v) for k, v in kw.items()]
    ex = evaluate("GET", [("Range", "bytes=2-3")], 10, lm, "tag")
    assert check_response(ex, "GET", 206, H(Content_Range="bytes 2-3/10", Content_Length="2"), data[2:4], True, data) == []
    assert check_response(ex, "GET", 206, H(Content_Range="bytes 2-3/10", Content_Length="2"), data[2:5], True, data)[0][0] == "body_exact"
    assert check_response(ex, "GET", 206, H(Content_Range="bytes 2-4/10", Content_Length="3"), data[2:5], True, data)[0][0] == "range_slice"
    assert check_response(ex, "GET", 206, H(Content_Range="bytes 2-3/11", Content_Length="2"), data[2:4], True, data)[0][0] == "content_range"
    assert check_response(ex, "GET", 206, H(Content_Range="bytes 2-3/10", Content_Length="3"), data[2:4], True, data)[0][0] == "content_length"
    assert check_response(ex, "GET", 200, H(Content_Length="10"), data, True, data)[0][0] == "range_status"
    assert check_response(ex, "GET", 416, H(Content_Range="bytes */10"), b"", True, data)[0][0] == "range_status"
    assert check_response(ex, "GET", 206, H(Content_Range="bytes 2-3/10", Content_Length="2"), data[2:3], False, data, prefix_ok=True) == []
    assert check_response(ex, "GET", 206, H(Content_Range="bytes 2-3/10", Content_Length="2"), data[3:4], False, data, prefix_ok=True)[0][0] == "body_exact"
    ex = evaluate("GET", [("Range", "bytes=10-")], 10, lm, "tag")
    assert check_response(ex, "GET", 416, H(Content_Range="bytes */10"), b"", True, data) == []
    assert check_response(ex, "GET", 206, H(Content_Range="bytes 10-9/10", Content_Length="0"), b"", True, data)[0][0] == "content_range"
    ex = evaluate("GET", [], 10, lm, "tag")
    assert check_response(ex, "GET", 200, H(Content_Length="10"), data, True, data) == []
    assert check_response(ex, "HEAD", 200, H(Content_Length="10"), b"", True, data) == []
    assert check_response(ex, "GET", 200, H(Content_Length="10"), data[:9] + b"x", True, data)[0][0] == "body_exact"
