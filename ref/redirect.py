"""Reference statement of the client's redirect rules (DESIGN.md section 5,
`ref_redirect`).  Written from the documentation and RFC 9110 section 15.4, not
from aiohttp's code:

* docs/client_reference.rst, `ClientSession.request`: "redirects are followed (up
  to max_redirects times) and logged into ClientResponse.history";
  "TooManyRedirects is raised if the number is exceeded"; `params` are "ignored
  for subsequent redirected requests"; `NonHttpUrlRedirectClientError`: "Redirect
  URL does not contain http schema"; `InvalidUrlRedirectClientError`: "Redirect URL
  is malformed, e.g. it does not contain host part"; `history`: "preceding
  requests (earliest request first)".
* docs/client_advanced.rst: credentials in a redirect URL "supersede any
  previously set credentials"; Authorization header together with credentials in
  the *initial* URL -> ValueError.
* docs/client_quickstart.rst: a non-rewindable body cannot be replayed on a
  redirect that keeps the body (307/308...) -> ClientPayloadError.
* CHANGES.rst: Authorization / Cookie / Proxy-Authorization and per-request
  `cookies` are dropped "when a redirect crossed an origin"; a 3xx without
  Location is returned as the response; body preserved for 307/308 and for
  301/302 with non-POST methods (RFC 9110 15.4.3).
* RFC 9110 15.4: 303 -> retrieval request (GET, or HEAD if the request was HEAD)
  without content; 301/302: a user agent MAY change POST to GET (aiohttp
  documents that it does); 307/308: method and content MUST NOT change.  The user
  agent resends the original request to the new target, removing Authorization,
  Cookie and Proxy-Authorization when the origin differs.

The meaning of `max_redirects`: the property statement (and the project's own
test-suite) fix it as "at most max_redirects requests are made": the
max_redirects-th redirect *response* raises TooManyRedirects.  (Read literally,
the reference documentation - "maximum number of redirects to follow" - would
allow one request more; the stricter reading is the one checked, the other is
mentioned in the check's notes.)

Everything here is pure data -> data.
"""
from __future__ import annotations

REDIRECT_STATUSES = (301, 302, 303, 307, 308)
DEFAULT_PORTS = {"http": 80, "https": 443}
HTTP_SCHEMES = ("http", "https")


def origin(scheme: str, host: str, port: int | None) -> tuple:
    """RFC 6454 origin triple, normalised."""
    scheme = scheme.lower()
    if port is None:
        port = DEFAULT_PORTS[scheme]
    return (scheme, host.lower().rstrip("."), int(port))


def relation(home: tuple, other: tuple) -> str:
    """How `other` differs from `home` (used to name violation classes)."""
    if home == other:
        return "same_origin"
    if home[1] != other[1]:
        if other[1].endswith("." + home[1]):
            return "subdomain"
        if home[1].endswith("." + other[1]):
            return "parent_domain"
        return "other_host"
    if home[0] != other[0]:
        return "other_scheme"
    return "other_port"


def transform(status: int, method: str) -> tuple[str, bool]:
    """(method of the next request, whether the request content is kept)."""
    method = method.upper()
    if status == 303:
        if method == "HEAD":
            return "HEAD", False
        return "GET", False
    if status in (301, 302):
        if method == "POST":
            return "GET", False
        return method, True
    if status in (307, 308):
        return method, True
    raise ValueError(f"not a followed redirect status: {status}")


def plan(initial: dict, hops: list[dict], max_redirects: int, allow_redirects: bool = True) -> dict:
    """Expected requests and outcome of one call.

    initial: {"origin": tuple, "method": str, "has_body": bool, "replayable": bool,
              "auth_header": bool, "url_creds": bool}
    hops[k]: what the server answering request k says:
             {"origin": tuple (where request k must arrive), "status": int,
              "loc": "abs"|"rel"|"schemerel"|"userinfo"|"nonhttp"|"invalid"|"missing"|None}
             ("userinfo": the Location carries credentials for the next hop's origin).
    Returns {"requests": [...], "outcomes": set[str], "history": int}
      requests[k] = {"hop": k, "origin", "method", "body": "orig"|"empty",
                     "caller_secrets": bool   (may the caller's secrets be present),
                     "auth": None | "caller_header" | "url" | ("loc", j)  (whose credentials)}
      outcomes: acceptable terminal outcomes, any of
        "value_error", "response", "too_many_redirects", "non_http", "invalid_url", "consumed_body"
      history: number of intermediate responses before the terminal one.
    """
    if initial["auth_header"] and initial["url_creds"]:
        return {"requests": [], "outcomes": {"value_error"}, "history": 0}
    reqs = []
    method = initial["method"].upper()
    body = "orig" if initial["has_body"] else "empty"
    home = hops[0]["origin"] if hops else initial["origin"]
    assert home == initial["origin"]
    confined = True  # still on the unbroken same-origin run that started at request 0
    # credentials: (kind, birth hop); the latest one wins; all die on an origin change
    cred = None
    if initial["auth_header"]:
        cred = "caller_header"
    elif initial["url_creds"]:
        cred = "url"
    k = 0
    while True:
        hop = hops[k]
        reqs.append({"hop": k, "origin": hop["origin"], "method": method, "body": body,
                     "caller_secrets": confined, "auth": cred})
        status = hop["status"]
        if status not in REDIRECT_STATUSES or not allow_redirects:
            return {"requests": reqs, "outcomes": {"response"}, "history": k}
        # a redirect response: every reason to stop here is acceptable when several apply
        stops = set()
        if max_redirects and k + 1 >= max_redirects:
            stops.add("too_many_redirects")
        nmethod, keep = transform(status, method)
        if keep and body == "orig" and not initial["replayable"]:
            stops.add("consumed_body")
        loc = hop["loc"]
        if loc == "missing":
            stops.add("response")
        elif loc == "nonhttp":
            stops.add("non_http")
        elif loc == "invalid":
            stops.add("invalid_url")
        if stops:
            # history: k responses precede this one (TooManyRedirects additionally
            # carries this response as the last element of its own .history)
            return {"requests": reqs, "outcomes": stops, "history": k}
        # follow
        method = nmethod
        if not keep:
            body = "empty"
        nxt = hops[k + 1]["origin"]
        if nxt != hop["origin"]:
            confined = False
            cred = None
        if loc == "userinfo":
            cred = ("loc", k)
        k += 1


def oracle_selftest():
    A = origin("http", "a.test", None)
    A80 = origin("HTTP", "A.TEST", 80)
    AP = origin("http", "a.test", 8080)
    AS = origin("https", "a.test", None)
    S = origin("http", "s.a.test", 80)
    B = origin("http", "b.test", 80)
    assert A == A80 and A != AP and A != AS and AS == ("https", "a.test", 443)
    assert relation(A, A80) == "same_origin" and relation(A, AP) == "other_port"
    assert relation(A, AS) == "other_scheme" and relation(A, S) == "subdomain" and relation(A, B) == "other_host"
    assert relation(S, A) == "parent_domain"
    # the table
    assert transform(303, "POST") == ("GET", False) and transform(303, "HEAD") == ("HEAD", False)
    assert transform(303, "DELETE") == ("GET", False) and transform(303, "GET") == ("GET", False)
    assert transform(301, "POST") == ("GET", False) and transform(302, "POST") == ("GET", False)
    assert transform(301, "PUT") == ("PUT", True) and transform(302, "DELETE") == ("DELETE", True)
    assert transform(302, "PATCH") == ("PATCH", True)
    assert transform(307, "POST") == ("POST", True) and transform(308, "POST") == ("POST", True)
    assert transform(308, "GET") == ("GET", True)

    def ini(method="GET", body=False, replay=True, ah=False, uc=False, o=A):
        return {"origin": o, "method": method, "has_body": body, "replayable": replay, "auth_header": ah, "url_creds": uc}

    def h(o, status=200, loc=None):
        return {"origin": o, "status": status, "loc": loc}

    def short(p):
        return [(r["origin"], r["method"], r["body"], r["caller_secrets"], r["auth"]) for r in p["requests"]]

    # 1. POST with body, 302 to another host
    p = plan(ini("POST", True, ah=True), [h(A, 302, "abs"), h(B)], 10)
    assert short(p) == [(A, "POST", "orig", True, "caller_header"), (B, "GET", "empty", False, None)]
    assert p["outcomes"] == {"response"} and p["history"] == 1
    # 2. PUT with body, 301 same origin, relative
    p = plan(ini("PUT", True, uc=True), [h(A, 301, "rel"), h(A)], 10)
    assert short(p) == [(A, "PUT", "orig", True, "url"), (A, "PUT", "orig", True, "url")]
    # 3. HEAD through 303 stays HEAD
    p = plan(ini("HEAD"), [h(A, 303, "abs"), h(AP)], 10)
    assert short(p) == [(A, "HEAD", "empty", True, None), (AP, "HEAD", "empty", False, None)]
    # 4. one-shot body and 307: refused after the first request
    p = plan(ini("POST", True, replay=False), [h(A, 307, "rel"), h(A)], 10)
    assert len(p["requests"]) == 1 and p["outcomes"] == {"consumed_body"}
    #    ... but a 303 drops the body, so nothing has to be replayed
    p = plan(ini("POST", True, replay=False), [h(A, 303, "rel"), h(A)], 10)
    assert short(p)[1] == (A, "GET", "empty", True, None) and p["outcomes"] == {"response"}
    # 5. A -> B -> A: what was dropped is not resurrected
    p = plan(ini("GET", ah=True), [h(A, 302, "abs"), h(B, 302, "abs"), h(A)], 10)
    assert [r["caller_secrets"] for r in p["requests"]] == [True, False, False]
    assert [r["auth"] for r in p["requests"]] == ["caller_header", None, None]
    # 6. limit: at most max_redirects requests
    chain = [h(A, 302, "rel") for _ in range(5)] + [h(A)]
    p = plan(ini(), chain, 2)
    assert len(p["requests"]) == 2 and p["outcomes"] == {"too_many_redirects"}
    p = plan(ini(), chain, 6)
    assert len(p["requests"]) == 6 and p["outcomes"] == {"response"} and p["history"] == 5
    p = plan(ini(), chain, 5)
    assert len(p["requests"]) == 5 and p["outcomes"] == {"too_many_redirects"}
    p = plan(ini(), chain, 1)
    assert len(p["requests"]) == 1 and p["outcomes"] == {"too_many_redirects"}
    # 7. credentials in the Location supersede, stay on that origin, die on the next change
    p = plan(ini("GET", ah=True), [h(A, 302, "userinfo"), h(B, 302, "rel"), h(B, 302, "abs"), h(A)], 10)
    assert [r["auth"] for r in p["requests"]] == ["caller_header", ("loc", 0), ("loc", 0), None]
    p = plan(ini("GET", ah=True), [h(A, 302, "userinfo"), h(A)], 10)
    assert [r["auth"] for r in p["requests"]] == ["caller_header", ("loc", 0)]
    assert [r["caller_secrets"] for r in p["requests"]] == [True, True]
    # 8. header + URL credentials on the initial request
    p = plan(ini("GET", ah=True, uc=True), [h(A)], 10)
    assert p["requests"] == [] and p["outcomes"] == {"value_error"}
    # 9. refusals make no further request
    p = plan(ini(), [h(A, 302, "abs"), h(B, 301, "nonhttp")], 10)
    assert len(p["requests"]) == 2 and p["outcomes"] == {"non_http"}
    p = plan(ini(), [h(A, 308, "invalid")], 10)
    assert len(p["requests"]) == 1 and p["outcomes"] == {"invalid_url"}
    p = plan(ini(), [h(A, 302, "missing")], 10)
    assert len(p["requests"]) == 1 and p["outcomes"] == {"response"} and p["history"] == 0
    # 10. after a 303 the body stays dropped even through a later 307
    p = plan(ini("POST", True), [h(A, 303, "rel"), h(A, 307, "rel"), h(A)], 10)
    assert [(r["method"], r["body"]) for r in p["requests"]] == [("POST", "orig"), ("GET", "empty"), ("GET", "empty")]
    # 11. corner: several reasons to stop at the same response
    p = plan(ini(), [h(A, 302, "rel"), h(A, 302, "missing")], 2)
    assert p["outcomes"] == {"too_many_redirects", "response"} and len(p["requests"]) == 2
    # 12. allow_redirects=False
    p = plan(ini(), [h(A, 302, "abs"), h(B)], 10, allow_redirects=False)
    assert len(p["requests"]) == 1 and p["outcomes"] == {"response"} and p["history"] == 0
    # 13. other scheme, other port, subdomain all end confinement
    for o in (AS, AP, S, B):
        p = plan(ini(ah=True), [h(A, 307, "abs"), h(o)], 10)
        assert p["requests"][1]["caller_secrets"] is False and p["requests"][1]["auth"] is None
