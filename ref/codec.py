"""ref_codec / ref_chunked - reference body decoding for C09 (DESIGN.md section 5).

Written from RFC 9112 section 7.1 (chunked), RFC 9110 section 8.4.1 (content
codings), RFC 1950/1951/1952 and RFC 8878 section 3.1 (zstd frames may be
concatenated), using zlib / brotli / backports.zstd directly.  Nothing here
imports aiohttp.

decode_all(codec, data) -> {"status": "ok"|"error", "out": bytes, "why": str, "members": int}
    "ok":    out is the complete decoding of data (all concatenated members)
    "error": data is not a complete valid stream; out is the longest output a
             streaming decoder can produce before it detects that (a recipient
             may have delivered any prefix of it before failing)
    "dontcare": the library's one-shot decoder rejects the stream but its
             streaming decoder ends every frame cleanly with output out (zstd: a
             frame header whose declared content size is wrong); delivering out
             or failing are both accepted

Codec names: "identity", "gzip" (RFC 1952 members), "deflate" (RFC 1950 zlib
stream; a raw RFC 1951 stream is accepted too, as most recipients do), "br",
"zstd".
"""
from __future__ import annotations

import zlib

import brotli
from backports import zstd

CODECS = ("identity", "gzip", "deflate", "br", "zstd")


# --------------------------------------------------------------------------- encoders (workload side)

def compress(codec: str, data: bytes, *, raw: bool = False, level: int = 6) -> bytes:
    """One member / frame.  codec "deflate" with raw=True gives an RFC 1951 stream."""
    if codec == "identity":
        return data
    if codec == "gzip":
        c = zlib.compressobj(level, zlib.DEFLATED, 31)
        return c.compress(data) + c.flush()
    if codec == "deflate":
        c = zlib.compressobj(level, zlib.DEFLATED, -15 if raw else 15)
        return c.compress(data) + c.flush()
    if codec == "br":
        return brotli.compress(data, quality=min(level, 5))
    if codec == "zstd":
        return zstd.compress(data, min(level, 3))
    raise ValueError(codec)


def chunked_encode(body: bytes, sizes, *, ext: bytes = b"", trailers: bytes = b"") -> bytes:
    """Cut body into chunks of the given sizes (the last size repeats)."""
    out = bytearray()
    pos = 0
    i = 0
    sizes = list(sizes) or [len(body) or 1]
    while pos < len(body):
        n = max(1, sizes[min(i, len(sizes) - 1)])
        piece = body[pos:pos + n]
        out += b"%x" % len(piece) + ext + b"\r\n" + piece + b"\r\n"
        pos += len(piece)
        i += 1
    out += b"0\r\n" + trailers + b"\r\n"
    return bytes(out)


# --------------------------------------------------------------------------- chunked decoder

_HEX = frozenset(b"0123456789abcdefABCDEF")


def chunked_decode(raw: bytes):
    """Strict RFC 9112 7.1 reader.  Returns (status, body, consumed) with status
    "ok" (last-chunk and trailer section complete), "incomplete" or "bad"."""
    out = bytearray()
    p = 0
    n = len(raw)
    while True:
        j = raw.find(b"\r\n", p)
        if j < 0:
            return ("bad" if b"\n" in raw[p:] else "incomplete"), bytes(out), p
        line = raw[p:j]
        k = line.find(b";")
        size_b = line if k < 0 else line[:k]
        if not size_b or any(c not in _HEX for c in size_b):
            return "bad", bytes(out), p
        size = int(size_b, 16)
        p = j + 2
        if size == 0:
            # trailer section: field lines until an empty line
            while True:
                j = raw.find(b"\r\n", p)
                if j < 0:
                    return "incomplete", bytes(out), p
                if j == p:
                    return "ok", bytes(out), p + 2
                p = j + 2
        if n - p < size:
            out += raw[p:]
            return "incomplete", bytes(out), n
        out += raw[p:p + size]
        p += size
        if raw[p:p + 2] != b"\r\n":
            return ("incomplete" if n - p < 2 and raw[p:] == b"\r\n"[:n - p] else "bad"), bytes(out), p
        p += 2


# --------------------------------------------------------------------------- reference content decoding

def _stream(new, data: bytes):
    """Byte-at-a-time streaming decode through fresh decoders per member.
    -> (output before the first error, clean) where clean means: no error and the
    input ended exactly at the end of a member."""
    out = bytearray()
    d = new()
    fed = False
    try:
        for i in range(len(data)):
            if getattr(d, "eof", False):
                d = new()
                fed = False
            out += d.decompress(data[i:i + 1])
            fed = True
    except Exception:
        return bytes(out), False
    return bytes(out), bool(getattr(d, "eof", False)) or not fed


def _stream_prefix(new, data: bytes) -> bytes:
    return _stream(new, data)[0]


def _zlib_members(data: bytes, wbits: int):
    """Decode concatenated zlib-family members.  -> (ok, out, members, why)"""
    out = []
    members = 0
    rest = data
    while rest:
        d = zlib.decompressobj(wbits=wbits)
        try:
            out.append(d.decompress(rest))
            out.append(d.flush())
        except zlib.error as e:
            return False, b"".join(out), members, f"member {members}: {e}"
        if not d.eof:
            return False, b"".join(out), members, f"member {members} is truncated"
        members += 1
        rest = d.unused_data
    return True, b"".join(out), members, ""


def _zstd_frames(data: bytes):
    out = []
    members = 0
    rest = data
    while rest:
        d = zstd.ZstdDecompressor()
        try:
            out.append(d.decompress(rest))
        except zstd.ZstdError as e:
            return False, b"".join(out), members, f"frame {members}: {e}"
        if not d.eof:
            return False, b"".join(out), members, f"frame {members} is truncated"
        members += 1
        rest = d.unused_data
    return True, b"".join(out), members, ""


def _br_drain(d) -> bytes:
    """The Brotli binding hands output over in blocks; process(b"") yields the
    rest until it returns nothing."""
    out = []
    while True:
        o = d.process(b"")
        if not o:
            return b"".join(out)
        out.append(o)


class _BrStream:
    eof = False

    def __init__(self):
        self.d = brotli.Decompressor()

    def decompress(self, b):
        return self.d.process(b) + _br_drain(self.d)


def decode_all(codec: str, data: bytes) -> dict:
    if codec == "identity":
        return {"status": "ok", "out": data, "why": "", "members": 1}
    if not data:
        # a zero-length representation: nothing was encoded (204/HEAD-like bodies,
        # "Content-Length: 0" with a coding header are common); decoding is empty
        return {"status": "ok", "out": b"", "why": "empty", "members": 0}
    if codec == "gzip":
        ok, out, m, why = _zlib_members(data, 31)
        if ok:
            return {"status": "ok", "out": out, "why": "", "members": m}
        return {"status": "error", "out": _stream_prefix(lambda: zlib.decompressobj(wbits=31), data), "why": why, "members": m}
    if codec == "deflate":
        ok, out, m, why = _zlib_members(data, 15)
        if ok:
            return {"status": "ok", "out": out, "why": "", "members": m}
        ok2, out2, m2, why2 = _zlib_members(data, -15)
        if ok2 and (data[0] & 0x0F) != 8:
            return {"status": "ok", "out": out2, "why": "raw", "members": m2}
        # which of the two readings fails later decides the reported prefix
        p1 = _stream_prefix(lambda: zlib.decompressobj(wbits=15), data)
        p2 = _stream_prefix(lambda: zlib.decompressobj(wbits=-15), data)
        zl = (data[0] & 0x0F) == 8 and len(data) >= 2 and ((data[0] << 8) | data[1]) % 31 == 0
        return {"status": "error", "out": p1 if zl else p2, "alt": p2 if zl else p1, "why": why if zl else why2,
                "members": m if zl else m2}
    if codec == "br":
        d = brotli.Decompressor()
        try:
            out = d.process(data)
            out += _br_drain(d)
            fin = d.is_finished()
        except brotli.error as e:
            return {"status": "error", "out": _stream_prefix(_BrStream, data), "why": f"brotli: {e}", "members": 0}
        if not fin:
            return {"status": "error", "out": out, "why": "brotli stream is truncated", "members": 0}
        return {"status": "ok", "out": out, "why": "", "members": 1}
    if codec == "zstd":
        ok, out, m, why = _zstd_frames(data)
        if ok:
            return {"status": "ok", "out": out, "why": "", "members": m}
        pre, clean = _stream(zstd.ZstdDecompressor, data)
        if clean:
            # the one-shot decoder rejects it (e.g. declared content size != decoded size) but the streaming
            # decoder of the same library ends every frame cleanly: a streaming recipient cannot know
            return {"status": "dontcare", "out": pre, "why": "one-shot rejects, streaming accepts: " + why, "members": m}
        return {"status": "error", "out": pre, "why": why, "members": m}
    raise ValueError(codec)


# --------------------------------------------------------------------------- self-test

def oracle_selftest() -> None:
    hello_gz = bytes.fromhex("1f8b08000000000002ffcb48cdc9c9070086a6103605000000")  # gzip of b"hello", hand-checked header/trailer
    r = decode_all("gzip", hello_gz)
    assert r["status"] == "ok" and r["out"] == b"hello" and r["members"] == 1, r
    # CRC32 of "hello" is 0x3610a686, ISIZE 5: the trailer above says so
    assert hello_gz[-8:-4] == (0x3610A686).to_bytes(4, "little") and hello_gz[-4:] == (5).to_bytes(4, "little")
    r = decode_all("gzip", hello_gz + hello_gz)
    assert r["status"] == "ok" and r["out"] == b"hellohello" and r["members"] == 2, r
    r = decode_all("gzip", hello_gz[:-1])
    assert r["status"] == "error" and r["out"] == b"hello", r
    r = decode_all("gzip", hello_gz[:12])
    assert r["status"] == "error" and b"hello".startswith(r["out"]), r
    bad = bytearray(hello_gz)
    bad[-6] ^= 1  # CRC mismatch
    r = decode_all("gzip", bytes(bad))
    assert r["status"] == "error" and r["out"] == b"hello", r
    r = decode_all("gzip", hello_gz + b"garbage")
    assert r["status"] == "error" and r["out"] == b"hello", r
    empty_gz = compress("gzip", b"")
    r = decode_all("gzip", empty_gz + hello_gz + empty_gz)
    assert r["status"] == "ok" and r["out"] == b"hello" and r["members"] == 3, r
    # zlib stream of b"hello": 78 9c cb 48 cd c9 c9 07 00 + adler32 0x062c0215
    z = bytes.fromhex("789ccb48cdc9c90700062c0215")
    r = decode_all("deflate", z)
    assert r["status"] == "ok" and r["out"] == b"hello", r
    r = decode_all("deflate", z[2:-4])  # the raw RFC 1951 stream inside
    assert r["status"] == "ok" and r["out"] == b"hello" and r["why"] == "raw", r
    r = decode_all("deflate", z[:-1])
    assert r["status"] == "error", r
    # stored raw block: 01 05 00 fa ff 'hello'
    r = decode_all("deflate", bytes.fromhex("010500faff") + b"hello")
    assert r["status"] == "ok" and r["out"] == b"hello", r
    for codec in ("br", "zstd"):
        c = compress(codec, b"hello" * 50)
        r = decode_all(codec, c)
        assert r["status"] == "ok" and r["out"] == b"hello" * 50, (codec, r)
        r = decode_all(codec, c[:-1])
        assert r["status"] == "error" and (b"hello" * 50).startswith(r["out"]), (codec, r)
    zf = compress("zstd", b"ab") + compress("zstd", b"") + compress("zstd", b"cd")
    r = decode_all("zstd", zf)
    assert r["status"] == "ok" and r["out"] == b"abcd" and r["members"] == 3, r
    # frame 2 declares 32 bytes of content but holds none: one-shot rejects, streaming cannot tell
    r = decode_all("zstd", bytes.fromhex("28b52ffd20010900006228b52ffd2020010000"))
    assert r["status"] == "dontcare" and r["out"] == b"b", r
    # zstd magic number, RFC 8878 3.1.1
    assert compress("zstd", b"x")[:4] == bytes.fromhex("28b52ffd")
    r = decode_all("br", compress("br", b"x") + b"\x00")
    assert r["status"] == "error", r
    import random as _r

    big = _r.Random(5).randbytes(200_000) + bytes(range(256)) * 1200  # ~500 KiB: several output blocks of the binding
    r = decode_all("br", compress("br", big))
    assert r["status"] == "ok" and r["out"] == big, (r["status"], len(r["out"]))
    r = decode_all("br", compress("br", big)[:150_000])
    assert r["status"] == "error" and big.startswith(r["out"]) and len(r["out"]) > 100_000, (r["status"], len(r["out"]))
    for codec in CODECS:
        assert decode_all(codec, b"")["out"] == b""
    # chunked
    assert chunked_decode(b"5\r\nhello\r\n0\r\n\r\n") == ("ok", b"hello", 15)
    assert chunked_decode(b"5;x=1\r\nhello\r\n1\r\n!\r\n0\r\nA: b\r\n\r\nrest") == ("ok", b"hello!", 31)
    assert chunked_decode(b"5\r\nhel")[0] == "incomplete"
    assert chunked_decode(b"5\r\nhelloXX")[0] == "bad"
    assert chunked_decode(b"g\r\n")[0] == "bad"
    assert chunked_decode(b"0\r\n")[0] == "incomplete"
    enc = chunked_encode(b"abcdefg", [3, 2])
    assert enc == b"3\r\nabc\r\n2\r\nde\r\n2\r\nfg\r\n0\r\n\r\n", enc
    assert chunked_decode(enc) == ("ok", b"abcdefg", len(enc))
    assert chunked_encode(b"", [4]) == b"0\r\n\r\n"
