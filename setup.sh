#!/bin/sh
# Nothing to compile: verify the interpreter, that the tree under test imports
# from VERIF_REPO, and that the simulator core runs.
cd "$(dirname "$0")" || exit 2
export AIOHTTP_NO_EXTENSIONS=1 PYTHONDONTWRITEBYTECODE=1 PYTHONHASHSEED=0
mkdir -p evidence replays
exec /venv/bin/python - <<'PY'
import os, sys
sys.path.insert(0, os.getcwd()); sys.path.insert(0, os.environ.get("VERIF_REPO", "/repo"))
from sim import seams
seams.install()
import aiohttp
print("aiohttp", aiohttp.__version__, "from", aiohttp.__file__)
from sim.choices import Choices
from sim.world import World
with World(Choices(1), 1) as w:
    async def main():
        import asyncio
        await asyncio.sleep(3600)
        return w.loop.time()
    t = w.loop.run_sim(main(), vt_cap=4000)
    assert t.result() == 3600.0
print("setup ok")
PY
