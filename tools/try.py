import sys, os, random, time, importlib
sys.path.insert(0,'/verif'); sys.path.insert(0,'/repo')
os.environ['AIOHTTP_NO_EXTENSIONS']='1'
import logging; logging.disable(logging.CRITICAL)
from sim import seams, runner
seams.install()
mod = importlib.import_module(sys.argv[1])
n = int(sys.argv[2]); tier = sys.argv[3] if len(sys.argv)>3 else 'quick'
t0=time.time(); nv=0; nt=0; sigs=set()
import collections
pr=collections.Counter(); kinds=collections.Counter()
for i in range(n):
    rs, scn = runner._scenario_for(mod, tier, 0, i)
    res = runner.execute(mod, scn, rs)
    if res['outcome']=='HARNESS_ERROR':
        print(i, res['error']); break
    pr.update(res.get('probes',{}))
    if res.get('nontrivial'): nt+=1; sigs.add(res['sig'])
    if res['violations']:
        nv+=1
        v=res['violations'][0]; kinds[(v['invariant'],v['key'])]+=1
        if kinds[(v['invariant'],v['key'])]<=1:
            print(i, v['invariant'], v['key'], v['message'][:900])
print('runs',i+1,'viol',nv,'nontrivial',nt,'distinct',len(sigs),'ms/run',(time.time()-t0)/(i+1)*1000)
print(dict(pr)); print(dict(kinds))
