import sys, os, random, time, importlib, json
sys.path.insert(0,'/verif'); sys.path.insert(0,'/repo')
os.environ['AIOHTTP_NO_EXTENSIONS']='1'
import logging; logging.disable(logging.CRITICAL)
from sim import seams, runner
seams.install()
mod = importlib.import_module(sys.argv[1])
i = int(sys.argv[2])
rs, scn = runner._scenario_for(mod, 'quick', 0, i)
s = dict(scn); st = s.pop('stream')
print(json.dumps(s)); print(repr(st[:int(sys.argv[3]) if len(sys.argv)>3 else 600]))
res = runner.execute(mod, scn, rs, log=True)
print(res['violations']); print(res.get('debug'))
