"""Regenerate MANIFEST.json from the property modules present in props/."""
import importlib
import json
import os
import sys

HERE = os.path.dirname(os.path.dirname(os.path.abspath(__file__)))
sys.path.insert(0, HERE)
sys.path.insert(0, os.environ.get("VERIF_REPO", "/repo"))
os.environ.setdefault("AIOHTTP_NO_EXTENSIONS", "1")

NA = {
    "C14": "URL dispatch is a pure function of (route table, path, method, Host): no schedule, clock, I/O, "
           "fault, crash point or history in it, so deterministic simulation with fault injection has nothing "
           "to decide (DESIGN.md section 10); model-based input testing would be the right, different, technique.",
}
ALL = [f"C{n:02d}" for n in range(1, 21)]
# modules that are finished and reviewed; others may exist in props/ while being written
READY = [x.strip() for x in open(os.path.join(HERE, "tools", "ready.txt")).read().split() if x.strip()]

checks = []
na = []
for pid in ALL:
    path = os.path.join(HERE, "props", pid.lower() + ".py")
    if pid in NA:
        na.append({"property_id": pid, "reason": NA[pid]})
        continue
    if not os.path.exists(path) or pid not in READY:
        na.append({"property_id": pid, "reason": "not claimed yet: the simulated check for this property has not been built "
                                                  "(work in progress; design in DESIGN.md section 9)"})
        continue
    mod = importlib.import_module("props." + pid.lower())
    checks.append({
        "property_id": pid,
        "quick_cmd": f"./check {pid} --tier quick",
        "thorough_cmd": f"./check {pid} --tier thorough",
        "evidence_file": f"/verif/evidence/{pid}.json",
        "replay_cmd_template": f"./check {pid} --replay {{path}}",
        "engine": "simloop",
        "level_claimed": {"category": mod.LEVEL, "text": mod.LEVEL_TEXT, "design_ref": "DESIGN.md section " + mod.DESIGN_REF},
        "level_note": mod.LEVEL_NOTE,
        "technique": mod.TECHNIQUE,
    })

doc = {
    "version": 1,
    "setup_cmd": "./setup.sh",
    "hooks": {
        "guard": "AIOHTTP_VERIF_SIM",
        "enable": "no source hooks exist: every seam is a constructor parameter or a module attribute rebound by /verif/sim/seams.py at process start",
        "baseline_off_cmd": "cd /repo && /venv/bin/python -m pytest -ra -q -p no:cacheprovider --timeout=900 --continue-on-collection-errors",
        "source_commits": [],
        "add_only": True,
    },
    "engines": [{
        "name": "simloop",
        "path": "/verif/sim",
        "serves_properties": [c["property_id"] for c in checks],
        "kind_free_text": "deterministic simulation: virtual-time asyncio event loop (SimLoop), in-memory TCP-like network with seeded "
                          "segmentation/latency/back-pressure/kill faults (SimNet), simulated executor/DNS/signals, choice tape for exact "
                          "replay, seeded multi-process search with minimisation",
    }],
    "checks": checks,
    "not_applicable": na,
    "notes": "Exit codes: 0 held (KNOWN-FINDING lines for findings listed in known_findings.json), 1 VIOLATION, 2 harness error. "
             "VERIF_SEED selects the search seed, VERIF_BUDGET_S overrides the per-tier wall budget, VERIF_REPO the tree under test.",
}
with open(os.path.join(HERE, "MANIFEST.json"), "w") as f:
    json.dump(doc, f, indent=1)
print("claimed:", [c["property_id"] for c in checks])
