"""show scenario #i of a module (any scenario shape) and its violations/debug"""
import sys, os, importlib, json
sys.path.insert(0, os.path.dirname(os.path.dirname(os.path.abspath(__file__)))); sys.path.insert(0, os.environ.get("VERIF_REPO", "/repo"))
os.environ['AIOHTTP_NO_EXTENSIONS']='1'
import logging; logging.disable(logging.CRITICAL)
from sim import seams, runner
seams.install()
mod = importlib.import_module(sys.argv[1]); i = int(sys.argv[2])
rs, scn = runner._scenario_for(mod, 'quick', 0, i)
print(json.dumps(scn)[:3000])
res = runner.execute(mod, scn, rs, log=True)
if len(sys.argv) > 3:
    for l in res.get('event_log', []):
        if '|run|' not in l: print(l)
for v in res['violations']: print(v)
print(res.get('debug'))
