"""Regenerate the machine-made tables of DESIGN.md (between <!-- X-BEGIN --> and
<!-- X-END --> markers) from known_findings.json, evidence/sensitivity*.json and
seeded/*/meta.json.  usage: /venv/bin/python tools/mkdesign.py"""
import glob
import json
import os
import re

V = os.path.dirname(os.path.dirname(os.path.abspath(__file__)))


def esc(s):
    return str(s).replace("|", "\\|").replace("\n", " ")


def findings():
    k = json.load(open(os.path.join(V, "known_findings.json")))["findings"]
    out = []
    for status, title in (("known", "### 11.1 Known findings (still present; the check prints KNOWN-FINDING and exits 0)"),
                          ("fixed", "### 11.2 Repaired findings (`fix:` commit named; nothing is suppressed for these)")):
        out.append(title)
        out.append("")
        out.append("| id | invariant | what fails | minimal input / history |" + (" commit |" if status == "fixed" else ""))
        out.append("|---|---|---|---|" + ("---|" if status == "fixed" else ""))
        for f in k:
            if f.get("status", "known") != status:
                continue
            row = f"| {f['id']} | `{esc(f.get('invariant') or '(any)')}` | {esc(f['summary'])} | {('`' + esc(f['example']) + '`') if f.get('example') else ''} |"
            if status == "fixed":
                row += f" {f.get('commit', '')} |"
            out.append(row)
        out.append("")
    return "\n".join(out)


def sens(name):
    p = os.path.join(V, "evidence", name)
    if not os.path.exists(p):
        return "(not run yet)"
    d = json.load(open(p))
    out = [f"{d['caught']} of {d['total']} caught by the quick tier.", "",
           "| prop | patch | result | invariant | key | wall s |", "|---|---|---|---|---|---|"]
    for r in d["results"]:
        out.append(f"| {r['property']} | {esc(r['patch'])} | {r['result']} | `{esc(r.get('invariant'))}` | `{esc(r.get('key'))[:90]}` | {r.get('wall_s')} |")
    return "\n".join(out)


def seeded():
    res = {}
    p = os.path.join(V, "evidence", "sensitivity_seeded.json")
    if os.path.exists(p):
        for r in json.load(open(p))["results"]:
            res[r["patch"]] = r
    out = ["| dir | prop | change | needs, to manifest | caught by | invariant:key |", "|---|---|---|---|---|---|"]
    for d in sorted(glob.glob(os.path.join(V, "seeded", "*"))):
        mf = os.path.join(d, "meta.json")
        if not os.path.exists(mf):
            continue
        m = json.load(open(mf))
        r = res.get(os.path.basename(d), {})
        caught = m.get("caught_by") or (("./check %s quick" % m["property"]) if r.get("result") == "CAUGHT" else r.get("result", "?"))
        out.append(f"| {os.path.basename(d)} | {m['property']} | {esc(m.get('summary', ''))} | {esc(m.get('needs', ''))} | {esc(caught)} | `{esc(r.get('invariant'))}:{esc(r.get('key'))[:70]}` |")
    return "\n".join(out)


def main():
    p = os.path.join(V, "DESIGN.md")
    s = open(p).read()
    for tag, text in (("FINDINGS", findings()), ("SENS", sens("sensitivity.json")), ("SEEDED", seeded())):
        pat = re.compile(r"(<!-- %s-BEGIN -->\n).*?(<!-- %s-END -->)" % (tag, tag), re.S)
        if not pat.search(s):
            print("marker missing", tag)
            continue
        s = pat.sub(lambda m: m.group(1) + text + "\n" + m.group(2), s)
    open(p, "w").write(s)


if __name__ == "__main__":
    main()
