#!/bin/sh
# Runs the repository's baseline test command (from /root/.vp/BASELINE.json) and compares with its stable_pass list.
out=${1:-/tmp/verif-baseline.xml}
cd /repo && /venv/bin/python -m pytest -ra -q -p no:cacheprovider --timeout=900 --continue-on-collection-errors --junitxml="$out" > "$out.log" 2>&1
/venv/bin/python - "$out" <<'PY'
import json, sys, xml.etree.ElementTree as ET
base = json.load(open('/root/.vp/BASELINE.json'))
stable = set(base['stable_pass'])
t = ET.parse(sys.argv[1])
passed = set()
for tc in t.iter('testcase'):
    if not any(ch.tag in ('failure','error','skipped') for ch in tc):
        passed.add(f"{tc.get('classname')}::{tc.get('name')}")
missing = sorted(stable - passed)
print("stable_pass:", len(stable), "passed now:", len(passed), "stable tests not passing:", len(missing))
for m in missing[:40]: print("  MISSING", m)
sys.exit(1 if missing else 0)
PY
