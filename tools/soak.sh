#!/bin/sh
# usage: tools/soak.sh <first seed> <last seed> <budget s> [props...]; prints only alarms
cd "$(dirname "$0")/.." || exit 2
a=$1; b=$2; bud=$3; shift 3
props="$*"; [ -z "$props" ] && props="C01 C02 C03 C04 C05 C06 C07 C08 C09 C10 C11 C12 C13 C15 C16 C17 C18 C19 C20"
export VERIF_REPLAY_DIR="${VERIF_REPLAY_DIR:-$PWD/replays_soak}" VERIF_EVIDENCE_DIR="${VERIF_EVIDENCE_DIR:-$PWD/evidence_soak}"
mkdir -p "$VERIF_REPLAY_DIR" "$VERIF_EVIDENCE_DIR"
s=$a
while [ "$s" -le "$b" ]; do
  for p in $props; do
    out=$(VERIF_SEED=$s timeout -k 5 $((bud*3+200)) ./check $p --budget $bud 2>&1); rc=$?
    echo "seed=$s $p rc=$rc $(echo "$out" | grep '^\[' | tail -1 | cut -c1-120)"
    if [ $rc -ne 0 ]; then echo "$out" | grep -v KNOWN | grep -E "VIOLATION|HARNESS|invariant=|^  " | cut -c1-400; fi
  done
  s=$((s+1))
done
echo SOAK-DONE
