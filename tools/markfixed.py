"""markfixed.py <commit> <id> [<id> ...]: mark known findings as fixed by a /repo commit."""
import json, sys, os
p = os.path.join(os.path.dirname(os.path.dirname(os.path.abspath(__file__))), "known_findings.json")
d = json.load(open(p))
commit, ids = sys.argv[1], set(sys.argv[2:])
for e in d["findings"]:
    if e["id"] in ids:
        e["status"] = "fixed"
        e["commit"] = commit
        e["fixed"] = f"fixed: property={e['property']} {commit} {e['summary'][:160]}"
        ids.discard(e["id"])
assert not ids, ids
json.dump(d, open(p, "w"), indent=1)
