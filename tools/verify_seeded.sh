#!/bin/sh
# usage: tools/verify_seeded.sh <worktree> <k> [suite]
# Verifies a seeded change: demo passes on the clean worktree, fails with out/<k>/patch.diff applied;
# with "suite" also runs the pinned test command in the worktree with the patch applied and lists the
# stable tests that no longer pass (compare with the same list for a clean worktree: /tmp/seedbase.missing).
W=$1; K=$2; D=$W/out/$K
demo=$(ls $D/demo.py $D/test_demo.py 2>/dev/null | head -1)
run_demo() {
  case "$demo" in
    *test_demo.py) (cd $W && AIOHTTP_NO_EXTENSIONS=1 timeout 300 /venv/bin/python -m pytest -q -p no:cacheprovider -x "$demo" >/tmp/vs.$$.log 2>&1) ;;
    *) (cd $W && AIOHTTP_NO_EXTENSIONS=1 PYTHONPATH=$W timeout 300 /venv/bin/python "$demo" >/tmp/vs.$$.log 2>&1) ;;
  esac
}
git -C $W checkout -- aiohttp || exit 9
run_demo; clean=$?
git -C $W apply $D/patch.diff 2>/dev/null || git -C $W apply --3way $D/patch.diff || { echo "PATCH-FAILS-TO-APPLY $W $K"; exit 9; }
git -C $W reset -q; git -C $W diff -- aiohttp > $D/patch.head.diff
run_demo; patched=$?
echo "$W/$K demo: clean=$clean patched=$patched  ($(tail -1 /tmp/vs.$$.log | cut -c1-150))"
rm -f /tmp/vs.$$.log
if [ "$3" = suite ]; then
  x=/tmp/vs_$(basename $W)_$K.xml
  (cd $W && AIOHTTP_NO_EXTENSIONS=1 timeout 2400 /venv/bin/python -m pytest -ra -q -p no:cacheprovider --timeout=900 --continue-on-collection-errors --junitxml=$x > $x.log 2>&1)
  /venv/bin/python - $x <<'PY' > /tmp/vs_$(basename $W)_$K.missing
import json, sys, xml.etree.ElementTree as ET
stable = set(json.load(open('/root/.vp/BASELINE.json'))['stable_pass'])
passed = set()
for tc in ET.parse(sys.argv[1]).iter('testcase'):
    if not any(ch.tag in ('failure','error','skipped') for ch in tc):
        passed.add(f"{tc.get('classname')}::{tc.get('name')}")
for m in sorted(stable - passed): print(m)
PY
  echo "$W/$K suite: stable tests not passing: $(wc -l < /tmp/vs_$(basename $W)_$K.missing) (clean worktree: $(wc -l < /tmp/seedbase.missing 2>/dev/null)); new: $(comm -23 /tmp/vs_$(basename $W)_$K.missing /tmp/seedbase.missing 2>/dev/null | head -5 | tr '\n' ' ')"
  rm -f $x $x.log
fi
git -C $W checkout -- aiohttp
