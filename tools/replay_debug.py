import sys, os, importlib, json
sys.path.insert(0,'/verif'); sys.path.insert(0,'/repo')
os.environ['AIOHTTP_NO_EXTENSIONS']='1'
import logging; logging.disable(logging.CRITICAL)
from sim import seams, runner
seams.install()
d=json.load(open(sys.argv[1]))
mod = importlib.import_module(d['check'])
res = runner.execute(mod, runner._revive(d['scenario']), d['run_seed'], tape=d['tape'], log=True)
print(res['violations']); print(res.get('debug')); print(res.get('state'))
