"""mkmutant.py <PatchName> <relative file under repo> <<< python-literal list of (old, new) pairs on stdin
Creates /verif/mutants/<PatchName>.patch as a git-apply-able unified diff."""
import ast, difflib, os, sys
name, rel = sys.argv[1], sys.argv[2]
pairs = ast.literal_eval(sys.stdin.read())
repo = os.environ.get("VERIF_REPO", "/repo")
src = open(os.path.join(repo, rel)).read()
new = src
for old, rep in pairs:
    assert new.count(old) == 1, (name, "pattern count", new.count(old), old[:60])
    new = new.replace(old, rep)
diff = "".join(difflib.unified_diff(src.splitlines(True), new.splitlines(True), "a/" + rel, "b/" + rel))
open(os.path.join(os.path.dirname(os.path.dirname(os.path.abspath(__file__))), "mutants", name + ".patch"), "w").write(diff)
print(name, len(diff.splitlines()), "lines")
