import sys, os, importlib, time, collections
sys.path.insert(0,'/verif'); sys.path.insert(0,'/repo')
os.environ['AIOHTTP_NO_EXTENSIONS']='1'
import logging; logging.disable(logging.CRITICAL)
from sim import seams, runner
seams.install()
mod = importlib.import_module(sys.argv[1])
n = int(sys.argv[2])
kinds = collections.Counter(); t0=time.time(); segs=0
for i, scn in enumerate(mod.enumerate_cases('quick', 0)):
    if i >= n: break
    res = runner.execute(mod, scn, i)
    if res['outcome']=='HARNESS_ERROR': print(res['error']); break
    segs += res['probes'].get('segmentations',0)
    for v in res['violations']:
        kinds[(v['invariant'], v['key'])]+=1
        if kinds[(v['invariant'], v['key'])]<=2: print(i, v['invariant'], v['key'], v['message'][:500])
print('cases', i, 'segs', segs, 'sec', time.time()-t0, dict(kinds))
