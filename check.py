"""Entry point: ./check <id> [--tier T] [--replay F] [--budget S] [--seed N]"""
import argparse
import os
import sys

HERE = os.path.dirname(os.path.abspath(__file__))
sys.path.insert(0, HERE)
REPO = os.environ.get("VERIF_REPO", "/repo")
sys.path.insert(0, REPO)


def main() -> int:
    ap = argparse.ArgumentParser()
    ap.add_argument("prop")
    ap.add_argument("--tier", default=os.environ.get("VERIF_TIER", "quick"), choices=["quick", "thorough"])
    ap.add_argument("--replay")
    ap.add_argument("--budget", type=float)
    ap.add_argument("--seed", type=int, default=int(os.environ.get("VERIF_SEED", "0") or 0))
    a = ap.parse_args()
    from sim import runner, seams

    import logging

    logging.disable(logging.CRITICAL)
    seams.install()
    name = a.prop.upper()
    mod_name = "props." + name.lower()
    if a.replay:
        return runner.replay(mod_name, a.replay)
    return runner.check(mod_name, a.tier, a.seed, a.budget)


if __name__ == "__main__":
    try:
        rc = main()
    except SystemExit:
        raise
    except BaseException:
        import traceback

        traceback.print_exc()
        print("HARNESS_ERROR")
        rc = 2
    sys.stdout.flush()
    os._exit(rc)
