"""SimNet: in-memory TCP-like stream transports driven by SimLoop.

Semantics follow asyncio's selector socket transport (DESIGN.md 2.2): bytes are
never lost, duplicated or reordered inside one direction; segmentation, latency,
coalescing, reader pauses, writer back-pressure and the instant at which the
connection dies are decided by the choice tape / the scenario.
"""
from __future__ import annotations

import asyncio

from .loop import SimServer

TICK = 0.001
KERNEL_BUF = 65536  # bytes a closing side may leave to the kernel (socket send buffer)

# segmentation policies: name -> (lo, hi) bytes per delivery; special names below
SEG_POLICIES = ("whole", "byte", "tiny", "small", "mss", "mixed", "after_cr")


class SimSocket:
    """Returned by the aiohappyeyeballs shim; carries the address only."""

    def __init__(self, addr):
        self.sim_addr = addr
        self.family = 2

    def getpeername(self):
        return self.sim_addr

    def getsockname(self):
        return ("127.0.0.1", 50000)

    def fileno(self):
        return -1

    def close(self):
        pass

    def setsockopt(self, *a):
        pass


class Pipe:
    """One direction of a connection."""

    __slots__ = (
        "buf", "src", "dst", "scheduled", "eof", "reset", "delivered", "written",
        "policy", "kill_at", "kill_kind", "log", "deliveries", "held",
    )

    def __init__(self):
        self.buf = bytearray()
        self.src = None
        self.dst = None
        self.scheduled = False
        self.eof = False  # src closed its sending side; EOF follows the data
        self.reset = False
        self.delivered = 0
        self.written = 0
        self.policy = "whole"
        self.kill_at = None  # byte offset (of delivered bytes) at which the connection dies
        self.kill_kind = "reset"
        self.log = None  # optional list of (seqno_step, bytes) deliveries
        self.deliveries = 0
        self.held = False  # peer "stops reading": deliveries suspended by the scenario


class SimTransport(asyncio.Transport):
    def __init__(self, net, loop, name, extra):
        super().__init__(extra)
        self.net = net
        self.loop = loop
        self.name = name
        self.protocol = None
        self.out: Pipe = None  # we write into
        self.inp: Pipe = None  # we read from
        self.peer: "SimTransport" = None
        self._closing = False
        self._closed = False  # connection_lost called (or scheduled)
        self._conn_lost_called = False
        self._read_paused = False
        self._write_paused = False  # protocol.pause_writing() in effect
        self._high = 64 * 1024
        self._low = 16 * 1024
        self.writes_after_close = 0
        self.fatal_errors: list = []
        self.recv_log: list | None = None
        self.opened_step = loop.steps
        self.eof_received = False
        self.server = None

    # -- asyncio.Transport API --------------------------------------------
    def set_protocol(self, protocol):
        self.protocol = protocol

    def get_protocol(self):
        return self.protocol

    def is_closing(self):
        return self._closing

    def is_reading(self):
        return not self._read_paused and not self._closing

    def pause_reading(self):
        if self._closing or self._read_paused:
            return
        self._read_paused = True
        self.loop.faults["pause_reading"] += 1

    def resume_reading(self):
        if self._closing or not self._read_paused:
            return
        self._read_paused = False
        self.net._schedule_delivery(self.inp, resume=True)

    def set_write_buffer_limits(self, high=None, low=None):
        if high is None:
            high = 64 * 1024 if low is None else 4 * low
        if low is None:
            low = high // 4
        self._high, self._low = high, low
        self._maybe_pause_protocol()

    def get_write_buffer_limits(self):
        return (self._low, self._high)

    def get_write_buffer_size(self):
        return len(self.out.buf)

    def can_write_eof(self):
        return True

    def write_eof(self):
        if self._closing or self.out.eof:
            return
        self.out.eof = True
        self.net._schedule_delivery(self.out)

    def write(self, data):
        if not isinstance(data, (bytes, bytearray, memoryview)):
            raise TypeError(f"data argument must be a bytes-like object, not {type(data).__name__!r}")
        if self.out.eof and not self._closing:
            raise RuntimeError("Cannot call write() after write_eof()")
        if not data:
            return
        if self._closing or self._closed:
            self.writes_after_close += 1
            return
        data = bytes(data)
        out = self.out
        out.buf += data
        out.written += len(data)
        self.net.wire_log(self, "w", data)
        self.net._schedule_delivery(out)
        self._maybe_pause_protocol()

    def writelines(self, list_of_data):
        self.write(b"".join(bytes(d) for d in list_of_data))

    def close(self):
        if self._closing:
            return
        self._closing = True
        self.loop.note("close", self.name)
        if len(self.out.buf) <= KERNEL_BUF:
            # what is left fits the kernel's send buffer: close() completes locally at once,
            # the peer still receives the bytes and then EOF when it reads
            self._finish_close(None)
        else:
            self.out.eof = True  # flush down to the kernel buffer size, then close
            self.net._schedule_delivery(self.out)

    def abort(self):
        self._force_close(None)

    def __del__(self):
        pass

    # -- internals ----------------------------------------------------------
    def _closed_for_read(self):
        return self._closing or self._closed

    def _maybe_pause_protocol(self):
        n = len(self.out.buf)
        if not self._write_paused and n > self._high:
            self._write_paused = True
            self.loop.faults["pause_writing"] += 1
            try:
                self.protocol.pause_writing()
            except BaseException as exc:  # as asyncio does
                self.loop.call_exception_handler(
                    {"message": "protocol.pause_writing() failed", "exception": exc,
                     "transport": self, "protocol": self.protocol})

    def _maybe_resume_protocol(self):
        if self._write_paused and len(self.out.buf) <= self._low:
            self._write_paused = False
            try:
                self.protocol.resume_writing()
            except BaseException as exc:
                self.loop.call_exception_handler(
                    {"message": "protocol.resume_writing() failed", "exception": exc,
                     "transport": self, "protocol": self.protocol})

    def _finish_close(self, exc):
        """Our side is done: schedule connection_lost, tell the peer."""
        if self._closed:
            return
        self._closed = True
        self._closing = True
        self.inp.buf.clear()
        self.loop.call_soon(self._call_connection_lost, exc)
        peer = self.peer
        # what the peer had queued towards us is gone: a writer paused on it may go on (it will
        # learn of the close by EOF)
        self.loop.call_soon(peer._maybe_resume_protocol_safe)
        if exc is None and not self.out.reset:
            # orderly FIN: peer sees EOF after whatever is still in flight
            if not self.out.eof:
                self.out.eof = True
            self.net._schedule_delivery(self.out)
        # the peer's undelivered bytes towards us are dropped (we are closed)

    def _force_close(self, exc):
        if self._closed:
            return
        self.loop.note("abort", self.name)
        was_closing = self._closing
        self._closing = True
        self._closed = True
        self.out.buf.clear()
        self.inp.buf.clear()
        self.out.reset = True
        self.loop.call_soon(self._call_connection_lost, exc)
        peer = self.peer
        if not peer._closed:
            self.loop.sim_call_later(
                self.net.latency(), peer._force_close, ConnectionResetError("Connection reset by peer")
            )

    def _call_connection_lost(self, exc):
        if self._conn_lost_called:
            return
        self._conn_lost_called = True
        self.loop.note("conn_lost", f"{self.name}:{type(exc).__name__ if exc else None}")
        if self.server is not None:
            try:
                self.server.transports.remove(self)
            except ValueError:
                pass
        try:
            self.protocol.connection_lost(exc)
        finally:
            self.net.open_transports.discard(self)

    def _fatal_error(self, exc, message):
        self.fatal_errors.append((message, type(exc).__name__, repr(exc)[:200]))
        self.net.fatal_errors.append((self.name, message, type(exc).__name__, repr(exc)[:200]))
        self.loop.call_exception_handler(
            {"message": message, "exception": exc, "transport": self, "protocol": self.protocol})
        self._force_close(exc)

    def _deliver_eof(self):
        if self._closed or self.eof_received:
            return
        self.eof_received = True
        self.loop.note("eof", self.name)
        try:
            keep_open = self.protocol.eof_received()
        except (SystemExit, KeyboardInterrupt):
            raise
        except BaseException as exc:
            self._fatal_error(exc, "Fatal error: protocol.eof_received() call failed.")
            return
        if keep_open:
            return
        self.close()

    def __repr__(self):
        return f"<SimTransport {self.name}>"


class SimNet:
    def __init__(self, loop, choices):
        self.loop = loop
        self.ch = choices
        loop.net = self
        self.listeners: dict[tuple, SimServer] = {}
        self.open_transports: set = set()
        self.all_transports: list[SimTransport] = []
        self.fatal_errors: list = []
        self.conn_count = 0
        self.default_policy = None  # None -> drawn per pipe
        self.max_latency_ticks = 3
        self.connect_script = None  # fn(addr, attempt_no) -> ("ok"|"refuse"|"stall"|"oserror", delay)
        self.connect_attempts = 0
        self.on_connect = None  # fn(client_tr, server_tr)
        self.wire = None  # optional list of (step, name, kind, bytes)
        self.sendfile_mode = "unsupported"
        self.dns: dict[str, list[str]] = {}

    # -- helpers -------------------------------------------------------------
    def latency(self) -> float:
        return self.ch.draw("delay", 0, self.max_latency_ticks) * TICK

    def wire_log(self, tr, kind, data):
        if self.wire is not None:
            self.wire.append((self.loop.steps, tr.name, kind, data))

    # -- listening / connecting ------------------------------------------
    def listen(self, factory, host, port, ssl=None) -> SimServer:
        hosts = host if isinstance(host, (list, tuple)) else [host]
        addrs = []
        for h in hosts:
            if h in (None, "", "0.0.0.0", "::"):
                h = "*"
            if port in (None, 0) and not str(h).startswith("unix:"):
                port = 8080
            addrs.append((h, port))
        srv = SimServer(self.loop, self, addrs, factory, ssl)
        for a in addrs:
            if a in self.listeners:
                raise OSError(98, f"address already in use: {a}")
            self.listeners[a] = srv
        return srv

    def find_listener(self, addr):
        srv = self.listeners.get(addr)
        if srv is None:
            srv = self.listeners.get(("*", addr[1]))
        return srv

    async def connect_phase(self, addr):
        """The TCP handshake: may be delayed, refused, or stall forever."""
        self.connect_attempts += 1
        n = self.connect_attempts
        if self.connect_script is not None:
            outcome, delay = self.connect_script(addr, n)
        else:
            outcome, delay = "ok", self.latency()
        self.loop.note("connect", f"{addr}:{outcome}")
        if outcome == "stall":
            self.loop.faults["connect_stall"] += 1
            await self.loop.create_future()  # never completes; cancellable
        if delay > 0:
            fut = self.loop.create_future()
            self.loop.sim_call_later(delay, _set_result_safe, fut)
            await fut
        if outcome == "refuse" or (outcome == "ok" and self.find_listener(addr) is None):
            self.loop.faults["connect_refused"] += 1
            raise ConnectionRefusedError(111, f"Connect call failed {addr}")
        if outcome == "oserror":
            self.loop.faults["connect_oserror"] += 1
            raise OSError(101, "Network is unreachable")
        if outcome == "timeout":
            self.loop.faults["connect_timeout"] += 1
            raise TimeoutError(110, "Connection timed out")

    async def establish(self, addr, client_factory, ssl=None, server_hostname=None):
        srv = self.find_listener(addr)
        if srv is None:
            raise ConnectionRefusedError(111, f"Connect call failed {addr}")
        ctr, str_ = self.make_pair(addr, client_ssl=ssl, server_ssl=srv.ssl,
                                   server_hostname=server_hostname)
        cproto = client_factory()
        sproto = srv.factory()
        ctr.protocol = cproto
        str_.protocol = sproto
        str_.server = srv
        srv.transports.append(str_)
        if self.on_connect is not None:
            self.on_connect(ctr, str_)
        # server side accepts in a later iteration than the client's connect()
        self.loop.call_soon(self._made, str_, sproto)
        cproto.connection_made(ctr)
        self.loop.note("established", ctr.name)
        return ctr, cproto

    def _made(self, tr, proto):
        if tr._closed:
            # died before accept; still deliver connection_made/lost as asyncio does
            pass
        proto.connection_made(tr)
        self._schedule_delivery(tr.inp)

    def make_pair(self, addr, client_ssl=None, server_ssl=None, server_hostname=None):
        self.conn_count += 1
        n = self.conn_count
        cport = 40000 + n
        cextra = {"peername": (addr[0], addr[1]), "sockname": ("127.0.0.1", cport),
                  "sslcontext": client_ssl, "socket": None, "sim_conn": n}
        sextra = {"peername": ("127.0.0.1", cport), "sockname": (addr[0], addr[1]),
                  "sslcontext": server_ssl, "socket": None, "sim_conn": n}
        if client_ssl is not None:
            cextra["ssl_object"] = None
        ctr = SimTransport(self, self.loop, f"c{n}", cextra)
        str_ = SimTransport(self, self.loop, f"s{n}", sextra)
        c2s, s2c = Pipe(), Pipe()
        c2s.src, c2s.dst = ctr, str_
        s2c.src, s2c.dst = str_, ctr
        ctr.out, ctr.inp = c2s, s2c
        str_.out, str_.inp = s2c, c2s
        ctr.peer, str_.peer = str_, ctr
        ctr.addr = str_.addr = addr
        for p in (c2s, s2c):
            p.policy = self.default_policy or self.ch.pick("seg_policy", SEG_POLICIES)
        self.open_transports.add(ctr)
        self.open_transports.add(str_)
        self.all_transports.append(ctr)
        self.all_transports.append(str_)
        return ctr, str_

    def connect_raw(self, addr, protocol):
        """Scripted raw client: connects at once (no handshake delay)."""
        srv = self.find_listener(addr)
        if srv is None:
            raise ConnectionRefusedError(111, f"Connect call failed {addr}")
        ctr, str_ = self.make_pair(addr, server_ssl=srv.ssl)
        sproto = srv.factory()
        ctr.protocol = protocol
        str_.protocol = sproto
        str_.server = srv
        srv.transports.append(str_)
        if self.on_connect is not None:
            self.on_connect(ctr, str_)
        sproto.connection_made(str_)
        protocol.connection_made(ctr)
        return ctr, str_

    def attach_pair(self, proto_a, proto_b, addr=("10.9.9.9", 9)):
        """Two protocol objects joined directly (worlds P/U/W)."""
        a, b = self.make_pair(addr)
        a.protocol, b.protocol = proto_a, proto_b
        proto_a.connection_made(a)
        proto_b.connection_made(b)
        return a, b

    # -- delivery --------------------------------------------------------------
    def _schedule_delivery(self, pipe: Pipe, resume: bool = False):
        if pipe.scheduled:
            return
        if not pipe.buf and not pipe.eof:
            return
        pipe.scheduled = True
        self.loop.sim_call_later(self.latency(), self._deliver, pipe)

    def _segment(self, pipe: Pipe) -> int:
        n = len(pipe.buf)
        pol = pipe.policy
        ch = self.ch
        if pol == "whole":
            k = n
        elif pol == "byte":
            # byte-at-a-time for the first 512 bytes of a direction, then small
            # pieces (a 1 MiB body one byte at a time would only burn budget)
            k = 1 if pipe.delivered < 512 else (ch.draw("seg", 1, 64) if pipe.delivered < 8192 else ch.draw("seg", 1, 4096))
        elif pol == "tiny":
            # fine cuts for the first KiBs of a direction, coarser for bulk data
            k = ch.draw("seg", 1, 4) if pipe.delivered < 2048 else ch.draw("seg", 1, 1024)
        elif pol == "small":
            k = ch.draw("seg", 1, 64) if pipe.delivered < 8192 else ch.draw("seg", 1, 4096)
        elif pol == "mss":
            k = 1460
        elif pol == "mixed":
            m = ch.draw("segm", 0, 3)
            k = (1, ch.draw("seg", 1, 16), ch.draw("seg", 1, 512), n)[m]
        elif pol == "after_cr":
            i = pipe.buf.find(b"\r")
            k = i + 1 if i >= 0 and ch.draw("segm", 0, 2) else ch.draw("seg", 1, max(1, min(n, 32)))
        elif isinstance(pol, list):
            # explicit cut list: absolute offsets in the stream
            k = n
            for c in pol:
                if c > pipe.delivered:
                    k = min(n, c - pipe.delivered)
                    break
        else:
            k = n
        if k > n:
            k = n
        if k < 1:
            k = 1
        return k

    def _deliver(self, pipe: Pipe):
        pipe.scheduled = False
        dst = pipe.dst
        src = pipe.src
        if dst._closed or dst._closing:
            # reader closed: bytes are dropped.  A real peer would answer RST,
            # which could destroy its own last bytes still in flight to src (the
            # classic lingering-close race); that race is inherent to TCP and
            # not attributable to aiohttp, so src learns of the close by EOF only.
            pipe.buf.clear()
            if src._closing and not src._closed:
                # the writer had called close() with these bytes still unsent: its close completes now
                src._finish_close(None)
            src._maybe_resume_protocol_safe()
            return
        if dst._read_paused or pipe.held:
            return  # resume_reading()/release will reschedule
        if pipe.buf:
            k = self._segment(pipe)
            if pipe.kill_at is not None and pipe.delivered + k >= pipe.kill_at:
                k = max(0, pipe.kill_at - pipe.delivered)
            if k > 0:
                chunk = bytes(pipe.buf[:k])
                del pipe.buf[:k]
                pipe.delivered += k
                pipe.deliveries += 1
                self.loop.note("rx", f"{dst.name}:{k}")
                if dst.recv_log is not None:
                    dst.recv_log.append((self.loop.steps, chunk))
                self.wire_log(dst, "r", chunk)
                try:
                    dst.protocol.data_received(chunk)
                except (SystemExit, KeyboardInterrupt):
                    raise
                except BaseException as exc:
                    dst._fatal_error(exc, "Fatal error: protocol.data_received() call failed.")
                    return
                if not src._closed:
                    src._maybe_resume_protocol()
                    if src._closing and len(pipe.buf) <= KERNEL_BUF:
                        src._finish_close(None)
            if pipe.kill_at is not None and pipe.delivered >= pipe.kill_at:
                kind = pipe.kill_kind
                pipe.kill_at = None
                self.loop.faults["kill_" + kind] += 1
                if kind.startswith("peer_"):
                    # the *reader* of this direction dies after k bytes reached it
                    self.kill(dst, kind[5:])
                else:
                    self.kill(src, kind)
                return
        if pipe.buf:
            if not dst._read_paused:
                self._schedule_delivery(pipe)
            return
        if dst._read_paused or pipe.held:
            # a paused reader does not notice EOF either (the selector transport has
            # removed its reader); resume_reading()/release reschedule the delivery
            return
        if pipe.eof:
            if src._closing and not src._closed:
                src._finish_close(None)
            if not dst.eof_received:
                dst._deliver_eof()

    def kill(self, tr: SimTransport, kind: str):
        """Connection dies as seen from tr's side: reset | eof (peer closes)."""
        if kind == "reset":
            tr._force_close(ConnectionResetError("injected reset"))
        elif kind == "half_close":
            tr.out.buf.clear()
            tr.write_eof()
        else:
            tr.out.buf.clear()
            tr.close()

    def hold(self, pipe: Pipe):
        pipe.held = True

    def release(self, pipe: Pipe):
        if pipe.held:
            pipe.held = False
            self._schedule_delivery(pipe)

    async def sendfile(self, transport, file, offset, count):
        file.seek(offset)
        total = 0
        while count is None or total < count:
            n = 65536 if count is None else min(65536, count - total)
            data = file.read(n)
            if not data:
                break
            transport.write(data)
            total += len(data)
        return total


def _set_result_safe(fut):
    if not fut.done():
        fut.set_result(None)


def _maybe_resume_protocol_safe(self):
    if not self._closed:
        self._maybe_resume_protocol()


SimTransport._maybe_resume_protocol_safe = _maybe_resume_protocol_safe


class SimResolver:
    """AbstractResolver for TCPConnector(resolver=...)."""

    def __init__(self, net: SimNet, script=None):
        self.net = net
        self.script = script  # fn(host, n) -> ("ok"|"fail"|"stall", delay)
        self.lookups: dict[str, int] = {}
        self.n = 0

    async def resolve(self, host, port=0, family=0):
        self.n += 1
        self.lookups[host] = self.lookups.get(host, 0) + 1
        loop = self.net.loop
        if self.script is not None:
            outcome, delay = self.script(host, self.n)
        else:
            outcome, delay = "ok", self.net.latency()
        loop.note("dns", f"{host}:{outcome}")
        if outcome == "stall":
            loop.faults["dns_stall"] += 1
            await loop.create_future()
        if delay > 0:
            fut = loop.create_future()
            loop.sim_call_later(delay, _set_result_safe, fut)
            await fut
        if outcome == "fail":
            loop.faults["dns_fail"] += 1
            raise OSError(-2, "Name or service not known")
        ips = self.net.dns.get(host)
        if ips is None:
            ips = [host]
        return [
            {"hostname": host, "host": ip, "port": port, "family": 2, "proto": 6, "flags": 0}
            for ip in ips
        ]

    async def close(self):
        pass
