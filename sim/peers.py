"""Scripted raw peers (DESIGN.md 2.3)."""
from __future__ import annotations

import asyncio


class RawClient(asyncio.Protocol):
    """Sends a byte stream in given pieces at given (virtual) times and records
    everything it receives.

    script: list of [delay_ticks, piece(bytes)] ; then `end` in
    {"keep", "close", "half_close", "reset"} after end_delay ticks.
    """

    def __init__(self, loop, script, end="keep", end_delay=0, tick=0.001):
        self.loop = loop
        self.script = list(script)
        self.end = end
        self.end_delay = end_delay
        self.tick = tick
        self.transport = None
        self.received = bytearray()
        self.rx_log = []  # (step, nbytes_total)
        self.eof = False
        self.lost = None  # False -> not lost; else ("lost", exc type name)
        self.lost_step = None
        self.sent = 0
        self.done_sending = False
        self._i = 0

    def connection_made(self, transport):
        self.transport = transport
        self._next()

    def _next(self):
        if self._i < len(self.script):
            d = self.script[self._i][0]
            self.loop.sim_call_later(d * self.tick, self._send)
        else:
            self.loop.sim_call_later(self.end_delay * self.tick, self._finish)

    def _send(self):
        if self.transport is None or self.transport.is_closing() or self.transport.out.eof:
            self.done_sending = True
            return
        piece = self.script[self._i][1]
        self._i += 1
        self.transport.write(piece)
        self.sent += len(piece)
        self._next()

    def _finish(self):
        self.done_sending = True
        tr = self.transport
        if tr is None or tr.is_closing() or tr.out.eof:
            return
        if self.end == "close":
            tr.close()
        elif self.end == "half_close":
            tr.write_eof()
        elif self.end == "reset":
            tr.abort()

    def data_received(self, data):
        self.received += data
        self.rx_log.append((self.loop.steps, len(self.received)))

    def eof_received(self):
        self.eof = True
        return False  # close our side too

    def connection_lost(self, exc):
        self.lost = ("lost", type(exc).__name__ if exc else None)
        self.lost_step = self.loop.steps

    def pause_writing(self):
        pass

    def resume_writing(self):
        pass


class RawServerConn(asyncio.Protocol):
    """One accepted connection of a RawServer; behaviour comes from the owner."""

    def __init__(self, server):
        self.server = server
        self.loop = server.loop
        self.transport = None
        self.buf = bytearray()
        self.requests = []  # parsed request heads + bodies as seen by the raw server
        self.conn_id = None
        self.eof = False
        self.lost = None
        self.writes = []  # (step, bytes) actually handed to the transport
        self.abnormal = False

    def connection_made(self, transport):
        self.transport = transport
        self.server.conns.append(self)
        self.conn_id = len(self.server.conns)
        self.server.on_connect(self)

    def data_received(self, data):
        self.buf += data
        self.server.on_data(self)

    def eof_received(self):
        self.eof = True
        self.server.on_eof(self)
        return False

    def connection_lost(self, exc):
        self.lost = ("lost", type(exc).__name__ if exc else None)
        self.server.on_lost(self)

    def send(self, data: bytes):
        if self.transport is not None and not self.transport.is_closing():
            self.writes.append((self.loop.steps, bytes(data)))
            self.transport.write(data)

    def pause_writing(self):
        pass

    def resume_writing(self):
        pass


def parse_simple_request(buf: bytearray):
    """Minimal well-formed-request reader for scripted servers (requests come
    from aiohttp's own client, so a simple reader suffices).  Returns
    (request dict, consumed) or None if incomplete."""
    i = buf.find(b"\r\n\r\n")
    if i < 0:
        return None
    head = bytes(buf[:i])
    lines = head.split(b"\r\n")
    try:
        method, target, version = lines[0].split(b" ", 2)
    except ValueError:
        method, target, version = b"?", bytes(lines[0]), b""
    headers = []
    for ln in lines[1:]:
        k = ln.find(b":")
        headers.append((ln[:k], ln[k + 1:].strip(b" \t")))
    low = {a.lower(): b for a, b in headers}
    p = i + 4
    body = b""
    if b"chunked" in low.get(b"transfer-encoding", b"").lower():
        out = bytearray()
        while True:
            j = buf.find(b"\r\n", p)
            if j < 0:
                return None
            try:
                size = int(bytes(buf[p:j]).split(b";")[0], 16)
            except ValueError:
                size = 0
            p = j + 2
            if size == 0:
                k = buf.find(b"\r\n\r\n", p - 2)
                if k < 0:
                    return None
                p = k + 4
                break
            if len(buf) - p < size + 2:
                return None
            out += buf[p:p + size]
            p += size + 2
        body = bytes(out)
    elif b"content-length" in low:
        try:
            n = int(low[b"content-length"])
        except ValueError:
            n = 0
        if len(buf) - p < n:
            return None
        body = bytes(buf[p:p + n])
        p += n
    return ({"method": method, "target": target, "version": version, "headers": headers, "body": body,
             "expect": low.get(b"expect", b"").lower() == b"100-continue"}, p)
