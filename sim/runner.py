"""Seeded search driver shared by all property checks (DESIGN.md 6, 7).

A property module provides
    PROP, LEVEL, RULE, COMPONENTS, ASSUMPTIONS, DESIGN_REF
    gen(rng, tier, index) -> scenario (JSON-serialisable dict)
    run(scn, ch, log=False) -> dict(violations=[{invariant,key,message}], nontrivial=bool,
                                   sig=str, digest=str, steps=int, vtime=float,
                                   faults={}, probes={}, shape=str)
    shrink(scn) -> iterable of smaller scenarios            (optional)
    enumerate_cases(tier, seed) -> iterable of scenarios      (optional; run before the seeded search)
    BUDGET = {"quick": seconds, "thorough": seconds}
    oracle_selftest() -> None (raises on failure)             (optional)
"""
from __future__ import annotations

import collections
import concurrent.futures as cf
import faulthandler
import hashlib
import importlib
import json
import multiprocessing as mp
import os
import random
import re
import signal
import sys
import time
import traceback

from .choices import Choices
from .world import HangDetected

VERIF = os.path.dirname(os.path.dirname(os.path.abspath(__file__)))
RUN_WALL_LIMIT = float(os.environ.get("VERIF_RUN_WALL_S", "60"))
NPROC = int(os.environ.get("VERIF_WORKERS", "0")) or min(16, os.cpu_count() or 1)

_now = time.monotonic  # captured before any seam touches the module
_STOP = mp.get_context("fork").Event()


def run_seed_of(seed: int, prop: str, i: int) -> int:
    h = hashlib.sha256(f"{seed}:{prop}:{i}".encode()).digest()
    return int.from_bytes(h[:6], "big")


def load_known(prop: str) -> list[dict]:
    p = os.path.join(VERIF, "known_findings.json")
    data = None
    for _attempt in range(5):
        try:
            with open(p) as f:
                data = json.load(f)
            break
        except FileNotFoundError:
            return []
        except json.JSONDecodeError:
            time.sleep(0.2)  # being rewritten by an editor: retry
    if data is None:
        raise RuntimeError("known_findings.json is not valid JSON")
    out = []
    skip = set(filter(None, os.environ.get("VERIF_IGNORE_KNOWN", "").split(",")))  # debugging aid: treat as not listed
    for e in data.get("findings", []):
        if e.get("id") in skip:
            continue
        if e.get("property") == prop:
            e = dict(e)
            e["_re"] = re.compile(e.get("key_regex", ".*"), re.S)
            out.append(e)
    return out


def match_known(known: list[dict], v: dict):
    """Return the entry that lists this violation as a known (unfixed) finding."""
    for e in known:
        if e.get("status") != "known":
            continue
        if e.get("invariant") not in (None, v["invariant"]):
            continue
        if e["_re"].fullmatch(v["key"]):
            return e
    return None


class _Hang:
    frame_desc = None


def _alarm(signum, frame):
    desc = []
    f = frame
    while f is not None and len(desc) < 6:
        desc.append(f"{os.path.basename(f.f_code.co_filename)}:{f.f_code.co_name}:{f.f_lineno}")
        f = f.f_back
    _Hang.frame_desc = desc
    from . import loop as _loop
    _loop._HANG[0] = True
    raise HangDetected("CPU-time watchdog")


def execute(mod, scn: dict, run_seed: int, tape=None, log: bool = False) -> dict:
    """One run.  Never raises for property violations; harness exceptions are
    classified as outcome=HARNESS_ERROR."""
    ch = Choices(seed=run_seed ^ 0x9E3779B97F4A7C15, tape=tape)
    from . import loop as _loop
    _loop._HANG[0] = False
    # the watchdog counts this process's CPU time, not wall time: a busy machine must not turn a slow run into a
    # reported hang (a run never sleeps; a worker that stops altogether is caught by the parent's wait timeout)
    old = signal.signal(signal.SIGPROF, _alarm)
    signal.setitimer(signal.ITIMER_PROF, RUN_WALL_LIMIT)
    try:
        res = mod.run(scn, ch, log=log) if log else mod.run(scn, ch)
        res.setdefault("violations", [])
        res["outcome"] = "VIOLATION" if res["violations"] else "OK"
    except HangDetected:
        top = (_Hang.frame_desc or ["?"])
        where = next((d for d in top if not d.startswith(("loop.py", "runner.py", "world.py", "events.py", "base_events.py"))), top[0])
        where = where.rsplit(":", 1)[0]
        res = {
            "violations": [{"invariant": "hang", "key": f"hang@{where}",
                            "message": f"run exceeded the watchdog ({RUN_WALL_LIMIT:.0f} s of CPU time): " + " <- ".join(top)}],
            "outcome": "VIOLATION", "nontrivial": True, "sig": "hang", "digest": "hang",
            "steps": 0, "vtime": 0.0, "faults": {}, "probes": {},
        }
    except Exception:
        res = {"violations": [], "outcome": "HARNESS_ERROR", "error": traceback.format_exc(),
               "nontrivial": False, "sig": "", "digest": "", "steps": 0, "vtime": 0.0,
               "faults": {}, "probes": {}}
    finally:
        signal.setitimer(signal.ITIMER_PROF, 0)
        signal.signal(signal.SIGPROF, old)
    res["tape"] = ch.used_tape()
    res["choice_counts"] = dict(ch.counts)
    return res


def _scenario_for(mod, tier, seed, i):
    rs = run_seed_of(seed, mod.PROP, i)
    return rs, mod.gen(random.Random(rs), tier, i)


def _batch(mod_name: str, tier: str, seed: int, start: int, count: int, deadline: float,
           cases: list | None = None):
    """Worker: run scenarios [start, start+count) (or explicit cases)."""
    faulthandler.enable()
    mod = importlib.import_module(mod_name)
    known = load_known(mod.PROP)
    agg = {
        "runs": 0, "nontrivial": 0, "sigs": set(), "shapes": collections.Counter(),
        "faults": collections.Counter(), "probes": collections.Counter(),
        "choices": collections.Counter(),
        "steps": 0, "vtime": 0.0, "known": collections.Counter(), "known_ex": {},
        "violation": None, "harness_error": None, "samples": [], "digests": {},
        "first": None, "last": None, "enumerated": 0,
    }
    items = cases if cases is not None else range(start, start + count)
    for it in items:
        if _STOP.is_set() or (_now() > deadline and agg["runs"] > 0 and cases is None):
            break
        if cases is None:
            i = it
            rs, scn = _scenario_for(mod, tier, seed, i)
        else:
            i, scn = it
            rs = run_seed_of(seed, mod.PROP + ":enum", i)
            agg["enumerated"] += 1
        res = execute(mod, scn, rs)
        agg["runs"] += 1
        if agg["first"] is None:
            agg["first"] = rs
        agg["last"] = rs
        if res["outcome"] == "HARNESS_ERROR":
            agg["harness_error"] = {"index": i, "run_seed": rs, "scenario": scn, "error": res["error"]}
            break
        agg["steps"] += res.get("steps", 0)
        agg["vtime"] += res.get("vtime", 0.0)
        agg["faults"].update(res.get("faults", {}))
        agg["probes"].update(res.get("probes", {}))
        agg["choices"].update(res.get("choice_counts", {}))
        if res.get("shape"):
            agg["shapes"][res["shape"]] += 1
        if res.get("nontrivial"):
            agg["nontrivial"] += 1
            agg["sigs"].add(res.get("sig", ""))
            if len(agg["samples"]) < 2:
                agg["samples"].append({"run_seed": rs, "scenario": scn, "sig": res.get("sig")})
        if cases is None and len(agg["digests"]) < 4:
            agg["digests"][i] = res.get("digest")
        unknown = None
        for v in res["violations"]:
            e = match_known(known, v)
            if e is not None:
                agg["known"][e["id"]] += 1
                agg["known_ex"].setdefault(e["id"], v["message"][:300])
            elif unknown is None:
                unknown = v
        if unknown is not None:
            agg["violation"] = {"index": i, "run_seed": rs, "scenario": scn, "tape": res["tape"],
                                "violation": unknown, "digest": res.get("digest"),
                                "enumerated": cases is not None}
            break
    agg["sigs"] = list(agg["sigs"])
    return agg


# ---------------------------------------------------------------------------
# minimisation


def _same(v: dict, target: dict) -> bool:
    return v["invariant"] == target["invariant"] and v["key"] == target["key"]


def _fails(mod, scn, run_seed, tape, target, known):
    res = execute(mod, scn, run_seed, tape=tape)
    if res["outcome"] != "VIOLATION":
        return None
    for v in res["violations"]:
        if _same(v, target) and match_known(known, v) is None:
            return res
    return None


def minimise(mod, viol: dict, known, budget_s: float = 45.0, max_exec: int = 300):
    scn, tape, rs, target = viol["scenario"], list(viol["tape"]), viol["run_seed"], viol["violation"]
    t_end = _now() + budget_s
    n_exec = 0
    base = _fails(mod, scn, rs, tape, target, known)
    if base is None:
        return viol, {"replayed": False, "executions": 1}
    tape = base["tape"]
    changed = True
    shrink = getattr(mod, "shrink", None)
    while changed and _now() < t_end and n_exec < max_exec:
        changed = False
        if shrink is not None:
            for cand in shrink(scn):
                if _now() > t_end or n_exec >= max_exec:
                    break
                n_exec += 1
                r = _fails(mod, cand, rs, tape, target, known)
                if r is not None:
                    scn, tape, changed = cand, r["tape"], True
                    break
            if changed:
                continue
        # tape: truncate, then zero blocks
        n = len(tape)
        for cut in (n // 2, (3 * n) // 4, n - 1):
            if cut < n and cut >= 0 and n_exec < max_exec and _now() < t_end:
                n_exec += 1
                r = _fails(mod, scn, rs, tape[:cut], target, known)
                if r is not None and len(r["tape"]) <= cut:
                    tape, changed = tape[:cut], True
                    break
        if changed:
            continue
        blk = max(1, len(tape) // 8)
        pos = 0
        while pos < len(tape) and n_exec < max_exec and _now() < t_end:
            if any(tape[pos:pos + blk]):
                cand = tape[:pos] + [0] * len(tape[pos:pos + blk]) + tape[pos + blk:]
                n_exec += 1
                r = _fails(mod, scn, rs, cand, target, known)
                if r is not None:
                    tape, changed = cand, True
            pos += blk
    final = execute(mod, scn, rs, tape=tape)
    v = next((x for x in final["violations"] if _same(x, target)), target)
    out = dict(viol)
    out.update({"scenario": scn, "tape": tape, "violation": v, "digest": final.get("digest")})
    return out, {"replayed": True, "executions": n_exec}


def write_replay(mod, tier, viol, extra=None) -> str:
    d = os.environ.get("VERIF_REPLAY_DIR") or os.path.join(VERIF, "replays")
    os.makedirs(d, exist_ok=True)
    key = hashlib.sha1((viol["violation"]["invariant"] + viol["violation"]["key"]).encode()).hexdigest()[:10]
    path = os.path.join(d, f"{mod.PROP}-{key}.json")
    doc = {
        "property": mod.PROP, "check": mod.__name__, "tier": tier, "repo_head": _repo_head(),
        "run_seed": viol["run_seed"], "scenario": viol["scenario"], "tape": viol["tape"],
        "violation": viol["violation"], "event_log_digest": viol.get("digest"),
        "minimisation": extra or {},
    }
    with open(path, "w") as f:
        json.dump(doc, f, indent=1, sort_keys=True, default=_json_default)
    return path


def _json_default(o):
    if isinstance(o, (bytes, bytearray)):
        return {"__bytes__": bytes(o).decode("latin-1")}
    if isinstance(o, (set, frozenset)):
        return sorted(o)
    return repr(o)


def _repo_head() -> str:
    import subprocess
    from . import seams

    try:
        return subprocess.run(["git", "-C", seams.REPO, "rev-parse", "HEAD"], capture_output=True,
                              text=True, timeout=10).stdout.strip()
    except Exception:
        return "unknown"


# ---------------------------------------------------------------------------
# main entry


def check(mod_name: str, tier: str, seed: int, budget: float | None = None) -> int:
    t0 = _now()
    mod = importlib.import_module(mod_name)
    prop = mod.PROP
    known = load_known(prop)
    if budget is None:
        env = os.environ.get("VERIF_BUDGET_S")
        budget = float(env) if env else float(mod.BUDGET[tier])
    st = getattr(mod, "oracle_selftest", None)
    if st is not None:
        try:
            st()
        except Exception:
            print(f"HARNESS_ERROR property={prop} oracle self-test failed", flush=True)
            traceback.print_exc()
            return 2
    deadline = t0 + budget
    _STOP.clear()
    tot = {
        "runs": 0, "nontrivial": 0, "sigs": set(), "shapes": collections.Counter(),
        "faults": collections.Counter(), "probes": collections.Counter(),
        "choices": collections.Counter(),
        "steps": 0, "vtime": 0.0, "known": collections.Counter(), "known_ex": {},
        "samples": [], "first": None, "last": None, "enumerated": 0, "enum_total": 0,
        "enum_complete": False,
    }
    violation = None
    harness_error = None
    nondet = None
    batch_size = int(getattr(mod, "BATCH", 200))
    ctx = mp.get_context("fork")
    enum = getattr(mod, "enumerate_cases", None)
    ex = cf.ProcessPoolExecutor(max_workers=NPROC, mp_context=ctx)
    try:
        pending = set()
        next_index = 0
        enum_iter = None
        if enum is not None:
            enum_iter = enumerate(enum(tier, seed))
        enum_done = enum is None
        enum_chunk = int(getattr(mod, "ENUM_BATCH", 50))
        enum_deadline = t0 + budget * float(getattr(mod, "ENUM_SHARE", 0.5))

        def submit_more():
            nonlocal next_index, enum_done
            while len(pending) < NPROC * 2 and _now() < deadline:
                if not enum_done:
                    chunk = []
                    for item in enum_iter:
                        chunk.append(item)
                        if len(chunk) >= enum_chunk:
                            break
                    if len(chunk) < enum_chunk:
                        enum_done = True
                        tot["enum_complete"] = True
                    if chunk:
                        tot["enum_total"] += len(chunk)
                        pending.add(ex.submit(_batch, mod_name, tier, seed, 0, 0, deadline, chunk))
                    if _now() > enum_deadline and not enum_done:
                        enum_done = True  # out of enumeration budget: stated in evidence
                    continue
                pending.add(ex.submit(_batch, mod_name, tier, seed, next_index, batch_size, deadline))
                next_index += batch_size

        submit_more()
        first_batch_digests = None
        while pending:
            done, _ = cf.wait(pending, timeout=RUN_WALL_LIMIT * 3 + 60, return_when=cf.FIRST_COMPLETED)
            if not done:
                harness_error = {"error": "worker made no progress (hung or died)"}
                break
            for fut in done:
                pending.discard(fut)
                try:
                    agg = fut.result()
                except Exception:
                    harness_error = {"error": "worker died: " + traceback.format_exc()}
                    continue
                for k in ("runs", "nontrivial", "steps", "vtime", "enumerated"):
                    tot[k] += agg[k]
                tot["sigs"].update(agg["sigs"])
                for k in ("shapes", "faults", "probes", "known", "choices"):
                    tot[k].update(agg[k])
                for k, v in agg["known_ex"].items():
                    tot["known_ex"].setdefault(k, v)
                if len(tot["samples"]) < 3:
                    tot["samples"].extend(agg["samples"][: 3 - len(tot["samples"])])
                if agg["first"] is not None:
                    tot["first"] = agg["first"] if tot["first"] is None else tot["first"]
                    tot["last"] = agg["last"]
                if agg["digests"] and first_batch_digests is None:
                    first_batch_digests = agg["digests"]
                if agg["harness_error"] and harness_error is None:
                    harness_error = agg["harness_error"]
                if agg["violation"] and violation is None:
                    violation = agg["violation"]
            if violation or harness_error:
                for fut in pending:
                    fut.cancel()
                break
            submit_more()
    finally:
        # never leave workers behind: stop them ourselves (the executor's own
        # shutdown is asynchronous and this process ends with os._exit)
        _STOP.set()
        procs = list(getattr(ex, "_processes", {}).values())
        ex.shutdown(wait=False, cancel_futures=True)
        t_kill = _now() + 5
        for p in procs:
            p.join(max(0.0, t_kill - _now()))
        for p in procs:
            if p.is_alive():
                p.kill()

    # in-check determinism sample: re-execute a few runs in this (different) process
    if first_batch_digests and not harness_error:
        for i, dg in sorted(first_batch_digests.items()):
            rs, scn = _scenario_for(mod, tier, seed, i)
            r = execute(mod, scn, rs)
            if r.get("digest") != dg:
                nondet = {"index": i, "run_seed": rs, "worker": dg, "parent": r.get("digest")}
                break

    exit_code = 0
    replay_path = None
    if harness_error:
        exit_code = 2
    elif nondet:
        exit_code = 2
    elif violation:
        mini, info = minimise(mod, violation, known)
        replay_path = write_replay(mod, tier, mini, info)
        violation = mini
        exit_code = 1

    wall = _now() - t0
    for kid, n in sorted(tot["known"].items()):
        e = next(x for x in known if x["id"] == kid)
        ex = " ".join(str(tot["known_ex"].get(kid, "")).split())[:220]
        print(f"KNOWN-FINDING: property={prop} {kid}: {e.get('summary', '')} (hit {n}x; e.g. {ex})", flush=True)
    write_evidence(mod, tier, seed, tot, wall, violation, known)
    rate = tot["runs"] / wall * 3600 if wall > 0 else 0
    print(f"[{prop}] tier={tier} seed={seed} runs={tot['runs']} nontrivial={tot['nontrivial']} "
          f"distinct={len(tot['sigs'])} steps={tot['steps']} sim_s={tot['vtime']:.1f} "
          f"wall={wall:.1f}s runs/h={rate:.0f}", flush=True)
    if harness_error:
        print(f"HARNESS_ERROR property={prop}", flush=True)
        print(json.dumps(harness_error, indent=1, default=_json_default)[:6000], flush=True)
    if nondet:
        print(f"HARNESS_ERROR property={prop} nondeterministic run: {nondet}", flush=True)
    if violation:
        v = violation["violation"]
        print(f"  invariant={v['invariant']} key={v['key']}", flush=True)
        print(f"  {v['message'][:1500]}", flush=True)
        print(f"VIOLATION property={prop} replay={replay_path}", flush=True)
    return exit_code


def write_evidence(mod, tier, seed, tot, wall, violation, known):
    edir = os.environ.get("VERIF_EVIDENCE_DIR") or os.path.join(VERIF, "evidence")
    os.makedirs(edir, exist_ok=True)
    path = os.path.join(edir, f"{mod.PROP}.json")
    rule = mod.RULE
    cov = {
        "evaluations": tot["runs"],
        "distinct_nontrivial": len(tot["sigs"]),
        "nontrivial_runs": tot["nontrivial"],
        "rule": rule,
        "samples": tot["samples"] or [{"note": "no non-trivial run"}],
        "runs_per_hour": round(tot["runs"] / wall * 3600) if wall > 0 else 0,
        "sim_seconds": round(tot["vtime"], 3),
        "loop_steps": tot["steps"],
        "run_seeds": {"first": tot["first"], "last": tot["last"]},
        "faults_fired": dict(sorted(tot["faults"].items())),
        "tape_draws": dict(sorted(tot["choices"].items())),
        "probes": dict(sorted(tot["probes"].items())),
        "scenario_shapes": len(tot["shapes"]),
        "top_shapes": dict(tot["shapes"].most_common(12)),
        "components": getattr(mod, "COMPONENTS", {}),
        "workers": NPROC,
        "known_findings_hit": dict(tot["known"]),
        "exhaustive": False,
    }
    if tot["enum_total"]:
        cov["enumerated_cases"] = tot["enumerated"]
        cov["enumeration_complete"] = bool(tot["enum_complete"])
        cov["exhaustive"] = bool(tot["enum_complete"]) and bool(getattr(mod, "ENUM_IS_EXHAUSTIVE", False))
        cov["enumeration_rule"] = getattr(mod, "ENUM_RULE", "")
    doc = {
        "property_id": mod.PROP, "tier": tier, "seed": int(seed), "level": mod.LEVEL,
        "coverage": cov, "assumptions": list(getattr(mod, "ASSUMPTIONS", [])),
        "wall_s": round(wall, 3), "violations": 1 if violation else 0,
    }
    with open(path, "w") as f:
        json.dump(doc, f, indent=1, default=_json_default)


def replay(mod_name: str, path: str) -> int:
    mod = importlib.import_module(mod_name)
    with open(path) as f:
        doc = json.load(f)
    known = load_known(mod.PROP)
    scn = _revive(doc["scenario"])
    res = execute(mod, scn, doc["run_seed"], tape=doc["tape"], log=True)
    target = doc["violation"]
    if res["outcome"] == "HARNESS_ERROR":
        print(res["error"])
        print(f"HARNESS_ERROR property={mod.PROP}")
        return 2
    hit = [v for v in res["violations"] if _same(v, target)]
    if res.get("digest") != doc.get("event_log_digest"):
        print(f"note: event-log digest differs from the recorded one "
              f"({res.get('digest')} vs {doc.get('event_log_digest')})")
    for line in res.get("event_log", [])[-40:]:
        print("   ", line)
    if hit:
        v = hit[0]
        print(f"  invariant={v['invariant']} key={v['key']}")
        print(f"  {v['message'][:3000]}")
        e = match_known(known, v)
        if e is not None:
            print(f"KNOWN-FINDING: property={mod.PROP} {e['id']}: {e.get('summary', '')}")
            return 0
        print(f"VIOLATION property={mod.PROP} replay={path}")
        return 1
    others = res["violations"]
    if others:
        v = others[0]
        print(f"  different violation: invariant={v['invariant']} key={v['key']}\n  {v['message'][:1500]}")
        if match_known(known, v) is None:
            print(f"VIOLATION property={mod.PROP} replay={path}")
            return 1
    print(f"[{mod.PROP}] replay did not reproduce the recorded violation")
    return 0


def _revive(o):
    if isinstance(o, dict):
        if set(o) == {"__bytes__"}:
            return o["__bytes__"].encode("latin-1")
        return {k: _revive(v) for k, v in o.items()}
    if isinstance(o, list):
        return [_revive(x) for x in o]
    return o
