"""Choice tape: every in-run decision of the simulator goes through draw().

Search mode: values come from a PRNG seeded with the run seed and are appended
to the tape.  Replay mode: values come from the tape (clamped into range; the
lowest value when the tape is exhausted).  Nothing here reads a clock.
"""
from __future__ import annotations

import random


class Choices:
    __slots__ = ("rng", "tape", "_replay", "_pos", "counts")

    def __init__(self, seed: int | None = None, tape: list[int] | None = None):
        self._replay = tape is not None
        self.rng = random.Random(seed if seed is not None else 0)
        self.tape: list[int] = list(tape) if tape is not None else []
        self._pos = 0
        self.counts: dict[str, int] = {}

    def draw(self, label: str, lo: int, hi: int) -> int:
        """Integer in [lo, hi]."""
        if hi <= lo:
            # still consume a tape slot so structure is stable under shrinking
            v = lo
            if self._replay:
                self._pos += 1
            else:
                self.tape.append(v)
            return v
        if self._replay:
            if self._pos < len(self.tape):
                v = self.tape[self._pos]
                if v < lo:
                    v = lo
                elif v > hi:
                    v = hi
            else:
                v = lo
            self._pos += 1
        else:
            v = self.rng.randint(lo, hi)
            self.tape.append(v)
        c = self.counts
        c[label] = c.get(label, 0) + 1
        return v

    def chance(self, label: str, num: int, den: int) -> bool:
        """True with probability num/den (value 0 == False is the simple one)."""
        return self.draw(label, 0, den - 1) >= den - num

    def pick(self, label: str, seq):
        return seq[self.draw(label, 0, len(seq) - 1)]

    def used_tape(self) -> list[int]:
        if self._replay:
            return self.tape[: self._pos]
        return self.tape
