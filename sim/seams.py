"""Process-level seams (DESIGN.md section 3).  install() is called once per
process before any aiohttp object is created; begin_run() before every run.
"""
from __future__ import annotations

import os
import sys

REPO = os.environ.get("VERIF_REPO", "/repo")
os.environ.setdefault("AIOHTTP_NO_EXTENSIONS", "1")
if sys.path[0] != REPO:
    sys.path.insert(0, REPO)

import asyncio  # noqa: E402
import random  # noqa: E402
import time  # noqa: E402
import uuid  # noqa: E402

from . import loop as simloop  # noqa: E402
from .net import SimSocket  # noqa: E402

_installed = False
_state = {"loop": None, "epoch0": 1_700_000_000.0, "rng": random.Random(0)}
_real_time = time.time
_real_monotonic = time.monotonic


def _vtime():
    lp = _state["loop"]
    if lp is None:
        return _state["epoch0"]
    return _state["epoch0"] + lp._vnow + lp.wall_clock_skew


def _vmonotonic():
    lp = _state["loop"]
    return 1000.0 + (lp._vnow if lp is not None else 0.0)


def _urandom(n):
    return _state["rng"].randbytes(n)


def _uuid4():
    return uuid.UUID(int=_state["rng"].getrandbits(128), version=4)


class _TimeShim:
    def __getattr__(self, name):
        return getattr(time, name)

    @staticmethod
    def time():
        return _vtime()

    @staticmethod
    def monotonic():
        return _vmonotonic()


class _ModShim:
    def __init__(self, real, **over):
        self._real = real
        self.__dict__.update(over)

    def __getattr__(self, name):
        return getattr(self._real, name)


class _HappyEyeballsShim:
    """Replacement for the aiohappyeyeballs module inside aiohttp.connector."""

    def __init__(self, real):
        self._real = real
        self.AddrInfoType = real.AddrInfoType
        self.SocketFactoryType = real.SocketFactoryType

    async def start_connection(self, addr_infos, *, local_addr_infos=None,
                               happy_eyeballs_delay=None, interleave=None, loop=None,
                               socket_factory=None):
        lp = loop or asyncio.get_running_loop()
        ai = addr_infos[0]
        addr = (ai[4][0], ai[4][1])
        await lp.net.connect_phase(addr)
        return SimSocket(addr)

    def __getattr__(self, name):
        return getattr(self._real, name)


def install():
    global _installed
    if _installed:
        return
    _installed = True
    import aiohttp

    here = os.path.realpath(aiohttp.__file__)
    if not here.startswith(os.path.realpath(REPO) + os.sep):
        raise SystemExit(f"HARNESS_ERROR: aiohttp imported from {here}, not from {REPO}")
    import aiohttp.connector as connector
    import aiohttp.web_fileresponse as web_fileresponse
    import aiohttp.web_runner as web_runner
    from aiohttp import http_parser, http_writer

    # pure-Python back-ends must be the ones running
    assert http_parser.HttpRequestParser is http_parser.HttpRequestParserPy, "C parser active"
    connector.aiofastnet = None
    web_runner.aiofastnet = None
    web_fileresponse.aiofastnet = None
    connector.aiohappyeyeballs = _HappyEyeballsShim(connector.aiohappyeyeballs)
    connector.monotonic = _vmonotonic
    # modules that do `import time` get a shim whose time()/monotonic() are
    # virtual; the real module stays untouched for the harness itself
    import aiohttp.cookiejar as cookiejar
    import aiohttp.helpers as helpers
    import aiohttp.web_response as web_response
    import aiohttp.client_middleware_digest_auth as digest
    shim = _TimeShim()
    for mod in (cookiejar, helpers, web_response, digest):
        if getattr(mod, "time", None) is time:
            mod.time = shim
    import aiohttp.client as client
    import aiohttp.multipart as multipart
    for mod in (client, digest):
        if getattr(mod, "os", None) is os:
            mod.os = _ModShim(os, urandom=_urandom)
    if getattr(multipart, "uuid", None) is uuid:
        multipart.uuid = _ModShim(uuid, uuid4=_uuid4)
    # aiohttp builds eager tasks with asyncio.Task(...) directly
    asyncio.Task = simloop.SimTask
    asyncio.tasks.Task = simloop.SimTask

    class _RH(connector.ResponseHandler):
        __slots__ = ("_sim_seq",)

        def __init__(self, *a, **kw):
            self._sim_seq = simloop.next_seq()
            super().__init__(*a, **kw)

        def __hash__(self):
            return self._sim_seq

        def __eq__(self, other):
            return self is other

    class _TP(connector._TransportPlaceholder):
        # placeholders share the _acquired set with protocols: same deterministic hashing
        __slots__ = ("_sim_seq",)

        def __init__(self, *a, **kw):
            self._sim_seq = simloop.next_seq()
            super().__init__(*a, **kw)

        def __hash__(self):
            return self._sim_seq

        def __eq__(self, other):
            return self is other

    _TP.__name__ = _TP.__qualname__ = "_TransportPlaceholder"
    connector._TransportPlaceholder = _TP

    _RH.__name__ = "ResponseHandler"
    _RH.__qualname__ = "ResponseHandler"
    connector.ResponseHandler = _RH
    import aiohttp.client_proto as client_proto
    _state["RH"] = _RH
    _state["RH_base"] = client_proto.ResponseHandler

    # the default resolver would build aiodns on the loop
    def _no_default_resolver(*a, **kw):
        raise RuntimeError("HARNESS: pass resolver=SimResolver(...) explicitly")

    connector.DefaultResolver = _no_default_resolver


def begin_run(loop, run_seed: int):
    """Per-run reseeding of every PRNG-like source."""
    _state["loop"] = loop
    _state["rng"] = random.Random(run_seed ^ 0x5EED)
    random.seed(run_seed)
    try:
        from aiohttp._websocket.writer import WebSocketWriter

        f = WebSocketWriter.__init__
        cands = list((f.__kwdefaults__ or {}).values()) + list(f.__defaults__ or ())
        for r in cands:
            if isinstance(r, random.Random):
                r.seed(run_seed ^ 0xA5A5)
    except Exception:
        pass


def end_run():
    _state["loop"] = None
