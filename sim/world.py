"""A World is one simulated run: fresh SimLoop + SimNet, seams armed, gc off,
teardown guaranteed.  Property modules use it as

    with World(ch, run_seed) as w:
        ... w.loop / w.net ...
"""
from __future__ import annotations

import gc
import warnings

from . import seams
from .loop import new_loop
from .net import SimNet


_frozen = False



class HangDetected(BaseException):
    pass


class World:
    def __init__(self, choices, run_seed: int, *, log_events: bool = False):
        seams.install()
        self.ch = choices
        self.run_seed = run_seed
        self.log_events = log_events
        self.loop = None
        self.net = None

    def __enter__(self):
        global _frozen
        if not _frozen:
            # everything imported so far becomes permanent: per-run collections
            # then only walk what the run itself allocated
            gc.collect()
            gc.freeze()
            _frozen = True
        gc.disable()
        warnings.simplefilter("ignore")
        self.loop = new_loop(self.ch, log_events=self.log_events)
        self.net = SimNet(self.loop, self.ch)
        # code under test that draws from `random` (the connector's waiter shuffle, mask keys, boundaries) gets a
        # per-run seed that is itself a recorded choice: it varies over the search and replays from the tape
        seed = self.run_seed or self.ch.draw("prng_seed", 0, (1 << 30) - 1)
        seams.begin_run(self.loop, seed)
        return self

    def __exit__(self, et, ev, tb):
        try:
            if et is None or not issubclass(et, HangDetected):
                self.loop.teardown()
            else:
                try:
                    self.loop._ready.clear()
                    self.loop._scheduled.clear()
                    self.loop.close()
                except Exception:
                    pass
        finally:
            seams.end_run()
            # process-wide caches inside aiohttp would keep whole simulated worlds alive
            try:
                import sys as _sys
                wa = _sys.modules.get("aiohttp.web_app")
                if wa is not None:
                    wa._cached_build_middleware.cache_clear()
            except Exception:
                pass
            gc.enable()
        return False

    # convenience ----------------------------------------------------------
    def stats(self) -> dict:
        lp = self.loop
        return {
            "steps": lp.steps,
            "vtime": lp._vnow,
            "faults": dict(lp.faults),
            "digest": lp.digest(),
            "sig": lp.signature(),
        }
