"""SimLoop: a virtual-time asyncio event loop whose I/O, executor, signals and
tie-breaks are decided by a Choices tape.  See DESIGN.md section 2.1.
"""
from __future__ import annotations

import asyncio
import collections
import gc
import hashlib
import heapq
import itertools
from asyncio import events, futures

_seq = itertools.count(1)
_HANG = [False]


def reset_seq() -> None:
    global _seq
    _seq = itertools.count(1)


def next_seq() -> int:
    return next(_seq)


_CTask = asyncio.tasks.Task  # C implementation captured before any rebinding
_CFuture = asyncio.futures.Future


class SimFuture(_CFuture):
    """Future whose hash is a per-run sequence number (set iteration order)."""

    def __init__(self, *a, **kw):
        super().__init__(*a, **kw)
        self._sim_seq = next(_seq)

    def __hash__(self):
        return self._sim_seq

    def __eq__(self, other):
        return self is other


class SimTask(_CTask):
    def __init__(self, coro, *, loop=None, name=None, context=None, eager_start=False):
        self._sim_seq = next(_seq)
        if name is None:
            name = "T"
        super().__init__(
            coro, loop=loop, name=name, context=context, eager_start=eager_start
        )

    def __hash__(self):
        return self._sim_seq

    def __eq__(self, other):
        return self is other


class Quiescent(Exception):
    pass


def _handle_kind(handle) -> str:
    cb = handle._callback
    slf = getattr(cb, "__self__", None)
    if slf is not None and isinstance(slf, _CTask):
        coro = slf.get_coro()
        q = getattr(coro, "__qualname__", None) or type(coro).__name__
        return "t:" + q
    q = getattr(cb, "__qualname__", None)
    if q is None:
        f = getattr(cb, "func", None)  # functools.partial
        q = getattr(f, "__qualname__", None) or type(cb).__name__
    return "c:" + q


class SimServer:
    """What loop.create_server returns."""

    def __init__(self, loop, net, addrs, factory, ssl):
        self._loop = loop
        self._net = net
        self.addrs = addrs
        self.factory = factory
        self.ssl = ssl
        self._serving = True
        self.sockets = [_FakeSock(a) for a in addrs]
        self.transports: list = []

    def is_serving(self):
        return self._serving

    def close(self):
        if not self._serving:
            return
        self._serving = False
        for a in self.addrs:
            self._net.listeners.pop(a, None)
        self.sockets = []

    def close_clients(self):
        for t in list(self.transports):
            t.close()

    def abort_clients(self):
        for t in list(self.transports):
            t.abort()

    async def wait_closed(self):
        return None

    async def start_serving(self):
        return None

    def get_loop(self):
        return self._loop

    async def __aenter__(self):
        return self

    async def __aexit__(self, *a):
        self.close()


class _FakeSock:
    def __init__(self, addr):
        self._addr = addr
        self.family = 2

    def getsockname(self):
        return self._addr

    def getpeername(self):
        return self._addr

    def fileno(self):
        return -1

    def close(self):
        pass


class SimLoop(asyncio.BaseEventLoop):
    def __init__(self, choices, *, log_events: bool = False):
        super().__init__()
        self.choices = choices
        self._vnow = 0.0
        self._clock_resolution = 1e-9
        self.steps = 0
        self.step_cap = 200_000
        self.vt_cap = 1e9
        self.idle = False  # set when nothing at all is left to do
        self.capped = None  # "steps" / "vtime" when a cap ended the run
        self.step_hooks: list = []  # callables run after every handle
        self.at_step: dict[int, list] = {}  # step index -> callables run before it
        self.exc_contexts: list[dict] = []  # call_exception_handler records
        self.log_events = log_events
        self.event_log: list[str] = []
        self._sig = hashlib.blake2b(digest_size=16)
        self._sig_kinds = hashlib.blake2b(digest_size=8)
        self.signal_handlers: dict[int, tuple] = {}
        self.net = None  # SimNet, set by world
        self.executor_jobs = 0
        self.exec_fail_hook = None  # fn(func, args) -> Exception|None
        self.faults: collections.Counter = collections.Counter()
        self.wall_clock_skew = 0.0
        self.set_task_factory(self._task_factory)
        self.set_exception_handler(self._record_exception)
        self._sim_pending = 0  # pending simulator (I/O) events
        self._sim_fire_b = self._sim_fire

    # -- clock -------------------------------------------------------------
    def time(self):
        return self._vnow

    # -- factories ---------------------------------------------------------
    @staticmethod
    def _task_factory(loop, coro, **kw):
        return SimTask(coro, loop=loop, **kw)

    def create_future(self):
        return SimFuture(loop=self)

    # -- logging -----------------------------------------------------------
    def note(self, kind: str, detail: str = "") -> None:
        """Record a simulator event in the log/digest (never draws)."""
        s = f"{self.steps}|{self._vnow:.6f}|{kind}|{detail}"
        self._sig.update(s.encode("utf-8", "backslashreplace"))
        self._sig_kinds.update(kind.encode())
        if self.log_events:
            self.event_log.append(s)

    def digest(self) -> str:
        return self._sig.hexdigest()

    def signature(self) -> str:
        """Interleaving signature: sequence of handle/sim-event kinds only."""
        return self._sig_kinds.hexdigest()

    def _record_exception(self, loop, context):
        exc = context.get("exception")
        rec = {
            "message": context.get("message", ""),
            "exc_type": type(exc).__name__ if exc is not None else None,
            "exc": repr(exc)[:300] if exc is not None else None,
            "step": self.steps,
        }
        if exc is not None and exc.__traceback__ is not None:
            tb = exc.__traceback__
            last = None
            while tb is not None:
                fn = tb.tb_frame.f_code.co_filename
                if "/aiohttp/" in fn:
                    last = (fn.rsplit("/", 1)[-1], tb.tb_frame.f_code.co_name)
                tb = tb.tb_next
            rec["frame"] = last
        self.exc_contexts.append(rec)
        self.note("loop_exc", f"{rec['exc_type']}:{rec['message'][:60]}")

    # -- simulator events --------------------------------------------------
    def sim_call_later(self, delay: float, fn, *args):
        """An I/O-like simulator event (network delivery, executor completion)."""
        h = self.call_at(self._vnow + max(0.0, delay), self._sim_fire_b, fn, args)
        self._sim_pending += 1
        return h

    def _sim_fire(self, fn, args):
        self._sim_pending -= 1
        fn(*args)

    # -- core --------------------------------------------------------------
    def _process_events(self, event_list):
        pass

    def _write_to_self(self):
        pass

    def _run_once(self):
        sched = self._scheduled
        fire = self._sim_fire_b
        while sched and sched[0]._cancelled:
            self._timer_cancelled_count -= 1
            h = heapq.heappop(sched)
            h._scheduled = False
            if (h._callback is fire):
                self._sim_pending -= 1
        ready = self._ready
        if not ready and not self._stopping:
            if not sched:
                self.idle = True
                self._stopping = True
                return
            when = sched[0]._when
            if when > self.vt_cap:
                self.capped = "vtime"
                self._stopping = True
                return
            if when > self._vnow:
                self._vnow = when
        if sched:
            end_time = self._vnow + self._clock_resolution
            due = None
            vnow = self._vnow
            # `<= vnow` matters once virtual time is so large that vnow + 1e-9 == vnow
            while sched and (sched[0]._when <= vnow or sched[0]._when < end_time):
                h = heapq.heappop(sched)
                h._scheduled = False
                if h._cancelled:
                    self._timer_cancelled_count -= 1
                    if (h._callback is fire):
                        self._sim_pending -= 1
                    continue
                if due is None:
                    due = [h]
                else:
                    due.append(h)
            if due is not None:
                if len(due) > 1:
                    # Ties between simultaneous I/O events and timers are not
                    # ordered by a real loop; the tape decides.
                    if any((h._callback is fire) for h in due):
                        mode = self.choices.draw("tie", 0, 2)
                        if mode == 1:
                            due.sort(key=lambda h: not (h._callback is fire))
                            self.faults["tie_io_first"] += 1
                        elif mode == 2:
                            due.sort(key=lambda h: (h._callback is fire))
                            self.faults["tie_timer_first"] += 1
                ready.extend(due)
        ntodo = len(ready)
        hooks = self.step_hooks
        at_step = self.at_step
        for _ in range(ntodo):
            handle = ready.popleft()
            if handle._cancelled:
                continue
            self.steps += 1
            if at_step:
                acts = at_step.pop(self.steps, None)
                if acts:
                    for a in acts:
                        a()
                    if handle._cancelled:
                        continue
            k = _handle_kind(handle)
            self._sig_kinds.update(k.encode())
            if self.log_events:
                self.event_log.append(f"{self.steps}|{self._vnow:.6f}|run|{k}")
            handle._run()
            if hooks:
                for hk in hooks:
                    hk()
            if _HANG[0]:
                _HANG[0] = False
                from .world import HangDetected
                raise HangDetected("wall-clock watchdog")
            if self.steps >= self.step_cap:
                self.capped = "steps"
                self._stopping = True
                break
        handle = None

    # -- running -----------------------------------------------------------
    def run_sim(self, main=None, *, vt_cap: float | None = None, step_cap: int | None = None):
        """Run until `main` (coroutine/future) is done, or the loop is idle,
        or a cap is hit.  Returns the main task (may be pending)."""
        if vt_cap is not None:
            self.vt_cap = vt_cap
        if step_cap is not None:
            self.step_cap = step_cap
        self.idle = False
        self.capped = None
        task = None
        if main is not None:
            task = main if futures.isfuture(main) else self.create_task(main, name="main")
            task.add_done_callback(self._stop_cb)
        try:
            self.run_forever()
        finally:
            if task is not None:
                task.remove_done_callback(self._stop_cb)
        return task

    def _stop_cb(self, fut):
        self.stop()

    def advance(self, seconds: float, step_cap: int | None = None):
        """Run everything scheduled within the next `seconds` of virtual time."""
        target = self._vnow + seconds
        self.run_sim(None, vt_cap=target, step_cap=step_cap)
        if self._vnow < target:
            self._vnow = target

    def settle(self, vt: float = 0.0):
        """Run until nothing is ready and no event is due within vt seconds."""
        self.run_sim(None, vt_cap=self._vnow + vt)

    def teardown(self):
        """Cancel every remaining task, drain, close (DESIGN 2.1)."""
        try:
            for _ in range(5):
                tasks = [t for t in asyncio.all_tasks(self) if not t.done()]
                if not tasks:
                    break
                for t in tasks:
                    t.cancel()
                self.step_cap = self.steps + 20000
                self.run_sim(None, vt_cap=self._vnow + 1.0)
            self.step_hooks.clear()
            self.at_step.clear()
            self._ready.clear()
            for h in self._scheduled:
                h._scheduled = False
            self._scheduled.clear()
            self.run_sim(self.shutdown_asyncgens(), vt_cap=self._vnow + 1.0)
        finally:
            self._ready.clear()
            self._scheduled.clear()
            if not self.is_closed():
                self.close()
            gc.collect()

    # -- executor ----------------------------------------------------------
    def run_in_executor(self, executor, func, *args):
        self._check_closed()
        fut = self.create_future()
        self.executor_jobs += 1
        ch = self.choices
        early = ch.draw("exec_mode", 0, 1) == 0
        delay = ch.draw("exec_delay", 0, 3) * 0.001
        box = {}

        def run():
            try:
                exc = self.exec_fail_hook(func, args) if self.exec_fail_hook else None
                if exc is not None:
                    raise exc
                box["r"] = func(*args)
            except BaseException as e:  # delivered through the future
                box["e"] = e

        def deliver():
            if not early:
                run()
            self.note("exec_done", getattr(func, "__qualname__", "fn"))
            if fut.cancelled():
                return
            if "e" in box:
                fut.set_exception(box["e"])
            else:
                fut.set_result(box["r"])

        if early:
            run()
            self.faults["exec_early"] += 1
        else:
            self.faults["exec_late"] += 1
        self.sim_call_later(delay, deliver)
        return fut

    def set_default_executor(self, executor):
        pass

    async def shutdown_default_executor(self, timeout=None):
        return None

    # -- signals -----------------------------------------------------------
    def add_signal_handler(self, sig, callback, *args):
        self.signal_handlers[int(sig)] = (callback, args)

    def remove_signal_handler(self, sig):
        return self.signal_handlers.pop(int(sig), None) is not None

    def deliver_signal(self, sig) -> bool:
        ent = self.signal_handlers.get(int(sig))
        if ent is None:
            return False
        self.note("signal", str(int(sig)))
        self.faults["signal"] += 1
        self.call_soon(ent[0], *ent[1])
        return True

    # -- network -----------------------------------------------------------
    async def create_server(self, protocol_factory, host=None, port=None, *, ssl=None,
                            sock=None, backlog=100, reuse_address=None, reuse_port=None,
                            start_serving=True, **kw):
        return self.net.listen(protocol_factory, host, port, ssl=ssl)

    async def create_unix_server(self, protocol_factory, path=None, *, ssl=None, **kw):
        return self.net.listen(protocol_factory, "unix:" + str(path), 0, ssl=ssl)

    async def create_connection(self, protocol_factory, host=None, port=None, *, ssl=None,
                                sock=None, server_hostname=None, **kw):
        if sock is not None:
            addr = sock.sim_addr
        else:
            addr = (host, port)
            await self.net.connect_phase(addr)
        return await self.net.establish(addr, protocol_factory, ssl=ssl,
                                        server_hostname=server_hostname)

    async def create_unix_connection(self, protocol_factory, path=None, *, ssl=None, **kw):
        addr = ("unix:" + str(path), 0)
        await self.net.connect_phase(addr)
        return await self.net.establish(addr, protocol_factory, ssl=ssl)

    async def sendfile(self, transport, file, offset=0, count=None, *, fallback=True):
        mode = getattr(self.net, "sendfile_mode", "unsupported")
        if mode == "unsupported":
            raise NotImplementedError("sendfile not supported by SimLoop")
        return await self.net.sendfile(transport, file, offset, count)

    async def start_tls(self, *a, **kw):
        raise NotImplementedError("TLS is not simulated")

    async def getaddrinfo(self, host, port, *, family=0, type=0, proto=0, flags=0):
        return [(2, 1, 6, "", (host, port))]

    async def getnameinfo(self, sockaddr, flags=0):
        return (sockaddr[0], str(sockaddr[1]))

    def close(self):
        if self.is_closed():
            return
        super().close()


def new_loop(choices, **kw) -> SimLoop:
    reset_seq()
    loop = SimLoop(choices, **kw)
    events.set_event_loop(loop)
    return loop
