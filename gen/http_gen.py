"""Grammar-based generator of HTTP/1.x request streams and smuggling mutations
(DESIGN.md C01).  All byte strings are returned as latin-1 `str` so scenarios
stay JSON-serialisable; use enc()/dec().
"""
from __future__ import annotations


def enc(s: str) -> bytes:
    return s.encode("latin-1")


def dec(b: bytes) -> str:
    return bytes(b).decode("latin-1")


METHODS = ["GET", "GET", "GET", "POST", "POST", "PUT", "DELETE", "HEAD", "OPTIONS", "PATCH", "M-SEARCH", "get"]
TARGETS = ["/", "/p", "/a/b?x=1&y=2", "/%41%2F?q=%20", "/p;v=1/q", "/idx.html?a=b=c", "/\xe4\xf6", "//double", "/p?"]
ABS_TARGETS = ["http://h.test/p?q=1", "http://h.test", "https://other.test:8443/x", "http://u:p@h.test/"]
BODY_TEXT = "GET /smuggled HTTP/1.1\r\nHost: evil\r\n\r\n0\r\n\r\n" + "abcdefghij" * 8 + "\r\n\n\r" + "\x00\xff\x80"


def body_bytes(rng, n):
    off = rng.randint(0, len(BODY_TEXT) - 1)
    s = (BODY_TEXT[off:] + BODY_TEXT * (n // len(BODY_TEXT) + 1))[:n]
    return s


def gen_request(rng, idx, *, allow_close=False, body_max=300):
    """A valid request as a structured dict."""
    version = "HTTP/1.1" if rng.random() < 0.88 else "HTTP/1.0"
    method = rng.choice(METHODS)
    r = rng.random()
    if method == "OPTIONS" and r < 0.3:
        target = "*"
    elif r < 0.1:
        target = rng.choice(ABS_TARGETS)
    else:
        target = rng.choice(TARGETS)
    headers = []
    if version == "HTTP/1.1" or rng.random() < 0.5:
        headers.append(["Host", "h.test"])
    headers.append(["X-Tag", f"r{idx}"])
    extras = [
        ["Accept", "*/*"], ["User-Agent", "sim/1.0"], ["X-Empty", ""], ["X-Obs", "caf\xe9 \xff"],
        ["X-Tab", "a\tb"], ["X-Long", "v" * rng.choice([100, 500, 2000])], ["X-Dup", "1"], ["X-Dup", "2"],
        ["Cookie", "a=1; b=2"], ["X-Colon", "a:b:c"], ["x-lower", "ok"], ["X-Sp", "  padded  "],
        ["Content-Type", "text/plain"], ["Accept-Encoding", "gzip, deflate"],
    ]
    for _ in range(rng.randint(0, 5)):
        headers.append(list(rng.choice(extras)))
    # a policy singleton may appear at most once in a valid request
    seen = set()
    hh = []
    for h in headers:
        k = h[0].lower()
        if k in ("content-type", "user-agent") and k in seen:
            continue
        seen.add(k)
        hh.append(h)
    headers = hh
    rng.shuffle(headers)
    body = {"kind": "none"}
    if method.upper() in ("POST", "PUT", "PATCH", "DELETE") or rng.random() < 0.15:
        r = rng.random()
        if r < 0.45:
            n = rng.choice([0, 1, 5, 37, 100, body_max])
            body = {"kind": "cl", "data": body_bytes(rng, n)}
        elif r < 0.9 and version == "HTTP/1.1":
            # the number of chunk boundaries matters to flow control (StreamReader pauses above
            # max(4, read_bufsize // 16) buffered boundaries): straddle 4/5 often, 4096/4097 sometimes
            nch = rng.choice([0, 1, 2, 3, 4, 5, 5, 5, 6, 6, 7, 9, 17]) if rng.random() < 0.985 else rng.choice([4096, 4097, 4098])
            chunks = [rng.choice([1, 2, 7, 16, 50] if nch <= 5 and rng.random() < 0.6 else [1, 1, 2, 3]) for _ in range(nch)]
            exts = [rng.choice(["", "", ";a=b", ";a", ';a="q v"', ";x=1;y=2"]) for _ in range(nch + 1)]
            trailers = [["X-T%d" % i, "tv%d" % i] for i in range(rng.choice([0, 0, 1, 2]))]
            body = {"kind": "chunked", "data": body_bytes(rng, sum(chunks)), "chunks": chunks, "exts": exts,
                    "trailers": trailers, "upper": rng.random() < 0.3, "zeros": rng.choice([0, 0, 3]),
                    "te": rng.choice(["chunked", "chunked", "Chunked", "CHUNKED"])}
    close = allow_close and rng.random() < 0.5
    if close:
        headers.append(["Connection", "close"])
    elif version == "HTTP/1.0":
        headers.append(["Connection", "keep-alive"])
    elif rng.random() < 0.07:
        # an upgrade offer the handlers of the checks decline; framing is unaffected (RFC 9110 7.8), a body
        # must still be read as the body and the connection goes on as HTTP/1.1
        headers.append(["Connection", rng.choice(["Upgrade", "upgrade", "keep-alive, Upgrade"])])
        headers.append(["Upgrade", rng.choice(["websocket", "WebSocket", "tcp", "h2c", "foo/2"])])
    return {"method": method, "target": target, "version": version, "headers": headers, "body": body}


def segments(req):
    """-> list of [kind, text, terminator]"""
    segs = [["rl", f"{req['method']} {req['target']} {req['version']}", "\r\n"]]
    b = req["body"]
    hdrs = [list(h) for h in req["headers"]]
    if b["kind"] == "cl":
        hdrs.append(["Content-Length", str(len(b["data"]))])
    elif b["kind"] == "chunked":
        hdrs.append(["Transfer-Encoding", b.get("te", "chunked")])
    for n, v in hdrs:
        segs.append(["h", f"{n}: {v}" if v != "" else f"{n}:", "\r\n"])
    segs.append(["end", "", "\r\n"])
    if b["kind"] == "cl":
        if b["data"]:
            segs.append(["body", b["data"], ""])
    elif b["kind"] == "chunked":
        pos = 0
        for i, n in enumerate(b["chunks"]):
            hx = "%x" % n
            if b.get("upper"):
                hx = hx.upper()
            hx = "0" * b.get("zeros", 0) + hx
            segs.append(["csize", hx + b["exts"][i], "\r\n"])
            segs.append(["cdata", b["data"][pos:pos + n], "\r\n"])
            pos += n
        segs.append(["clast", "0" + b["exts"][-1], "\r\n"])
        for n, v in b["trailers"]:
            segs.append(["trailer", f"{n}: {v}", "\r\n"])
        segs.append(["tend", "", "\r\n"])
    return segs


def join(segs) -> str:
    return "".join(s[1] + s[2] for s in segs)


def serialize(req) -> str:
    return join(segments(req))


# ---------------------------------------------------------------------------
# mutations: each takes (segs, rng) and returns True if it applied


def _find(segs, kind):
    return [i for i, s in enumerate(segs) if s[0] == kind]


def _hdr_index(segs, name):
    for i, s in enumerate(segs):
        if s[0] == "h" and s[1].lower().startswith(name.lower() + ":"):
            return i
    return None


def _insert_header(segs, text, rng, where=None):
    hs = _find(segs, "h")
    end = _find(segs, "end")[0]
    pos = rng.choice(hs + [end]) if where is None else where
    segs.insert(pos, ["h", text, "\r\n"])


def _ensure_cl_body(segs, rng, n=5):
    """make the request carry a Content-Length body; returns index of CL header"""
    i = _hdr_index(segs, "Content-Length")
    if i is not None:
        return i
    if _hdr_index(segs, "Transfer-Encoding") is not None:
        return None
    end = _find(segs, "end")[0]
    segs.insert(end, ["h", f"Content-Length: {n}", "\r\n"])
    segs.insert(end + 2, ["body", "hello"[:n], ""])
    return end


def _ensure_chunked(segs, rng):
    if _hdr_index(segs, "Transfer-Encoding") is not None:
        return True
    if _hdr_index(segs, "Content-Length") is not None:
        return False
    if not segs[0][1].endswith("HTTP/1.1"):
        return False
    end = _find(segs, "end")[0]
    segs.insert(end, ["h", "Transfer-Encoding: chunked", "\r\n"])
    segs[end + 2:end + 2] = [["csize", "5", "\r\n"], ["cdata", "hello", "\r\n"], ["clast", "0", "\r\n"], ["tend", "", "\r\n"]]
    return True


def m_cl_te(segs, rng):
    if _ensure_chunked(segs, rng):
        _insert_header(segs, "Content-Length: 5", rng)
        return True
    i = _ensure_cl_body(segs, rng)
    if i is None:
        return False
    _insert_header(segs, "Transfer-Encoding: chunked", rng)
    return True


def _cl_variant(value_fn):
    def m(segs, rng):
        i = _ensure_cl_body(segs, rng)
        if i is None:
            return False
        n = segs[i][1].split(":", 1)[1].strip()
        segs[i][1] = "Content-Length: " + value_fn(n, rng)
        return True
    return m


def m_cl_repeat(segs, rng):
    i = _ensure_cl_body(segs, rng)
    if i is None:
        return False
    n = segs[i][1].split(":", 1)[1].strip()
    _insert_header(segs, "Content-Length: " + rng.choice([n, str(int(n) + 1), "0"]), rng)
    return True


def _te_variant(value):
    def m(segs, rng):
        if not _ensure_chunked(segs, rng):
            return False
        i = _hdr_index(segs, "Transfer-Encoding")
        segs[i][1] = "Transfer-Encoding: " + value
        return True
    return m


def m_te_two_fields(segs, rng):
    if not _ensure_chunked(segs, rng):
        return False
    _insert_header(segs, "Transfer-Encoding: " + rng.choice(["chunked", "gzip", "identity"]), rng)
    return True


def _line_kinds(segs, kinds):
    return [i for i, s in enumerate(segs) if s[0] in kinds and s[2] == "\r\n"]


def m_bare_lf(segs, rng):
    c = _line_kinds(segs, ("rl", "h", "end", "csize", "clast", "trailer", "tend", "cdata"))
    i = rng.choice(c)
    segs[i][2] = "\n"
    return True


def m_bare_cr_terminator(segs, rng):
    c = _line_kinds(segs, ("rl", "h", "csize", "clast", "trailer"))
    i = rng.choice(c)
    segs[i][2] = "\r"
    return True


def _before_terminator(kinds, chars):
    """A stray LF / CR / CR LF-less byte directly in front of an otherwise intact CRLF."""
    def m(segs, rng):
        if any(k in ("csize", "clast", "trailer") for k in kinds) and not _ensure_chunked(segs, rng):
            return False
        c = [i for i in _line_kinds(segs, kinds) if segs[i][2] == "\r\n"]
        if not c:
            return False
        i = rng.choice(c)
        segs[i][1] = segs[i][1] + rng.choice(chars)
        return True
    return m


def _ctl_in(kinds, chars):
    def m(segs, rng):
        c = [i for i, s in enumerate(segs) if s[0] in kinds and len(s[1]) > 0]
        if not c:
            return False
        i = rng.choice(c)
        t = segs[i][1]
        p = rng.randint(0, len(t))
        segs[i][1] = t[:p] + rng.choice(chars) + t[p:]
        return True
    return m


def m_ctl_in_value(segs, rng):
    hs = _find(segs, "h")
    i = rng.choice(hs)
    n, _, v = segs[i][1].partition(":")
    ch = rng.choice(["\x00", "\x01", "\r", "\n", "\x0b", "\x0c", "\x1f", "\x7f"])
    p = rng.randint(0, len(v))
    segs[i][1] = n + ":" + v[:p] + "x" + ch + "y" + v[p:]
    return True


def m_ctl_in_name(segs, rng):
    hs = _find(segs, "h")
    i = rng.choice(hs)
    n, _, v = segs[i][1].partition(":")
    ch = rng.choice(["\x00", "\x01", "\r", "\x7f", "(", "@", " ", "\x80", "\xe9"])
    p = rng.randint(1, max(1, len(n) - 1))
    segs[i][1] = n[:p] + ch + n[p:] + ":" + v
    return True


def m_obs_fold(segs, rng):
    hs = _find(segs, "h")
    i = rng.choice(hs)
    segs.insert(i + 1, ["h", rng.choice([" ", "\t"]) + "folded continuation", "\r\n"])
    return True


def m_ws_before_colon(segs, rng):
    hs = _find(segs, "h")
    i = rng.choice(hs)
    n, _, v = segs[i][1].partition(":")
    segs[i][1] = n + rng.choice([" ", "\t", "  "]) + ":" + v
    return True


def m_ws_before_name(segs, rng):
    hs = _find(segs, "h")
    i = hs[0]
    segs[i][1] = rng.choice([" ", "\t"]) + segs[i][1]
    return True


def m_empty_name(segs, rng):
    _insert_header(segs, ": novalue", rng)
    return True


def m_no_colon(segs, rng):
    _insert_header(segs, rng.choice(["nocolonhere", "GET / HTTP/1.1", "X-A"]), rng)
    return True


def _chunk_size_variant(fn):
    def m(segs, rng):
        if not _ensure_chunked(segs, rng):
            return False
        c = _find(segs, "csize") + _find(segs, "clast")
        i = rng.choice(c)
        segs[i][1] = fn(segs[i][1], rng)
        return True
    return m


def m_chunk_ext_ctl(segs, rng):
    if not _ensure_chunked(segs, rng):
        return False
    c = _find(segs, "csize") + _find(segs, "clast")
    i = rng.choice(c)
    ch = rng.choice(["\n", "\r", "\x00", "\x01", "\x7f"])
    segs[i][1] = segs[i][1].split(";")[0] + ";a" + ch + "b"
    return True


def m_chunk_data_long(segs, rng):
    if not _ensure_chunked(segs, rng):
        return False
    c = _find(segs, "cdata")
    if not c:
        return False
    i = rng.choice(c)
    segs[i][1] = segs[i][1] + rng.choice(["X", "\r", "\n", "XY"])
    return True


def m_chunk_data_short(segs, rng):
    if not _ensure_chunked(segs, rng):
        return False
    c = [i for i in _find(segs, "cdata") if len(segs[i][1]) >= 2]
    if not c:
        return False
    i = rng.choice(c)
    segs[i][1] = segs[i][1][:-1]
    return True


def m_chunk_no_crlf(segs, rng):
    if not _ensure_chunked(segs, rng):
        return False
    c = _find(segs, "cdata")
    if not c:
        return False
    i = rng.choice(c)
    segs[i][2] = rng.choice(["", "\r", "\n", "\n\r", "\r\r\n"])
    return True


def m_bad_trailer(segs, rng):
    if not _ensure_chunked(segs, rng):
        return False
    t = _find(segs, "tend")[0]
    segs.insert(t, ["trailer", rng.choice(["bad trailer", " X: folded", "X : v", ": v", "X: a\x00b", "X\x01: v"]), "\r\n"])
    return True


def m_many_trailers(segs, rng):
    if not _ensure_chunked(segs, rng):
        return False
    t = _find(segs, "tend")[0]
    for k in range(rng.choice([130, 200])):
        segs.insert(t, ["trailer", f"X-T{k}: v", "\r\n"])
    return True


def m_framing_trailer(segs, rng):
    if not _ensure_chunked(segs, rng):
        return False
    t = _find(segs, "tend")[0]
    segs.insert(t, ["trailer", rng.choice(["Content-Length: 10", "Transfer-Encoding: chunked", "Host: evil"]), "\r\n"])
    return True


def m_host_missing(segs, rng):
    i = _hdr_index(segs, "Host")
    if i is None:
        return False
    del segs[i]
    return True


def m_host_repeat(segs, rng):
    _insert_header(segs, "Host: " + rng.choice(["h.test", "evil.test"]), rng)
    if _hdr_index(segs, "Host") is None:
        return False
    return sum(1 for s in segs if s[0] == "h" and s[1].lower().startswith("host:")) >= 2


def _rl_variant(fn):
    def m(segs, rng):
        method, target, version = segs[0][1].split(" ", 2)
        segs[0][1] = fn(method, target, version, rng)
        return True
    return m


def m_many_headers(segs, rng):
    end = _find(segs, "end")[0]
    for k in range(rng.choice([126, 127, 128, 129, 140])):
        segs.insert(end, ["h", f"X-N{k}: v", "\r\n"])
    return True


def m_long_field(segs, rng):
    n = rng.choice([8180, 8190, 8191, 8200, 9000])
    _insert_header(segs, "X-Big: " + "b" * n, rng)
    return True


def m_long_target(segs, rng):
    method, target, version = segs[0][1].split(" ", 2)
    n = rng.choice([8170, 8190, 8191, 8300])
    segs[0][1] = f"{method} /{'t' * n} {version}"
    return True


def m_form_method_cross(segs, rng):
    """Request-target FORM crossed with METHOD (RFC 9112 3.2.1-3.2.4): asterisk-form with a method other than
    OPTIONS, authority-form with a method other than CONNECT, CONNECT with origin- / absolute- / asterisk-form;
    plus the two legal special pairs (OPTIONS *, OPTIONS with absolute-form) as controls.  Headers and body
    framing of the request stay as they are (so 'POST *' keeps its body)."""
    method, target, version = segs[0][1].split(" ", 2)
    other = [m for m in METHODS + ["TRACE", "PROPFIND", "connectx", "OPTION", "OPTIONSX"] if m.upper() not in ("OPTIONS", "CONNECT")]
    kind = rng.choice(["asterisk", "asterisk", "asterisk", "authority", "connect_origin", "connect_absolute",
                       "connect_asterisk", "options_asterisk", "options_absolute", "connect_bad_authority", "connect_bad_authority"])
    if kind == "asterisk":
        m = method if method.upper() not in ("OPTIONS", "CONNECT") and rng.random() < 0.6 else rng.choice(other)
        t = "*"
    elif kind == "authority":
        m = method if method.upper() != "CONNECT" and rng.random() < 0.6 else rng.choice(other + ["OPTIONS"])
        t = rng.choice(["h.test:80", "h.test", "10.0.0.1:80", "[::1]:80", "u@h.test:80"])
    elif kind == "connect_origin":
        m, t = rng.choice(["CONNECT", "connect"]), rng.choice(TARGETS[:6] + ["/h.test:80"])
    elif kind == "connect_absolute":
        m, t = "CONNECT", rng.choice(ABS_TARGETS[:3])
    elif kind == "connect_asterisk":
        m, t = "CONNECT", "*"
    elif kind == "connect_bad_authority":
        # authority-form whose host or port is no host / no port (a parser that builds the URL lazily notices late)
        m, t = "CONNECT", rng.choice(["h.test:b", "[::1]x:1", "h.test:999999", "h.test:-1", "h.test:80x", "[::1:80", "h.test:"])
    elif kind == "options_asterisk":
        m, t = rng.choice(["OPTIONS", "options"]), "*"
    else:
        m, t = "OPTIONS", rng.choice(ABS_TARGETS[:2] + ["http://h.test/*"])
    segs[0][1] = f"{m} {t} {version}"
    return True


MUTATIONS = {
    "cl_te": m_cl_te,
    "cl_repeat": m_cl_repeat,
    "cl_list": _cl_variant(lambda n, r: f"{n}, {n}"),
    "cl_plus": _cl_variant(lambda n, r: "+" + n),
    "cl_minus": _cl_variant(lambda n, r: "-" + n),
    "cl_space": _cl_variant(lambda n, r: n + " " + n),
    "cl_hex": _cl_variant(lambda n, r: "0x" + n),
    "cl_float": _cl_variant(lambda n, r: n + ".0"),
    "cl_empty": _cl_variant(lambda n, r: ""),
    "cl_nonascii_digit": _cl_variant(lambda n, r: r.choice(["\xd9\xa5", "\xef\xbc\x95", "\xb2"])),
    "cl_underscore": _cl_variant(lambda n, r: "1_0"),
    "cl_many_digits": _cl_variant(lambda n, r: r.choice(["0" * 4400 + n, "9" * 4301, "1" + "0" * 5000])),
    "te_twice": _te_variant("chunked, chunked"),
    "te_xchunked": _te_variant("xchunked"),
    "te_chunked_identity": _te_variant("chunked, identity"),
    "te_identity": _te_variant("identity"),
    "te_gzip": _te_variant("gzip"),
    "te_gzip_chunked": _te_variant("gzip, chunked"),
    "te_ows": _te_variant("chunked \t"),
    "te_no_coding": lambda segs, rng: _te_variant(rng.choice(["", " ", " \t ", ",", " , "]))(segs, rng),
    "stray_eol_before_request": lambda segs, rng: bool(segs.insert(0, ["junk", "", rng.choice(["\n", "\r", "\r\n\n", "\n\r\n", "\r\r\n"])]) or True),
    "crlf_before_request": lambda segs, rng: bool(segs.insert(0, ["junk", "", rng.choice(["\r\n", "\r\n\r\n"])]) or True),
    "te_empty_first": _te_variant(",chunked"),
    "te_empty_last": _te_variant("chunked,"),
    "te_vtab": _te_variant("\x0bchunked"),
    "te_nonascii": _te_variant("chun\xe4ked"),
    "te_kelvin": _te_variant("chun\xe2\x84\xaaed"),
    "te_quoted": _te_variant('"chunked"'),
    # Unicode white space (UTF-8 encoded) next to the coding name: not OWS, so not "chunked"
    "te_unicode_space": lambda segs, rng: _te_variant(
        (lambda sp, w: {0: sp + "chunked", 1: "chunked" + sp, 2: sp + "chunked" + sp, 3: "gzip, " + sp + "chunked"}[w])(
            rng.choice(["\u0085", "\u00a0", "\u1680", "\u2000", "\u2003", "\u200a", "\u2028", "\u2029", "\u202f",
                        "\u205f", "\u3000"]).encode("utf-8").decode("latin-1"), rng.randrange(4)))(segs, rng),
    "te_two_fields": m_te_two_fields,
    "bare_lf": m_bare_lf,
    "bare_cr_terminator": m_bare_cr_terminator,
    "lf_before_crlf_chunk": _before_terminator(("csize", "clast"), ["\n"]),
    "cr_before_crlf_chunk": _before_terminator(("csize", "clast"), ["\r", "\r\n\r"]),
    "lf_before_crlf_head": _before_terminator(("rl", "h"), ["\n"]),
    "lf_before_crlf_trailer": _before_terminator(("trailer",), ["\n"]),
    "ctl_in_value": m_ctl_in_value,
    "ctl_in_name": m_ctl_in_name,
    "ctl_in_target": _rl_variant(lambda m, t, v, r: f"{m} {t[:1]}{r.choice(['\x00', '\x01', '\t', '\r', '\n', '\x7f', '\x0b'])}{t[1:]}x {v}"),
    "ctl_in_method": _rl_variant(lambda m, t, v, r: f"{m[:1]}{r.choice(['\x00', '(', '\x7f', '\xe9', ':', '/'])}{m[1:]} {t} {v}"),
    "obs_fold": m_obs_fold,
    "ws_before_colon": m_ws_before_colon,
    "ws_before_name": m_ws_before_name,
    "empty_name": m_empty_name,
    "no_colon": m_no_colon,
    "chunk_0x": _chunk_size_variant(lambda s, r: "0x" + s),
    "chunk_plus": _chunk_size_variant(lambda s, r: "+" + s),
    "chunk_minus": _chunk_size_variant(lambda s, r: "-" + s),
    "chunk_lead_space": _chunk_size_variant(lambda s, r: " " + s),
    "chunk_trail_space": _chunk_size_variant(lambda s, r: s.split(";")[0] + " "),
    "chunk_bws_ext": _chunk_size_variant(lambda s, r: s.split(";")[0] + " ;a=b"),
    "chunk_empty": _chunk_size_variant(lambda s, r: ""),
    "chunk_nonhex": _chunk_size_variant(lambda s, r: r.choice(["g", "5g", "z5", "\xb2", "5_0"])),
    "chunk_only_ext": _chunk_size_variant(lambda s, r: ";a=b"),
    "chunk_ext_ctl": m_chunk_ext_ctl,
    "chunk_data_long": m_chunk_data_long,
    "chunk_data_short": m_chunk_data_short,
    "chunk_no_crlf": m_chunk_no_crlf,
    "bad_trailer": m_bad_trailer,
    "many_trailers": m_many_trailers,
    "framing_trailer": m_framing_trailer,
    "host_missing": m_host_missing,
    "host_repeat": m_host_repeat,
    "rl_double_space": _rl_variant(lambda m, t, v, r: r.choice([f"{m}  {t} {v}", f"{m} {t}  {v}"])),
    "rl_tab": _rl_variant(lambda m, t, v, r: r.choice([f"{m}\t{t} {v}", f"{m} {t}\t{v}"])),
    "rl_lead_space": _rl_variant(lambda m, t, v, r: f" {m} {t} {v}"),
    "rl_trail_space": _rl_variant(lambda m, t, v, r: f"{m} {t} {v} "),
    "rl_no_version": _rl_variant(lambda m, t, v, r: f"{m} {t}"),
    "rl_bad_version": _rl_variant(lambda m, t, v, r: f"{m} {t} " + r.choice(["HTTP/1.10", "HTTP/01.1", "http/1.1", "HTTP/1", "HTTP/1.1x", "HTTP/\xd9\xa1.1", "HTTP/1,1", "HTTPS/1.1"])),
    "rl_version_2": _rl_variant(lambda m, t, v, r: f"{m} {t} HTTP/2.0"),
    "rl_target_space": _rl_variant(lambda m, t, v, r: f"{m} /a b {v}"),
    "rl_empty_method": _rl_variant(lambda m, t, v, r: f" {t} {v}"),
    "rl_authority_non_connect": _rl_variant(lambda m, t, v, r: f"{m} h.test:80 {v}"),
    "rl_garbage": _rl_variant(lambda m, t, v, r: r.choice(["\x16\x03\x01\x02\x00\x01", "GET", "", "\xff\xfe"])),
    "rl_form_method_cross": m_form_method_cross,
    "many_headers": m_many_headers,
    "long_field": m_long_field,
    "long_target": m_long_target,
}

MUTATION_NAMES = sorted(MUTATIONS)


def gen_stream(rng, *, nreq=None, mutate=None, max_req=6, body_max=300, bytemut=0.0, truncate=0.0):
    """-> dict(stream=str, reqs=[...], mutation=name|None, mut_index=int|None)"""
    n = nreq if nreq is not None else rng.randint(1, max_req)
    reqs = [gen_request(rng, i, allow_close=(i == n - 1), body_max=body_max) for i in range(n)]
    out = []
    mname = None
    mi = None
    if mutate is None:
        mutate = rng.random() < 0.6
    if mutate:
        mi = rng.randrange(n)
    for i, rq in enumerate(reqs):
        segs = segments(rq)
        if mutate and i == mi:
            for _ in range(6):
                cand = mutate if isinstance(mutate, str) else rng.choice(MUTATION_NAMES)
                trial = [list(s) for s in segs]
                if MUTATIONS[cand](trial, rng):
                    segs = trial
                    mname = cand
                    break
        out.append(join(segs))
    stream = "".join(out)
    bm = None
    if bytemut and rng.random() < bytemut and stream:
        kind = rng.choice(["flip", "insert", "delete"])
        p = rng.randrange(len(stream))
        if kind == "flip":
            stream = stream[:p] + chr(ord(stream[p]) ^ (1 << rng.randrange(8))) + stream[p + 1:]
        elif kind == "insert":
            stream = stream[:p] + chr(rng.randrange(256)) + stream[p:]
        else:
            stream = stream[:p] + stream[p + 1:]
        bm = [kind, p]
    if truncate and rng.random() < truncate and len(stream) > 1:
        stream = stream[: rng.randrange(1, len(stream))]
        bm = ["truncate", len(stream)]
    return {"stream": stream, "nreq": n, "mutation": mname, "mut_index": mi, "bytemut": bm}
