"""Workload generator for C19 (multipart codec): boundaries, field names,
content specs with near-boundary patterns, part lists, read programs,
segmentation specs and body mutations.  Everything is plain JSON data."""
from __future__ import annotations

import binascii
import random

BOUNDARIES = [
    "b", "XyZ", "XyZ", "frontier", "----WebKitFormBoundary7MA4YWxkTrZu0gW", "a" * 70,
    "0123456789abcdef0123456789abcdef", "-", "--", "x--x", "=_bnd'+_-.", "bnd with space.", "q(1)/2:3?",
    "rn", "A-B", "b.", "MiXeD",
]
NAMES = [
    "field", "f", "a b", "naïve", "文件", 'q"uote', "back\\slash", "semi;colon", "x=y", "per%41cent",
    "/lead", "\\lead", "trail\\", "emoji\U0001f600", "a'b", "(c)", "k*", " lead", "trail ", "a,b", "two;semi;colons",
    "ä", "%", '"', "name[]", "a/b",
]
FILENAMES = [
    "f.txt", "file name.txt", "naïve.bin", "文件.dat", 'q"uote.txt', "back\\slash.txt", "dir/name.txt",
    "..\\..\\x", "a.tar.gz", "%2e%2e", "x;y.txt", "x;y;z.txt", "/abs", "per%cent", "emoji\U0001f600.png", "a'b.c",
    "plus+sign", "eq=ual", "äöü", "semi;", " sp ",
]
CTYPES = [None, None, "application/octet-stream", "text/plain", "text/plain; charset=utf-8", "image/png",
          "application/json", "application/x-thing; a=b", "text/html; charset=latin-1"]

_rr = random.Random(190019)
_NOISE = [
    bytes(_rr.randrange(256) for _ in range(1 << 16)),
    bytes(_rr.choice(b"\r\n\r\n--ab") for _ in range(1 << 16)),
    bytes(_rr.choice(b"abcdefghijklmnopqrstuvwxyz0123456789") for _ in range(1 << 16)),
]


def _text_noise():
    rr = random.Random(77)
    out = []
    for _ in range(1500):
        n = rr.choice([0, 1, 3, 10, 30, 60, 75, 76, 77, 120])
        out.append("".join(rr.choice("abc xyz=-.\täß€0123;:") for _ in range(n)).rstrip(" \t"))
    return out


_LINES = _text_noise()


def enc(s: str) -> bytes:
    return s.encode("latin-1")


def dec(b: bytes) -> str:
    return bytes(b).decode("latin-1")


def delim(boundary: str) -> bytes:
    return b"\r\n--" + boundary.encode("ascii")


def expand(spec, boundary: str) -> bytes:
    """content spec -> bytes.  The result never contains CRLF + '--' + boundary
    and never starts with '--' + boundary (RFC 2046 5.1.1: the sender must pick
    a boundary that does not occur as the prefix of a line)."""
    d = delim(boundary)
    out = bytearray()
    for a in spec:
        k = a[0]
        if k == "n":  # ["n", alphabet, offset, length]
            src = _NOISE[a[1]]
            off, n = a[2] % len(src), a[3]
            while n > 0:
                piece = src[off:off + n]
                out += piece
                n -= len(piece)
                off = 0
        elif k == "l":
            out += enc(a[1])
        elif k == "p":  # proper prefix of the delimiter
            out += d[:min(a[1], len(d) - 1)]
        elif k == "q":
            out += near(boundary, a[1])
        elif k == "z":
            out += b"abcabcab" * (a[1] // 8) + b"z" * (a[1] % 8)
        else:
            raise ValueError(a)
    return sanitize(bytes(out), boundary)


def sanitize(data: bytes, boundary: str) -> bytes:
    d = delim(boundary)
    if d in data:
        data = data.replace(d, d[:3] + b"+" + d[4:])
    if data.startswith(d[2:]):
        data = b"+" + data[1:]
    return data


def near(boundary: str, v: int) -> bytes:
    b = boundary.encode("ascii")
    last = bytes([b[-1] ^ 1]) if (b[-1] ^ 1) not in (10, 13) else b"~"
    pats = [
        b"x--" + b,                    # delimiter text in mid-line
        b"\n--" + b + b"\r\n",         # bare LF before it: not a delimiter (CRLF required)
        b"\r--" + b,                   # bare CR before it
        b"\r\n-" + b,                  # one dash
        b"\r\n--" + b[:-1] + last,     # last boundary char differs
        b"\r\n --" + b,                # space before the dashes
        b"\r\n--" + b.swapcase() if b.swapcase() != b else b"\r\n-=" + b,
        b"\r\n--" + b[:-1],            # delimiter minus its last char (then more content)
        b"--" + b + b"--",             # closing delimiter text in mid-line
        b"\r\n\r\n", b"\r\r\n\n", b"\r\n--", b"--\r\n", b"\r\n-", b"\r",
    ]
    return pats[v % len(pats)]


NEAR_N = 15


def gen_content(rng, boundary: str, size_hint=None, alphabet=None):
    """A content spec.  Sizes cluster around the 8192 read chunk, around the
    delimiter length and around small multiples of typical read_chunk sizes."""
    dl = len(boundary) + 4
    if size_hint is None:
        size_hint = rng.choice([
            0, 0, 1, 2, 3, dl - 3, dl - 2, dl - 1, dl, dl + 1, dl + 2, 2 * dl - 1, 2 * dl, 2 * dl + 1, 3 * dl,
            rng.randint(0, 40), rng.randint(0, 40), rng.randint(0, 300), rng.randint(0, 300),
            8192 - dl - 2 + rng.randint(0, dl + 4), 8192 - rng.randint(0, 4), 8192 + rng.randint(0, 4),
            2 * 8192 - dl - 2 + rng.randint(0, dl + 6), rng.randint(8000, 8400), rng.randint(16300, 16500),
            rng.randint(0, 3000),
        ])
    if alphabet is None:
        alphabet = rng.choice([0, 0, 1, 1, 2])
    spec = []
    remaining = size_hint
    npat = rng.choice([0, 0, 1, 1, 2, 3, 5])
    # patterns go to the front, the end, or right at a chunk edge
    front = []
    back = []
    for _ in range(npat):
        r = rng.random()
        if r < 0.45:
            atom = ["q", rng.randrange(NEAR_N)]
        elif r < 0.8:
            atom = ["p", rng.randint(1, dl - 1)]
        else:
            atom = ["l", rng.choice(["\r\n", "\r", "\n", "--", "\r\n\r\n", "\r\n--", "-", "\r\n--\r\n", "=", "=\r\n"])]
        (front if rng.random() < 0.4 else back).append(atom)
    used = sum(len(expand([a], boundary)) for a in front + back)
    remaining = max(0, remaining - used)
    if front and remaining and rng.random() < 0.5:
        k = rng.randint(0, min(remaining, 20))
        spec.append(["n", alphabet, rng.randrange(1 << 16), k])
        remaining -= k
    spec.extend(front)
    if remaining:
        spec.append(["n", alphabet, rng.randrange(1 << 16), remaining])
    spec.extend(back)
    if back and rng.random() < 0.3:
        spec.append(["n", alphabet, rng.randrange(1 << 16), rng.randint(1, 3)])
    return spec


def gen_text(rng, boundary: str):
    """Line-oriented text (str) with one consistent line ending, for text /
    quoted-printable parts."""
    nl = rng.choice(["\r\n", "\r\n", "\n"])
    n = rng.choice([0, 1, 2, 5, 20, 60, 200])
    start = rng.randrange(len(_LINES))
    lines = [_LINES[(start + i) % len(_LINES)] for i in range(n)]
    if lines and rng.random() < 0.4:
        i = rng.randrange(len(lines))
        lines[i] = rng.choice(["--", "--" + boundary[:-1], "-" + boundary, "x--" + boundary, "=", "==3D", "From x", "."])
    text = nl.join(lines)
    if rng.random() < 0.5 and lines:
        text += nl
    return text


def qp_lossless(pieces) -> bool:
    """True when the standard library's own quoted-printable codec round-trips
    these write() pieces; only then is a QP part a fair question for aiohttp."""
    data = b"".join(pieces)
    try:
        return binascii.a2b_qp(b"".join(binascii.b2a_qp(p) for p in pieces)) == data
    except Exception:
        return False


def gen_disp(rng, form: bool):
    r = rng.random()
    if not form and r < 0.45:
        return None
    params = {}
    if form or rng.random() < 0.8:
        params["name"] = rng.choice(NAMES) if rng.random() < 0.6 else "field%d" % rng.randrange(100)
    if rng.random() < (0.35 if form else 0.6):
        params["filename"] = rng.choice(FILENAMES)
    if not params:
        params["name"] = "x"
    return ["form-data" if form else rng.choice(["attachment", "inline", "form-data"]), params]


def gen_part(rng, boundary: str, form: bool, depth: int, avoid=(), big_ok=True):
    """One part spec.  `avoid` lists the enclosing boundaries (nested parts):
    content must not contain their delimiters either."""
    r = rng.random()
    part = {"k": "bytes", "ct": rng.choice(CTYPES), "cte": "", "ce": "", "disp": gen_disp(rng, form),
            "qf": rng.random() < 0.6, "xh": [], "avoid": list(avoid)}
    if rng.random() < 0.15:
        part["xh"] = [[rng.choice(["X-Meta", "X-Id", "Content-ID", "Content-Description"]),
                       rng.choice(["1", "<a@b>", "v; p=\"q\"", "täg", "a" * 100, "--" + boundary])]]
    if not form and depth < 2 and r < 0.10:
        sub_b = rng.choice(BOUNDARIES)
        if rng.random() < 0.3:
            sub_b = rng.choice(["x" + boundary, boundary[:-1] + "_", boundary.swapcase()])[:70]  # look-alikes
        enclosing = [boundary] + list(avoid)
        if any(sub_b.startswith(b) or b.startswith(sub_b) for b in enclosing):
            sub_b = ("n%d_" % depth + sub_b)[:70]
        sub_form = rng.random() < 0.3
        n = rng.choice([1, 1, 1, 2, 3])  # an empty nested multipart is invalid (RFC 2046) and not generated
        sub = {"subtype": "form-data" if sub_form else rng.choice(["mixed", "related", "alternative"]),
               "boundary": sub_b,
               "parts": [gen_part(rng, sub_b, sub_form, depth + 1, avoid=enclosing, big_ok=False) for _ in range(n)]}
        part.update(k="nested", sub=sub, ct=None, disp=None)
        return part
    if r < 0.30:
        part["k"] = "str"
        part["cs"] = rng.choice([None, None, "utf-8", "latin-1"]) if not form else None
        if part["ct"] is not None and not part["ct"].startswith("text/"):
            part["ct"] = None
        if part["ct"] is not None and "charset" in part["ct"]:
            part["cs"] = None
        t = gen_text(rng, boundary)
        cs = part_charset(part)
        raw = t.encode(cs, "replace")
        for b in [boundary] + list(avoid):
            raw = sanitize(raw, b)
        part["t"] = raw.decode(cs, "replace")
    elif r < 0.36:
        part["k"] = "json"
        part["j"] = rng.choice([{"a": 1}, [1, 2, {"b": "ä"}], "s", None, {"t": "--" + boundary, "u": "\r\n--" + boundary}])
        part["ct"] = None
    else:
        part["k"] = rng.choice(["bytes", "bytes", "bytes", "bio", "aiter"])
        if big_ok and rng.random() < 0.015 and not form:
            part["c"] = [["z", rng.choice([270000, 530000])]]
            part["ce"] = rng.choice(["gzip", "deflate"])
        else:
            part["c"] = gen_content(rng, boundary)
        if part["k"] == "aiter":
            part["pieces"] = [rng.choice([0, 1, 2, 3, 7, 100, 4096, 8192, 70000]) for _ in range(rng.randint(1, 5))]
    if not form and part["k"] != "json":
        r2 = rng.random()
        if r2 < 0.18:
            part["cte"] = "base64"
        elif r2 < 0.30 and part["k"] == "str" and qp_lossless([part["t"].encode(part_charset(part))]):
            part["cte"] = "quoted-printable"
        elif r2 < 0.35:
            part["cte"] = "binary"
        r3 = rng.random()
        # quoted-printable is for line-oriented text: not combined with compression (binary)
        if not part["ce"] and part["cte"] != "quoted-printable":
            if r3 < 0.12:
                part["ce"] = "gzip"
            elif r3 < 0.24:
                part["ce"] = "deflate"
            elif r3 < 0.28:
                part["ce"] = "identity"
        # coding names are case-insensitive (RFC 9110 8.4.1, RFC 2045 6.1): a sample of the encoded
        # parts spells the header value differently ("ce"/"cte" stay the canonical lower-case names)
        if (part["ce"] or part["cte"]) and rng.random() < 0.3:
            if part["ce"]:
                part["ces"] = respell(rng, part["ce"])
            if part["cte"] and (not part["ce"] or rng.random() < 0.5):
                part["ctes"] = respell(rng, part["cte"])
    return part


def respell(rng, token: str) -> str:
    """The same coding name in another letter case."""
    r = rng.random()
    if r < 0.4:
        out = token.upper()
    elif r < 0.7:
        out = token.title()
    else:
        out = "".join(c.upper() if rng.random() < 0.5 else c for c in token)
    return out if out != token else token.upper()


def spelled(part, key: str) -> str:
    """Header value to give to the writer for "ce" / "cte" (its sampled spelling, if any)."""
    canon = part.get(key) or ""
    s = part.get(key + "s")
    return s if (s and s.lower() == canon) else canon


def part_bytes(part, boundary: str) -> bytes:
    """The decoded content the reader must hand back for a leaf part."""
    import json as _json

    k = part["k"]
    if k in ("bytes", "bio", "aiter"):
        data = expand(part["c"], boundary)
        for b in part.get("avoid", ()):
            data = sanitize(data, b)
        return sanitize(data, boundary)
    if k == "str":
        return part["t"].encode(part_charset(part))
    if k == "json":
        return _json.dumps(part["j"]).encode("utf-8")
    raise ValueError(k)


def part_charset(part) -> str:
    if part.get("cs"):
        return part["cs"]
    ct = part.get("ct") or ""
    if "charset=" in ct:
        return ct.split("charset=")[1].split(";")[0].strip()
    return "utf-8"


def aiter_pieces(data: bytes, sizes) -> list:
    out = []
    pos = 0
    i = 0
    while pos < len(data):
        n = sizes[i % len(sizes)]
        i += 1
        if n == 0:
            out.append(b"")
            if all(s == 0 for s in sizes):
                n = len(data)
            else:
                continue
        out.append(data[pos:pos + n])
        pos += n
    return out


def gen_program(rng, boundary_len: int, nparts: int):
    """Read programme: one op per (flattened) part, cycled."""
    def sizes():
        bl = boundary_len
        pool = [bl, bl, bl + 1, bl + 2, bl + 3, 2 * bl - 1, 2 * bl, 2 * bl + 1, 3 * bl, 64, 100, 255, 256, 1024,
                4096, 8191, 8192, 8193, 65536, 1 << 18]
        k = rng.choice([1, 1, 1, 2, 3])
        return [max(bl, rng.choice(pool)) for _ in range(k)]

    prog = []
    for _ in range(max(1, min(nparts, 6))):
        r = rng.random()
        if r < 0.22:
            op = ["read", rng.random() < 0.6]
        elif r < 0.58:
            op = ["chunks", sizes()]
        elif r < 0.70:
            op = ["lines"]
        elif r < 0.76:
            op = ["release"]
        elif r < 0.81:
            op = ["skip"]
        elif r < 0.89:
            op = ["partial_chunks", sizes(), rng.choice([1, 1, 2, 3])]
        elif r < 0.95:
            op = ["partial_lines", rng.choice([1, 1, 2, 3])]
        else:
            op = ["text"]
        prog.append(op)
    return prog


def gen_cuts(rng, small: bool):
    r = rng.random()
    if r < 0.15:
        return {"m": "whole"}
    if r < 0.40:
        return {"m": "fixed", "n": rng.choice([1, 1, 2, 3, 5, 7, 8, 13, 64, 1000, 1460, 4096, 8191, 8192, 8193, 16384])
                if small else rng.choice([7, 13, 64, 500, 1000, 1460, 4096, 8191, 8192, 8193, 16384, 65536])}
    if r < 0.70:
        return {"m": "window", "coarse": rng.choice([64, 1000, 4096, 8192, 100000]), "seed": rng.randrange(1 << 30)}
    hi = rng.choice([3, 16, 100, 1500, 9000, 70000])
    return {"m": "rand", "lo": 1 if small or hi > 16 else 2, "hi": hi, "seed": rng.randrange(1 << 30)}


MAX_PIECES = 300


def expand_cuts(spec, body: bytes, marks) -> list:
    """Piece sizes for the producer.  `marks` are (start, end) of delimiter
    lines in the body ('window' mode cuts byte by byte around them)."""
    n = len(body)
    m = spec["m"]
    if m == "whole" or n == 0:
        return [n] if n else []
    if m == "list":
        out = []
        prev = 0
        for c in spec["cuts"]:
            if prev < c < n:
                out.append(c - prev)
                prev = c
        out.append(n - prev)
        return out
    if m == "fixed":
        k = max(1, spec["n"])
        if n // k > MAX_PIECES:
            k = n // MAX_PIECES + 1
        return [k] * (n // k) + ([n % k] if n % k else [])
    rr = random.Random(spec["seed"])
    out = []
    pos = 0
    if m == "rand":
        lo, hi = spec["lo"], spec["hi"]
        if n // max(1, (lo + hi) // 2) > MAX_PIECES:
            lo, hi = n // MAX_PIECES + 1, 2 * (n // MAX_PIECES) + 2
        while pos < n:
            k = min(n - pos, rr.randint(lo, hi))
            out.append(k)
            pos += k
        return out
    # window
    fine = set()
    chosen = list(marks)
    if len(chosen) > 4:
        chosen = rr.sample(chosen, 4)
    for s, e in chosen:
        for x in range(max(0, s - 4), min(n, e + 3)):
            fine.add(x)
    coarse = spec["coarse"]
    while pos < n:
        if pos in fine:
            k = 1
        else:
            k = min(n - pos, rr.randint(1, coarse))
            for x in range(pos + 1, pos + k):
                if x in fine:
                    k = x - pos
                    break
        out.append(k)
        pos += k
    return out


MUTATIONS = ["truncate", "drop_delim", "dup_delim", "open_for_close", "close_for_open", "no_close", "drop_final_crlf",
             "hdr_nocolon", "hdr_nul", "hdr_noblank", "hdr_badname", "hdr_fold", "hdr_clen_big", "hdr_clen_small",
             "hdr_clen_bad", "hdr_cte", "hdr_ce", "hdr_nested_ct", "b64_damage", "oversize_header", "many_headers",
             "huge_part", "flip", "insert", "delete", "lf_only", "preamble", "epilogue", "no_first_delim", "empty",
             "gz_damage", "delim_ws", "cr_only"]


def gen_mutations(rng):
    if rng.random() < 0.2:  # EOF at any byte, nothing else
        return [["truncate", rng.randrange(1 << 20), 0]]
    k = rng.choice([1, 1, 1, 2, 3])
    out = []
    for _ in range(k):
        out.append([rng.choice(MUTATIONS), rng.randrange(1 << 20), rng.randrange(1 << 20)])
    return out
