"""C06 - client connection reuse never mixes responses.

World C: one real ClientSession against 1-3 scripted raw origins that may
misbehave (surplus / unsolicited responses, truncation, close, reset, stall).
Every response carries a marker (origin, connection, the request id it answers
or 'none', serial).  DESIGN.md section 9, C06.
"""
from __future__ import annotations

import asyncio
import re

from sim.net import SimResolver
from sim.peers import RawServerConn, parse_simple_request
from sim.world import World

PROP = "C06"
LEVEL = "exploration"
DESIGN_REF = "9/C06"
BUDGET = {"quick": 60, "thorough": 900}
BATCH = 120
TECHNIQUE = ("deterministic simulation: real client + pool against misbehaving scripted origins on a virtual-time loop; "
             "seeded timing of response end / release / surplus arrival / re-acquisition; per-byte arrival steps vs "
             "hand-over steps (from tracing signals) as oracle")
LEVEL_TEXT = (
    "Seeded exploration of request histories on one session x peer misbehaviour x timing: every response a caller gets "
    "must carry the marker of its own request and origin, must consist of bytes that reached the client after the request "
    "was handed to that connection, no marker is delivered twice, and a connection on which something abnormal happened "
    "carries no later exchange (judged at the raw server). Sampling, not proof."
)
LEVEL_NOTE = (
    "Trusted: the scripted origins' bookkeeping (what they sent, at which stream offset), SimNet delivery log (arrival "
    "step of every byte), the hand-over instant taken from the public tracing signals on_connection_create_end / "
    "on_connection_reuseconn. TLS is not simulated: https origins differ from http ones only in the pool key / recorded "
    "sslcontext, which is what the isolation clause needs. Proxies are not exercised."
)
RULE = (
    "Run = 1-3 client tasks issuing 2-10 requests in total to 1-3 origins (differing in host, port, scheme) x per-request "
    "peer behaviour (ok, chunked, surplus response in same write / later / partial, unsolicited while idle, truncated "
    "body, close without header, Connection: close, reset mid-body, stall, slow body) x caller behaviour (read, release "
    "unread, close, leave context unread, per-request timeout, cancellation before step k) x segmentation/latency/ties. "
    "Non-trivial: a connection was reused at least once AND at least one misbehaviour or caller-side abnormal end fired."
)
COMPONENTS = {
    "real": ["client.ClientSession", "connector.TCPConnector (pool, keys)", "client_proto.ResponseHandler", "client_reqrep",
             "http_parser.HttpResponseParser (Python)", "tracing"],
    "stub": ["network (SimNet)", "DNS (SimResolver)", "origins (scripted raw servers)", "TLS (recorded, not performed)"],
}
ASSUMPTIONS = [
    "bytes still in flight when a request is handed to its connection are indistinguishable from an answer for any "
    "HTTP/1.1 client; the rule is therefore stated on arrival at the client's side of the connection",
    "the hand-over instant is the tracing signal, the earliest instant it can be",
]

ORIGINS = [
    ("a.test", "10.0.2.1", 80, "http"),
    ("b.test", "10.0.2.2", 80, "http"),
    ("a.test", "10.0.2.1", 8080, "http"),
    ("a.test", "10.0.2.1", 8080, "https"),  # same host and port as the previous one: only the TLS flag differs
]
BEHAVIOURS = ["ok", "ok", "ok", "chunked", "surplus_same", "surplus_later:1", "surplus_later:8", "surplus_partial",
              "trunc", "close_after", "connclose", "reset_mid", "stall", "slowbody:6", "surplus_later:30", "ok"]
AFTER = ["read", "read", "read", "release", "close", "leave"]
_M = re.compile(rb"X-M: o(\d+)\.c(\d+)\.q(\w+)\.n(\d+)")


def gen(rng, tier, index):
    no = rng.choice([1, 1, 2, 3, 4])
    ntasks = rng.choice([1, 1, 2, 3])
    tasks = []
    rid = 0
    for _ in range(ntasks):
        reqs = []
        for _ in range(rng.randint(1, 5)):
            beh = rng.choice(BEHAVIOURS)
            reqs.append({
                "id": rid, "origin": rng.randrange(no), "beh": beh, "after": rng.choice(AFTER),
                "gap": rng.choice([0, 0, 0, 1, 3, 10, 40]), "post": rng.random() < 0.25,
                "total": (rng.choice([0.02, 0.05]) if beh == "stall" else rng.choice([None, None, None, 0.05])),
            })
            rid += 1
        tasks.append(reqs)
    cancels = [[rng.randrange(ntasks), rng.randint(3, 150)] for _ in range(rng.choice([0, 0, 0, 1, 2]))]
    return {"norigins": no, "tasks": tasks, "cancels": cancels, "lat": rng.choice([0, 1, 3]),
            "pol": rng.choice(["whole", "whole", "small", "mixed", "byte"]), "limit": rng.choice([1, 2, 100]),
            "keepalive": rng.choice([15.0, 15.0, 0.02])}


def shrink(scn):
    if scn["cancels"]:
        for i in range(len(scn["cancels"])):
            yield dict(scn, cancels=scn["cancels"][:i] + scn["cancels"][i + 1:])
    ts = scn["tasks"]
    for ti, reqs in enumerate(ts):
        if len(reqs) > 1:
            for i in range(len(reqs)):
                yield dict(scn, tasks=ts[:ti] + [reqs[:i] + reqs[i + 1:]] + ts[ti + 1:])
    if len(ts) > 1:
        for ti in range(len(ts)):
            canc = [[t if t < ti else t - 1, k] for t, k in scn["cancels"] if t != ti]
            yield dict(scn, tasks=ts[:ti] + ts[ti + 1:], cancels=canc)
    for ti, reqs in enumerate(ts):
        for i, r in enumerate(reqs):
            for k, v in (("gap", 0), ("post", False), ("total", None), ("after", "read")):
                if r[k] != v and not (k == "total" and r["beh"] == "stall"):
                    yield dict(scn, tasks=ts[:ti] + [reqs[:i] + [dict(r, **{k: v})] + reqs[i + 1:]] + ts[ti + 1:])
            if r["beh"] not in ("ok",):
                yield dict(scn, tasks=ts[:ti] + [reqs[:i] + [dict(r, beh="ok", total=None)] + reqs[i + 1:]] + ts[ti + 1:])
    if scn["lat"]:
        yield dict(scn, lat=0)
    if scn["pol"] != "whole":
        yield dict(scn, pol="whole")


def run(scn, ch, log=False):
    import aiohttp

    viols = []

    def violate(inv, key, msg):
        if not any(v["invariant"] == inv and v["key"] == key for v in viols):
            viols.append({"invariant": inv, "key": key, "message": msg})

    with World(ch, 0, log_events=log) as w:
        loop, net = w.loop, w.net
        net.max_latency_ticks = scn["lat"]
        net.default_policy = scn["pol"]
        no = scn["norigins"]
        serial = [0]
        sent = {}  # serial -> dict(origin, conn, req, kind, off_a, off_b, conn_name)
        conns = {}  # sim_conn id -> dict(origin, ssl, requests=[(reqid, step)], abnormal=[(kind, step)], out_len, ctr)
        probes = {"misbehaviour": 0, "reuse": 0, "abnormal_client": 0}

        def on_connect(ctr, str_):
            cid = ctr.get_extra_info("sim_conn")
            ctr.recv_log = []
            conns[cid] = {"ctr": ctr, "str": str_, "ssl": ctr.get_extra_info("sslcontext") is not None, "requests": [],
                          "abnormal": [], "out": 0, "origin": None, "closed_by_server_step": None}

        net.on_connect = on_connect

        class Origin:
            def __init__(self, idx):
                self.idx = idx
                self.loop = loop
                self.conns = []

            def on_connect(self, c):
                cid = c.transport.get_extra_info("sim_conn")
                c.cid = cid
                conns[cid]["origin"] = self.idx

            def respond(self, c, req_tag, kind, body=b"", chunked=False, extra_hdr=b"", declared=None):
                serial[0] += 1
                n = serial[0]
                marker = b"X-M: o%d.c%d.q%s.n%d" % (self.idx, c.cid, str(req_tag).encode(), n)
                body = body or (b"body-" + marker[5:])
                if chunked:
                    head = b"HTTP/1.1 200 OK\r\n" + marker + b"\r\nTransfer-Encoding: chunked\r\n" + extra_hdr + b"\r\n"
                    payload = b"%x\r\n%s\r\n0\r\n\r\n" % (len(body), body)
                else:
                    dl = len(body) if declared is None else declared
                    head = b"HTTP/1.1 200 OK\r\n" + marker + b"\r\nContent-Length: %d\r\n" % dl + extra_hdr + b"\r\n"
                    payload = body
                return n, head, payload

            def send(self, c, n, data, req_tag, kind):
                info = conns[c.cid]
                if info["closed_by_server_step"] is not None:
                    return  # the origin decided to end this connection: it sends nothing more
                a = info["out"]
                info["out"] += len(data)
                ent = sent.setdefault(n, {"origin": self.idx, "conn": c.cid, "req": req_tag, "kind": kind, "a": a})
                ent["b"] = info["out"]
                c.send(data)

            def on_data(self, c):
                while True:
                    r = parse_simple_request(c.buf)
                    if r is None:
                        return
                    req, used = r
                    del c.buf[:used]
                    path = req["target"].decode("latin-1")
                    parts = path.split("/")  # /r/<id>/<beh>[/<arg>]
                    rid = int(parts[2])
                    beh = parts[3]
                    arg = int(parts[4]) if len(parts) > 4 else 0
                    info = conns[c.cid]
                    info["requests"].append((rid, loop.steps, req["method"], req["headers"]))
                    if info["closed_by_server_step"] is not None:
                        return
                    self.behave(c, rid, beh, arg)

            def behave(self, c, rid, beh, arg):
                info = conns[c.cid]
                if beh in ("ok", "chunked", "slowbody", "close_after", "connclose", "surplus_same", "surplus_later",
                           "surplus_partial"):
                    chunked = beh == "chunked"
                    extra = b"Connection: close\r\n" if beh == "connclose" else b""
                    n, head, payload = self.respond(c, rid, "answer", chunked=chunked, extra_hdr=extra)
                    if beh == "slowbody":
                        self.send(c, n, head, rid, "answer")
                        loop.sim_call_later(arg * 0.001, self.send, c, n, payload, rid, "answer")
                        return
                    data = head + payload
                    if beh == "surplus_same":
                        probes["misbehaviour"] += 1
                        n2, h2, p2 = self.respond(c, "none", "surplus")
                        self.send(c, n, data, rid, "answer")
                        self.send(c, n2, h2 + p2, "none", "surplus")
                        info["abnormal"].append(("surplus_bytes", n2))
                        return
                    self.send(c, n, data, rid, "answer")
                    if beh == "surplus_later":
                        probes["misbehaviour"] += 1

                        def later():
                            if c.transport is None or c.transport.is_closing():
                                return
                            n2, h2, p2 = self.respond(c, "none", "unsolicited")
                            self.send(c, n2, h2 + p2, "none", "unsolicited")
                            info["abnormal"].append(("surplus_bytes", n2))
                        loop.sim_call_later(arg * 0.001, later)
                    elif beh == "surplus_partial":
                        probes["misbehaviour"] += 1
                        serial[0] += 1
                        n2 = serial[0]
                        self.send(c, n2, b"HTTP/1.1 2", "none", "surplus")
                        info["abnormal"].append(("partial", n2))
                    elif beh in ("close_after", "connclose"):
                        probes["misbehaviour"] += int(beh == "close_after")
                        info["closed_by_server_step"] = loop.steps
                        c.transport.close()
                elif beh == "trunc":
                    probes["misbehaviour"] += 1
                    n, head, payload = self.respond(c, rid, "answer", body=b"0123456789", declared=10)
                    self.send(c, n, head + payload[:4], rid, "answer")
                    info["closed_by_server_step"] = loop.steps
                    c.transport.close()
                elif beh == "reset_mid":
                    probes["misbehaviour"] += 1
                    n, head, payload = self.respond(c, rid, "answer", body=b"A" * 60)
                    self.send(c, n, head + payload[:20], rid, "answer")
                    info["closed_by_server_step"] = loop.steps
                    loop.sim_call_later(0.002, c.transport.abort)
                elif beh == "stall":
                    probes["misbehaviour"] += 1

            def on_eof(self, c):
                pass

            def on_lost(self, c):
                pass

        origins = []
        listener_of = {}
        for i in range(no):
            name, ip, port, scheme = ORIGINS[i]
            net.dns[name] = [ip]
            if (ip, port) in listener_of:
                origins.append(origins[listener_of[(ip, port)]])
                continue
            listener_of[(ip, port)] = i
            o = Origin(i)
            origins.append(o)
            net.listen((lambda o=o: RawServerConn(o)), ip, port)

        def same_endpoint(a, b):
            return ORIGINS[a][1:3] == ORIGINS[b][1:3]
        handover = {}  # reqid -> (step, "new"|"reuse")
        delivered = {}  # reqid -> parsed marker tuple
        client_abnormal = []  # (conn id, kind, step)
        req_conn = {}

        async def on_create_end(session, ctx, params):
            rid = ctx.trace_request_ctx
            handover[rid] = (loop.steps, "new")

        async def on_reuse(session, ctx, params):
            rid = ctx.trace_request_ctx
            handover[rid] = (loop.steps, "reuse")
            probes["reuse"] += 1

        tc = aiohttp.TraceConfig()
        tc.on_connection_create_end.append(on_create_end)
        tc.on_connection_reuseconn.append(on_reuse)
        state = {}

        async def setup():
            import ssl as _ssl
            state["sslctx"] = _ssl.create_default_context() if any(ORIGINS[i][3] == "https" for i in range(no)) else None
            conn = aiohttp.TCPConnector(resolver=SimResolver(net), limit=scn["limit"], keepalive_timeout=scn["keepalive"])
            state["session"] = aiohttp.ClientSession(connector=conn, trace_configs=[tc])

        loop.run_sim(setup(), vt_cap=1)
        session = state["session"]
        outcomes = {}

        async def one(r):
            name, ip, port, scheme = ORIGINS[r["origin"]]
            beh = r["beh"].replace(":", "/")
            url = f"{scheme}://{name}:{port}/r/{r['id']}/{beh}"
            kw = {"trace_request_ctx": r["id"], "timeout": aiohttp.ClientTimeout(total=r["total"])}
            if scheme == "https":
                kw["ssl"] = state["sslctx"]
            meth = session.post if r["post"] else session.get
            if r["post"]:
                kw["data"] = b"p" * 30
            try:
                resp = await meth(url, **kw)
            except asyncio.CancelledError:
                raise
            except Exception as e:
                outcomes[r["id"]] = ("error", type(e).__name__)
                return
            m = _M.search(b"X-M: " + resp.headers.get("X-M", "").encode("latin-1"))
            delivered[r["id"]] = tuple(m.groups()) if m else None
            outcomes[r["id"]] = ("resp", resp.status)
            c = resp.connection
            cid = c.transport.get_extra_info("sim_conn") if (c is not None and c.transport is not None) else None
            try:
                if r["after"] == "read":
                    body = await resp.read()
                    outcomes[r["id"]] = ("resp_read", resp.status, body)
                elif r["after"] == "release":
                    if cid is not None and not resp.content.at_eof():
                        client_abnormal.append((cid, "released_unread", loop.steps))
                    resp.release()
                elif r["after"] == "close":
                    if cid is not None:
                        client_abnormal.append((cid, "closed_by_caller", loop.steps))
                    resp.close()
                else:
                    if cid is not None and not resp.content.at_eof():
                        client_abnormal.append((cid, "left_unread", loop.steps))
                    async with resp:
                        pass
            except asyncio.CancelledError:
                raise
            except Exception as e:
                outcomes[r["id"]] = ("body_error", type(e).__name__)

        async def worker(reqs):
            for r in reqs:
                if r["gap"]:
                    await asyncio.sleep(r["gap"] * 0.001)
                await one(r)

        tasks = [loop.create_task(worker(reqs), name=f"w{i}") for i, reqs in enumerate(scn["tasks"])]
        base = loop.steps
        for ti, k in scn["cancels"]:
            def c(ti=ti):
                t = tasks[ti]
                if not t.done():
                    loop.faults["cancel"] += 1
                    loop.note("cancel", f"w{ti}")
                    t.cancel()
            loop.at_step.setdefault(base + k, []).append(c)
        loop.run_sim(None, vt_cap=loop.time() + 3.0, step_cap=300_000)
        for t in tasks:
            if not t.done():
                t.cancel()
        loop.run_sim(None, vt_cap=loop.time() + 1.0, step_cap=loop.steps + 50_000)

        # ---------------------------------------------------------------- judge
        def arrival_step(cid, offset):
            """loop step at which stream offset `offset` of the server->client direction reached the client"""
            tot = 0
            for step, chunk in conns[cid]["ctr"].recv_log:
                tot += len(chunk)
                if tot > offset:
                    return step
            return None

        def delivery_index(cid, offset):
            tot = 0
            for i, (step, chunk) in enumerate(conns[cid]["ctr"].recv_log):
                tot += len(chunk)
                if tot > offset:
                    return i
            return None

        def stray_timing(cid, n2):
            """'one_delivery' when the stray bytes arrived in the very delivery that also carried the start of
            the preceding answer (the whole exchange + surplus in one read); else 'later'"""
            prev = [k for k, e in sent.items() if e["conn"] == cid and e["kind"] == "answer" and k < n2]
            if not prev or n2 not in sent:
                return "later"
            a = delivery_index(cid, sent[max(prev)]["a"])
            b = delivery_index(cid, sent[n2]["a"])
            b_end = delivery_index(cid, sent[n2]["b"] - 1)
            return "one_delivery" if a is not None and a == b == b_end else "later"

        all_reqs = {r["id"]: r for reqs in scn["tasks"] for r in reqs}
        seen_serials = {}
        for rid, mk in sorted(delivered.items()):
            r = all_reqs[rid]
            if mk is None:
                violate("marker_present", "response_without_marker", f"request {rid} got a response without marker")
                continue
            o, cid, q, n = int(mk[0]), int(mk[1]), mk[2].decode(), int(mk[3])
            if not same_endpoint(o, r["origin"]):
                violate("origin_isolation", "response_from_other_origin",
                        f"request {rid} addressed to origin {r['origin']} {ORIGINS[r['origin']]} received a response produced by origin {o}")
            if n in seen_serials:
                violate("delivered_once", "marker_delivered_twice", f"response n{n} delivered to requests {seen_serials[n]} and {rid}")
            seen_serials[n] = rid
            ent = sent.get(n)
            ho = handover.get(rid)
            arr = arrival_step(cid, ent["a"]) if ent is not None and cid in conns else None
            early = ho is not None and arr is not None and arr < ho[0]
            if q != str(rid):
                kind = ent["kind"] if ent else "?"
                if kind == "answer" and cid in conns and any(n2 < n and _k != "partial" for _k, n2 in conns[cid]["abnormal"]):
                    kind = "shifted_after_stray"  # every later response on the connection is off by one
                if kind in ("surplus", "unsolicited"):
                    kind = kind + ":" + stray_timing(cid, n)
                elif kind == "shifted_after_stray":
                    causes = [n2 for k2, n2 in conns[cid]["abnormal"] if n2 < n and k2 != "partial"]
                    kind = kind + ":" + ("later" if any(stray_timing(cid, c2) == "later" for c2 in causes) or not causes else "one_delivery")
                if early:
                    violate("own_response", f"stale_bytes_delivered_as_response:{kind}",
                            f"request {rid} received response n{n} ({kind}, answering {q}) whose bytes reached the client at "
                            f"step {arr}, before the request was handed to connection c{cid} at step {ho[0]} ({ho[1]})")
                else:
                    # not its own answer, but it arrived after hand-over: indistinguishable for any client
                    probes["stray_after_handover"] = probes.get("stray_after_handover", 0) + 1
            elif early:
                violate("own_response", "answer_arrived_before_handover",
                        f"harness inconsistency? request {rid}'s own answer arrived at step {arr} before hand-over {ho[0]}")
        # connection-level: a connection with an abnormal event carries no later exchange
        for cid in sorted(conns):
            info = conns[cid]
            reqs = info["requests"]
            for (rid, step, method, hdrs) in reqs:
                r = all_reqs.get(rid)
                if r is not None and info["ssl"] != (ORIGINS[r["origin"]][3] == "https"):
                    violate("origin_isolation", "tls_flag_mismatch",
                            f"request {rid} ({ORIGINS[r['origin']][3]}) was written to connection c{cid} whose TLS flag is {info['ssl']}")
                if r is not None and info["origin"] is not None and not same_endpoint(r["origin"], info["origin"]):
                    violate("origin_isolation", "request_on_other_origins_connection",
                            f"request {rid} for origin {r['origin']} was written to a connection of origin {info['origin']}")
            for idx in range(1, len(reqs)):
                rid, step = reqs[idx][0], reqs[idx][1]
                ho = handover.get(rid)
                if ho is None:
                    continue
                prev = reqs[idx - 1][0]
                # server-side misbehaviour whose stray bytes reached the client before this hand-over
                # only the first stray message is judged: everything after it on this connection is a cascade
                for kind, n2 in sorted(info["abnormal"], key=lambda kn: kn[1])[:1]:
                    ent = sent.get(n2)
                    if ent is None:
                        continue
                    arr = arrival_step(cid, ent["a"])
                    if arr is not None and arr < ho[0] and n2 not in seen_serials:
                        violate("no_reuse_after_abnormal", "reused_with_stray_bytes_pending:" + ("partial_message_in_parser_tail" if kind == "partial" else stray_timing(cid, n2)),
                                f"connection c{cid} was handed to request {rid} at step {ho[0]} although stray bytes (n{n2}) "
                                f"had reached it at step {arr}")
                for (acid, kind, astep) in client_abnormal:
                    if acid == cid and astep < ho[0] and any(q[0] == rid for q in reqs[idx:]):
                        pr = all_reqs.get(prev)
                        violate("no_reuse_after_abnormal", f"reused_after_{kind}",
                                f"connection c{cid}: {kind} at step {astep}, yet request {rid} was handed to it at step {ho[0]}")
                if info["closed_by_server_step"] is not None and ho[0] > info["closed_by_server_step"] + 0:
                    pass  # a request written into a connection the peer is closing is the inherent race; not judged
        for rid, oc in sorted(outcomes.items()):
            r = all_reqs[rid]
            mk = delivered.get(rid)
            own = mk is not None and mk[2].decode() == str(rid)
            if oc[0] == "resp_read" and r["beh"] in ("trunc", "reset_mid") and own:
                violate("no_truncated_as_complete", f"truncated_body_delivered_complete:{r['beh']}",
                        f"request {rid}: peer truncated the body ({r['beh']}) but read() returned {oc[2][:40]!r} without error")
        # timeouts / cancellations: the connection must not carry a later request
        for rid, oc in sorted(outcomes.items()):
            if oc[0] == "error" and oc[1] in ("TimeoutError", "ServerTimeoutError", "SocketTimeoutError"):
                for cid in sorted(conns):
                    rl = [q[0] for q in conns[cid]["requests"]]
                    if rid in rl and rl.index(rid) < len(rl) - 1:
                        violate("no_reuse_after_abnormal", "reused_after_timeout",
                                f"request {rid} timed out on c{cid}, which then carried request {rl[rl.index(rid) + 1]}")
        if loop.exc_contexts:
            c0 = loop.exc_contexts[0]
            violate("loop_exception", f"{c0['exc_type']}@{c0.get('frame')}:{c0['message'][:40]}",
                    f"exception reached the loop: {c0['message']} {c0['exc']}")
        tclose = loop.run_sim(session.close(), vt_cap=loop.time() + 5.0)
        st = w.stats()
        probes["abnormal_client"] = len(client_abnormal)
        probes["transports_opened"] = len(conns)
        nontrivial = probes["reuse"] > 0 and (probes["misbehaviour"] > 0 or client_abnormal or st["faults"].get("cancel"))
        res = {
            "violations": viols, "nontrivial": bool(nontrivial), "sig": st["sig"], "digest": st["digest"],
            "steps": st["steps"], "vtime": st["vtime"], "faults": st["faults"], "probes": {k: v for k, v in probes.items() if v},
            "shape": f"o{no}-t{len(scn['tasks'])}-r{len(all_reqs)}-{scn['pol']}",
        }
        if log:
            res["event_log"] = loop.event_log
            res["debug"] = {"outcomes": outcomes, "delivered": delivered, "handover": handover}
        return res
