"""C06 - client connection reuse never mixes responses.

World C: one real ClientSession against 1-3 scripted raw origins that may
misbehave (surplus / unsolicited responses and fragments, early responses to
uploads, truncation, close, reset, stall, FIN or junk while the connection
idles in the pool; also well-behaved: interim 1xx responses before a later final response; HTTP/1.0 answers with or
without keep-alive and 'Connection: close' - in any spelling the field grammar allows - followed by a lingering close; coded (deflate/gzip) bodies, well-formed or
undecodable inside a complete framing), directly or through scripted forwarding proxies (absolute
form and CONNECT tunnels) with per-request proxy credentials / TLS settings.
Every response carries a marker (origin, connection, the request id it answers
or 'none', serial).  DESIGN.md section 9, C06.
"""
from __future__ import annotations

import asyncio
import base64
import random
import re
import zlib

from sim.net import SimResolver
from sim.peers import RawServerConn
from sim.world import World

PROP = "C06"
LEVEL = "exploration"
DESIGN_REF = "9/C06"
BUDGET = {"quick": 60, "thorough": 900}
BATCH = 120
TECHNIQUE = ("deterministic simulation: real client + pool against misbehaving scripted origins on a virtual-time loop; "
             "seeded timing of response end / release / surplus arrival / re-acquisition; per-byte arrival steps vs "
             "hand-over steps (from tracing signals) as oracle")
LEVEL_TEXT = (
    "Seeded exploration of request histories on one session x peer misbehaviour x timing: every response a caller gets "
    "must carry the marker of its own request and origin, must consist of bytes that reached the client after the request "
    "was handed to that connection, no marker is delivered twice, and a connection on which something abnormal happened "
    "carries no later exchange (judged at the raw server); a response with the caller's own marker says exactly what the "
    "peer's message says unless bytes that arrived after the hand-over precede it; the bytes the client writes to one "
    "connection are a sequence of complete requests (no request inside a body that was announced and not sent); all requests "
    "one connection carried name the same route (host, port, TLS flag and settings, proxy, proxy credentials and headers); "
    "a connection taken from the pool is not one the client already knew to have ended (transport closing: FIN read, or "
    "closed by the client after unparsable bytes) at the step it is handed out; when a connection without stray bytes is "
    "handed to its next request, the peer's complete final answer to the request before it has reached the client (a "
    "response that has not arrived cannot have been read to its end); a connection whose peer announced its end in the "
    "answer the caller was given (HTTP/1.0 without keep-alive, Connection: close) carries no request handed over after that "
    "answer had arrived; a connection that carried a request whose caller got an error - from the request, or from reading "
    "the response it was given (e.g. a coded body that cannot be decoded inside a complete framing) - carries no request "
    "after that one (judged at the raw server). Sampling, not proof."
)
LEVEL_NOTE = (
    "Trusted: the scripted origins' bookkeeping (what they sent, at which stream offset), SimNet delivery log (arrival "
    "step of every byte), the hand-over instant taken from the public tracing signals on_connection_create_end / "
    "on_connection_reuseconn. TLS is not simulated: https origins differ from http ones only in the pool key / recorded "
    "sslcontext, which is what the isolation clause needs; a CONNECT tunnel's TLS upgrade (loop.start_tls) is a pass-through "
    "on the same transport. Which connection a request is handed - and what the client knew of it then - is observed through "
    "a subclass of connector.Connection rebound into aiohttp.connector for the run (constructor only; behaviour unchanged)."
)
RULE = (
    "Run = 1-3 client tasks issuing 2-10 requests in total to 1-3 origins (differing in host, port, scheme) x per-request "
    "peer behaviour (ok, chunked, surplus response in same write / later / partial, unsolicited while idle, truncated "
    "body, close without header, Connection: close, reset mid-body, stall, slow body) x caller behaviour (read, release "
    "unread, close, leave context unread, per-request timeout, cancellation before step k) x segmentation/latency/ties. "
    "In a sampled share of the runs: uploads (body of known / unknown (chunked) / zero length, with or without Expect: "
    "100-continue) answered after the body (after '100 Continue') or early - a final response at the head instead of or "
    "right after the 100, the connection kept; and stray fragments that stop short of a complete message (five cut points) "
    "after an answer, in the same write or 1-30 ms later. "
    "In 12 % of the runs: routes - requests through one of two forwarding proxies (http targets in absolute form, https "
    "targets through a CONNECT tunnel) with proxy credentials (in the proxy URL or as Proxy-Authorization proxy header) and "
    "another proxy header whose values differ between requests, https requests with differing ssl= / server_hostname=. "
    "In 12 % of the runs: the peer closes the connection, or sends non-HTTP bytes on it, 1-8 ms after a complete answer "
    "(while it idles in the pool) and the next request for the same route is issued at that instant +-1 ms after 0-3 extra "
    "turns of the loop, so that re-acquisition falls before / between / after 'end processed' and connection_lost(). "
    "In 10 % of the runs: interim responses - a well-behaved peer answers a complete request with one or two 1xx responses "
    "(103, 102, an unsolicited 100, unregistered 1xx codes; never 101) and sends the final response 0-8 ms later in a write "
    "of its own, answering in request order; the task's next request mostly goes to the same route at once or around the "
    "instant the final response arrives. "
    "In 10 % of the runs: answers that speak of the connection's future - an HTTP/1.0 origin answering with a length-"
    "delimited response (Content-Length, 204, 304) with no Connection header / keep-alive / close, or an HTTP/1.1 origin "
    "saying Connection: close; a peer that announced the end that way reads nothing more from the connection and closes "
    "it 1-300 ms later (lingering close), the task's next request mostly going to the same route at once or around then. "
    "In 10 % of the runs: coded bodies - a peer answers with Content-Encoding deflate (zlib or raw) or gzip inside a "
    "complete framing (Content-Length reached / last chunk sent; 40 % ~0.7 kB bodies), the coded stream well-formed, cut "
    "short at a seeded point or with four bytes overwritten, the connection kept; the task's next request mostly goes to "
    "the same route 0-10 ms later. "
    "In 10 % of the runs: spellings of the Connection field - a peer that says 'close' (HTTP/1.1 or 1.0) or 'keep-alive' "
    "(HTTP/1.0) writes the token in lower / upper / title / mixed case, alone or in a list with 1-3 other tokens or empty "
    "elements before / after it, with SP, HTAB or nothing around the commas and the field value, the field name in another "
    "case, in 12 % of these the list split over two field lines; then lingering close / service as above. "
    "Non-trivial: a connection was reused at least once AND at least one misbehaviour or caller-side abnormal end fired."
)
COMPONENTS = {
    "real": ["client.ClientSession", "connector.TCPConnector (pool, keys)", "client_proto.ResponseHandler", "client_reqrep",
             "http_parser.HttpResponseParser (Python)", "tracing"],
    "stub": ["network (SimNet)", "DNS (SimResolver)", "origins and forwarding proxies (scripted raw servers)",
             "TLS (recorded, not performed; loop.start_tls = pass-through on the same transport)"],
}
ASSUMPTIONS = [
    "bytes still in flight when a request is handed to its connection are indistinguishable from an answer for any "
    "HTTP/1.1 client; the rule is therefore stated on arrival at the client's side of the connection",
    "the hand-over instant is the tracing signal, the earliest instant it can be",
]

ORIGINS = [
    ("a.test", "10.0.2.1", 80, "http"),
    ("b.test", "10.0.2.2", 80, "http"),
    ("a.test", "10.0.2.1", 8080, "http"),
    ("a.test", "10.0.2.1", 8080, "https"),  # same host and port as the previous one: only the TLS flag differs
]
BEHAVIOURS = ["ok", "ok", "ok", "chunked", "surplus_same", "surplus_later:1", "surplus_later:8", "surplus_partial",
              "trunc", "close_after", "connclose", "reset_mid", "stall", "slowbody:6", "surplus_later:30", "ok"]
AFTER = ["read", "read", "read", "release", "close", "leave"]
_M = re.compile(rb"X-M: o(\d+)\.c(\d+)\.q(\w+)\.n(\d+)")
# request line of every request this harness issues (bodies never contain it): used to find, in the raw byte stream a
# connection carried, every request the client wrote to it - also one the origin's framing took for something else
# (a request sent to a forwarding proxy names its target in absolute form)
_REQLINE = re.compile(rb"(GET|POST|HEAD) (?:http://[^/ \r\n]+)?/r/(\d+)/[^ \r\n]* HTTP/1\.1\r\n")
_CHUNKSIZE = re.compile(rb"[0-9a-fA-F]+(;[^\r\n]*)?")
# forwarding proxies (plain http to the proxy; https targets through a CONNECT tunnel)
PROXIES = [("p.test", "10.0.2.9", 3128), ("q.test", "10.0.2.10", 3128)]
# bytes that are not HTTP, sent on a connection that idles in the client's pool
JUNK = [b"this is not http\r\n\r\n", b"\x15\x03\x01\x00\x02\x02\x28\r\n\r\n", b"HTTP/9.9 banana\r\n\r\n"]
# the components of a request's route that are judged by connection_shared_across_routes (host, port and the TLS flag
# have invariants of their own)
_ROUTE_PARTS = ("proxy", "proxy_credentials", "proxy_headers", "tls_settings", "server_hostname")
# interim (1xx) responses a peer may send before the final one (101 is not interim: it ends the HTTP exchange)
INTERIM_CODES = [103, 103, 103, 102, 100, 199, 110]
INTERIM_REASONS = {100: b"Continue", 102: b"Processing", 103: b"Early Hints"}
# stray bytes that stop short of a complete message (sent after a complete answer): index = behaviour argument
FRAGMENTS = [
    b"HTTP/1.1 2",                                   # (0) the original surplus_partial: cut inside the status line
    b"HTTP/1.1 500 Stale\r\nX-Stale: ",              # (1) cut inside a header value
    b"HTTP/1.1 500 Stale\r\n",                       # (2) cut after a complete line
    b"HTTP/1.1 200 OK\r\nX-Stale: yes\r\nX-Pad: ",   # (3) same status as a real answer, extra headers
    b"H",                                            # (4) a single byte
]


def gen(rng, tier, index):
    no = rng.choice([1, 1, 2, 3, 4])
    ntasks = rng.choice([1, 1, 2, 3])
    tasks = []
    rid = 0
    for _ in range(ntasks):
        reqs = []
        for _ in range(rng.randint(1, 5)):
            beh = rng.choice(BEHAVIOURS)
            reqs.append({
                "id": rid, "origin": rng.randrange(no), "beh": beh, "after": rng.choice(AFTER),
                "gap": rng.choice([0, 0, 0, 1, 3, 10, 40]), "post": rng.random() < 0.25,
                "total": (rng.choice([0.02, 0.05]) if beh == "stall" else rng.choice([None, None, None, 0.05])),
            })
            rid += 1
        tasks.append(reqs)
    cancels = [[rng.randrange(ntasks), rng.randint(3, 150)] for _ in range(rng.choice([0, 0, 0, 1, 2]))]
    scn = {"norigins": no, "tasks": tasks, "cancels": cancels, "lat": rng.choice([0, 1, 3]),
           "pol": rng.choice(["whole", "whole", "small", "mixed", "byte"]), "limit": rng.choice([1, 2, 100]),
           "keepalive": rng.choice([15.0, 15.0, 0.02])}
    # Later additions are drawn from a generator of their own (seeded by one last draw) and only in a sampled share of
    # the scenarios, so that all other scenarios stay exactly what they were.
    _gen_extras(scn, random.Random(rng.getrandbits(64)))
    _gen_routes_and_idle_end(scn, random.Random(rng.getrandbits(64)))
    _gen_interim(scn, random.Random(rng.getrandbits(64)))
    _gen_announced_end(scn, random.Random(rng.getrandbits(64)))
    _gen_coded(scn, random.Random(rng.getrandbits(64)))
    _gen_conn_spelling(scn, random.Random(rng.getrandbits(64)))
    return scn


def _gen_extras(scn, rng):
    """(a) uploads: request bodies of known / unknown (chunked) / zero length, with or without Expect: 100-continue,
    against a peer that answers when the request is complete (after '100 Continue' if asked) or *early* - a final
    response at the head, instead of or right after the 100, optionally a few ms later - and keeps the connection;
    (b) stray fragments: bytes after a complete answer that stop short of a complete message (different cut points),
    in the same write or while the connection idles / after it was re-acquired."""
    uploads = rng.random() < 0.15
    fragments = rng.random() < 0.12
    for reqs in scn["tasks"]:
        for r in reqs:
            if uploads and rng.random() < 0.45:
                r["post"] = True
                r["up"] = {"body": rng.choice(["stream", "stream", "bytes", "empty"]), "expect": rng.random() < 0.5,
                           "early": rng.choice([None, None, "final", "final", "100_final"]),
                           "edelay": rng.choice([0, 0, 1, 3]), "chunks": rng.randint(1, 3), "cgap": rng.choice([0, 0, 1, 5])}
            if fragments and r["beh"] != "stall" and rng.random() < 0.4:
                k = rng.randrange(len(FRAGMENTS))
                r["beh"] = rng.choice([f"surplus_partial:{k}", f"surplus_partial:{k}", f"partial_later:{rng.choice([1, 8, 30])}:{k}"])


def _gen_routes_and_idle_end(scn, rng):
    """(c) routes: requests through one of two forwarding proxies (http targets in absolute form, https targets through
    a CONNECT tunnel), with proxy credentials (in the proxy URL or as a Proxy-Authorization proxy header) and another
    proxy header whose values differ between requests, and https requests with differing TLS settings (ssl= context /
    another context / False, server_hostname=) - everything the pool must keep apart besides host, port and scheme;
    (d) the end of an idle connection: the peer closes a connection, or sends bytes that are not HTTP on it, k ms after
    a complete answer - while it idles in the pool - and the next request for the same route is issued around that very
    instant (same virtual time +-1 ms, after 0-3 extra turns of the event loop), so that re-acquisition falls before,
    between and after the steps in which the client learns of the end (bytes/FIN read; connection_lost)."""
    routes = rng.random() < 0.12
    idle_end = rng.random() < 0.12
    if routes:
        scn["norigins"] = 4
        for reqs in scn["tasks"]:
            for r in reqs:
                if rng.random() < 0.8:
                    r["origin"] = rng.choice([3, 3, 3, 0, 0, 2])
                if rng.random() < 0.75:
                    r["via"] = {"px": rng.choice([0, 0, 0, 1]), "cred": rng.choice([None, 0, 1, 0, 1]),
                                "how": rng.choice(["url", "hdr"]), "tag": rng.choice([None, None, 0, 1])}
                if r["origin"] == 3 and rng.random() < 0.3:
                    r["tls"] = {"ssl": rng.choice(["ctx", "alt", "off"]), "sni": rng.choice([None, None, "alt.test"])}
                if r["beh"] != "stall" and rng.random() < 0.6:
                    r["beh"], r["after"] = rng.choice(["ok", "ok", "chunked"]), "read"
    if idle_end:
        nid = 1 + max(r["id"] for reqs in scn["tasks"] for r in reqs)
        for reqs in scn["tasks"]:
            i = 0
            while i < len(reqs):
                r = reqs[i]
                if r["beh"] != "stall" and not r.get("up") and rng.random() < 0.6:
                    k = rng.choice([1, 3, 8])
                    r["beh"] = rng.choice([f"idle_close:{k}", f"idle_close:{k}", f"idle_junk:{k}:{rng.randrange(len(JUNK))}"])
                    r["after"], r["total"] = "read", None
                    if i + 1 == len(reqs) and nid < 15:
                        reqs.append({"id": nid, "origin": r["origin"], "beh": "ok", "after": "read", "gap": 0, "post": False,
                                     "total": None})
                        nid += 1
                    if i + 1 < len(reqs):
                        nx = reqs[i + 1]
                        nx["origin"] = r["origin"]
                        for f in ("via", "tls"):
                            nx.pop(f, None)
                            if f in r:
                                nx[f] = dict(r[f])
                        nx["gap"] = max(0, k + rng.choice([-1, 0, 0, 0, 1, 2]))
                        nx["yields"] = rng.choice([0, 1, 1, 2, 3])
                i += 1


def _gen_interim(scn, rng):
    """(e) interim responses: a well-behaved peer sends one or two 1xx responses (103 Early Hints, 102 Processing, an
    unsolicited 100 Continue, an unregistered 1xx) when the request is complete and the final response 0-8 ms later, in
    a write of its own - the exchange is not over when the interim response has been read.  The following request of
    the same task mostly goes to the same route, at once or around the instant the final response arrives."""
    if rng.random() >= 0.10:
        return
    for reqs in scn["tasks"]:
        for i, r in enumerate(reqs):
            if r["beh"] == "stall" or rng.random() >= 0.55:
                continue
            codes = [rng.choice(INTERIM_CODES) for _ in range(rng.choice([1, 1, 1, 2]))]
            r["interim"] = {"codes": codes, "delay": rng.choice([0, 1, 3, 3, 8]), "hdr": rng.random() < 0.5}
            if rng.random() < 0.7:
                r["after"] = "read"
            if i + 1 < len(reqs) and rng.random() < 0.7:
                nx = reqs[i + 1]
                nx["origin"] = r["origin"]
                for f in ("via", "tls"):
                    nx.pop(f, None)
                    if f in r:
                        nx[f] = dict(r[f])
                nx["gap"] = rng.choice([0, 0, 0, 1, r["interim"]["delay"], r["interim"]["delay"] + 2])


def _gen_announced_end(scn, rng):
    """(f) peers that speak of the connection's future in their answer: an HTTP/1.0 origin (status line HTTP/1.0) that
    answers with a length-delimited response (Content-Length, or a 204 / 304 without body) and no Connection header,
    'Connection: keep-alive' or 'Connection: close'; also an HTTP/1.1 origin that says 'Connection: close'.  A peer that
    announced the end of the connection that way (HTTP/1.0 without keep-alive; 'close') is finished with it: it reads
    nothing more from it and closes it a few ms later (lingering close) - so the next request of the task, mostly for
    the same route and issued at once or around that instant, finds the connection still open on the client's side.
    A peer that said keep-alive (or HTTP/1.1 without 'close') serves the connection on as usual."""
    if rng.random() >= 0.10:
        return
    nid = 1 + max(r["id"] for reqs in scn["tasks"] for r in reqs)
    for reqs in scn["tasks"]:
        i = 0
        while i < len(reqs):
            r = reqs[i]
            i += 1
            if r["beh"] == "stall" or r.get("up") or r.get("interim") or rng.random() >= 0.6:
                continue
            ver = rng.choice(["1.0", "1.0", "1.0", "1.1"])
            r["old"] = {"ver": ver, "conn": "close" if ver == "1.1" else rng.choice([None, None, None, "ka", "close"]),
                        "status": rng.choice([200, 200, 200, 204, 304]), "linger": rng.choice([1, 3, 8, 30, 300])}
            r["beh"], r["total"] = "ok", None
            if rng.random() < 0.8:
                r["after"] = "read"
            if i == len(reqs) and nid < 15 and rng.random() < 0.7:
                reqs.append({"id": nid, "origin": r["origin"], "beh": "ok", "after": "read", "gap": 0, "post": False,
                             "total": None})
                nid += 1
            if i < len(reqs) and rng.random() < 0.8:
                nx = reqs[i]
                nx["origin"] = r["origin"]
                for f in ("via", "tls"):
                    nx.pop(f, None)
                    if f in r:
                        nx[f] = dict(r[f])
                nx["gap"] = max(0, rng.choice([0, 0, 0, 1, r["old"]["linger"] - 1, r["old"]["linger"] + 1]))


def _gen_coded(scn, rng):
    """(g) coded bodies: the peer answers with Content-Encoding: deflate (zlib), raw deflate under the same name, or gzip
    (the session decodes: auto_decompress is the default), the message framing always complete (Content-Length reached /
    last chunk sent) and the connection kept.  The coded stream inside is well-formed, cut short at a seeded point, or has
    a few bytes overwritten: a response whose framing is complete and whose content cannot be decoded is a response that
    failed.  The following request of the same task mostly goes to the same route, at once or a few ms later."""
    if rng.random() >= 0.10:
        return
    nid = 1 + max(r["id"] for reqs in scn["tasks"] for r in reqs)
    for reqs in scn["tasks"]:
        i = 0
        while i < len(reqs):
            r = reqs[i]
            i += 1
            if (r["beh"].split(":")[0] not in ("ok", "chunked", "slowbody") or r.get("up") or r.get("interim") or r.get("old")
                    or rng.random() >= 0.6):
                continue
            r["coded"] = {"enc": rng.choice(["deflate", "deflate", "deflate", "gzip", "rawdeflate"]),
                          "dmg": rng.choice([None, "cut", "cut", "cut", "flip"]), "at": rng.randrange(1000),
                          "big": rng.random() < 0.4}
            r["total"] = None
            if rng.random() < 0.8:
                r["after"] = "read"
            if i == len(reqs) and nid < 15 and rng.random() < 0.7:
                reqs.append({"id": nid, "origin": r["origin"], "beh": "ok", "after": "read", "gap": 0, "post": False,
                             "total": None})
                nid += 1
            if i < len(reqs) and rng.random() < 0.8:
                nx = reqs[i]
                nx["origin"] = r["origin"]
                for f in ("via", "tls"):
                    nx.pop(f, None)
                    if f in r:
                        nx[f] = dict(r[f])
                nx["gap"] = rng.choice([0, 0, 0, 1, 3, 10])


# how a peer may spell the Connection field (RFC 9110 5.3, 5.6.1, 7.6.1): a case-insensitive list of tokens, OWS = SP / HTAB
# around the commas, empty elements, one or several field lines
SP_OTHERS = ["TE", "TE", "te", "keep-alive", "X-Hop", "Trailer", ""]
SP_SEPS = [", ", ", ", ",", ",\t", " , ", "\t,", ",\t ", " ,\t", "\t,\t", ",  "]
SP_NAMES = ["Connection", "Connection", "connection", "CONNECTION"]


def _gen_conn_spelling(scn, rng):
    """(h) spellings of the Connection field: a peer that speaks of the connection's future (as in (f): 'close' from an
    HTTP/1.1 or 1.0 origin, 'keep-alive' from an HTTP/1.0 one, then a lingering close / service as usual) writes the field
    the way the grammar allows - the token in lower / upper / title / mixed case, alone or in a list with other tokens
    before and after it ('TE, close', 'close, TE', 'keep-alive, close'), SP / HTAB / nothing around the commas, empty list
    elements, OWS before and after the field value, the field name in another case, the list split over two field lines."""
    if rng.random() >= 0.10:
        return
    nid = 1 + max(r["id"] for reqs in scn["tasks"] for r in reqs)
    for reqs in scn["tasks"]:
        i = 0
        while i < len(reqs):
            r = reqs[i]
            i += 1
            if r["beh"] == "stall" or r.get("up") or r.get("interim") or r.get("coded"):
                continue
            if not r.get("old"):
                if rng.random() >= 0.6:
                    continue
                ver = rng.choice(["1.1", "1.1", "1.0"])
                r["old"] = {"ver": ver, "conn": "close" if ver == "1.1" else rng.choice(["ka", "ka", "close"]),
                            "status": rng.choice([200, 200, 200, 204, 304]), "linger": rng.choice([1, 3, 8, 30, 300])}
                r["beh"], r["total"] = "ok", None
                if rng.random() < 0.8:
                    r["after"] = "read"
            old = r["old"]
            if old["conn"] is None:
                old["conn"] = "close" if old["ver"] == "1.1" else rng.choice(["ka", "close"])
            others = [rng.choice(SP_OTHERS) for _ in range(rng.choice([0, 1, 1, 1, 2, 2, 3]))]
            old["sp"] = {"others": others, "pos": rng.randint(0, len(others)), "case": rng.choice(["lower", "lower", "upper", "title", "mixed"]),
                         "seps": [rng.choice(SP_SEPS) for _ in others], "lead": rng.choice([" ", " ", " ", "", "\t", "  ", " \t"]),
                         "trail": rng.choice(["", "", "", " ", "\t"]), "name": rng.choice(SP_NAMES),
                         "lines": rng.randint(1, 3) if rng.random() < 0.12 else 0}
            if i == len(reqs) and nid < 15 and rng.random() < 0.7:
                reqs.append({"id": nid, "origin": r["origin"], "beh": "ok", "after": "read", "gap": 0, "post": False,
                             "total": None})
                nid += 1
            if i < len(reqs) and rng.random() < 0.8:
                nx = reqs[i]
                nx["origin"] = r["origin"]
                for f in ("via", "tls"):
                    nx.pop(f, None)
                    if f in r:
                        nx[f] = dict(r[f])
                nx["gap"] = max(0, rng.choice([0, 0, 0, 1, old["linger"] - 1, old["linger"] + 1]))


def _connection_lines(conn, sp):
    """the Connection field line(s) a peer writes for `conn` ('close' / 'ka') in the spelling `sp`:
    [(field name, field value as on the wire incl. the OWS around it)]"""
    main = {"close": "close", "ka": "keep-alive"}[conn]
    main = {"lower": main, "upper": main.upper(), "title": main.title(),
            "mixed": "".join(ch_.upper() if k % 2 else ch_ for k, ch_ in enumerate(main))}[sp["case"]]
    pos = min(sp["pos"], len(sp["others"]))
    tokens = list(sp["others"][:pos]) + [main] + list(sp["others"][pos:])
    seps = sp["seps"] or [", "]
    cut = min(sp["lines"], len(tokens) - 1) if sp["lines"] else 0
    lines, val = [], ""
    for j, t in enumerate(tokens):
        if cut and j == cut:
            lines.append(val)  # (the field line ends where a comma would stand)
            val = t
        else:
            val += (seps[(j - 1) % len(seps)] if j else "") + t
    lines = [(sp["name"].encode(), (sp["lead"] + v + sp["trail"]).encode()) for v in lines + [val]]
    return lines


_ENC = {"deflate": "d", "rawdeflate": "r", "gzip": "g"}
_ENC_WBITS = {"deflate": 15, "rawdeflate": -15, "gzip": 31}


def _encode_body(body, coded):
    """the bytes a peer puts on the wire for `body` under the content coding `coded` describes (damage included)"""
    co = zlib.compressobj(6, zlib.DEFLATED, _ENC_WBITS[coded["enc"]])
    wire = co.compress(body) + co.flush()
    if coded["dmg"] == "cut":
        wire = wire[:1 + coded["at"] * (len(wire) - 1) // 1000]  # 1 .. len-1 bytes of it
    elif coded["dmg"] == "flip":
        k = 2 + coded["at"] * (len(wire) - 2) // 1000
        wire = wire[:k] + b"\xff\x00\xff\x00"[:len(wire) - k] + wire[k + 4:]
    return wire


def _announces_end(old):
    """the answer says that the peer will not serve this connection any further (RFC 9112, 9.3 and 9.6)"""
    return old["conn"] == "close" or (old["ver"] == "1.0" and old["conn"] != "ka")


def shrink(scn):
    if scn["cancels"]:
        for i in range(len(scn["cancels"])):
            yield dict(scn, cancels=scn["cancels"][:i] + scn["cancels"][i + 1:])
    ts = scn["tasks"]
    for ti, reqs in enumerate(ts):
        if len(reqs) > 1:
            for i in range(len(reqs)):
                yield dict(scn, tasks=ts[:ti] + [reqs[:i] + reqs[i + 1:]] + ts[ti + 1:])
    if len(ts) > 1:
        for ti in range(len(ts)):
            canc = [[t if t < ti else t - 1, k] for t, k in scn["cancels"] if t != ti]
            yield dict(scn, tasks=ts[:ti] + ts[ti + 1:], cancels=canc)
    for ti, reqs in enumerate(ts):
        for i, r in enumerate(reqs):
            for k, v in (("gap", 0), ("post", False), ("total", None), ("after", "read")):
                if r[k] != v and not (k == "total" and r["beh"] == "stall") and not (k == "post" and r.get("up")):
                    yield dict(scn, tasks=ts[:ti] + [reqs[:i] + [dict(r, **{k: v})] + reqs[i + 1:]] + ts[ti + 1:])
            if r["beh"] not in ("ok",):
                yield dict(scn, tasks=ts[:ti] + [reqs[:i] + [dict(r, beh="ok", total=None)] + reqs[i + 1:]] + ts[ti + 1:])
            for f in ("via", "tls", "yields", "interim", "old", "coded"):
                if r.get(f):
                    yield dict(scn, tasks=ts[:ti] + [reqs[:i] + [{k: v for k, v in r.items() if k != f}] + reqs[i + 1:]] + ts[ti + 1:])
            via = r.get("via")
            if via:
                for k, v in (("px", 0), ("cred", None), ("tag", None), ("how", "hdr")):
                    if via[k] != v:
                        yield dict(scn, tasks=ts[:ti] + [reqs[:i] + [dict(r, via=dict(via, **{k: v}))] + reqs[i + 1:]] + ts[ti + 1:])
            old = r.get("old")
            if old:
                for k, v in (("status", 200), ("linger", 8), ("conn", None), ("ver", "1.0")):
                    if old[k] != v:
                        yield dict(scn, tasks=ts[:ti] + [reqs[:i] + [dict(r, old=dict(old, **{k: v}))] + reqs[i + 1:]] + ts[ti + 1:])
            sp = (old or {}).get("sp")
            if sp:
                yield dict(scn, tasks=ts[:ti] + [reqs[:i] + [dict(r, old={k: v for k, v in old.items() if k != "sp"})] + reqs[i + 1:]] + ts[ti + 1:])
                for j in range(len(sp["others"])):
                    sp2 = dict(sp, others=sp["others"][:j] + sp["others"][j + 1:], seps=sp["seps"][:j] + sp["seps"][j + 1:],
                               pos=sp["pos"] - (1 if j < sp["pos"] else 0))
                    yield dict(scn, tasks=ts[:ti] + [reqs[:i] + [dict(r, old=dict(old, sp=sp2))] + reqs[i + 1:]] + ts[ti + 1:])
                for k, v in (("lines", 0), ("case", "lower"), ("lead", " "), ("trail", ""), ("name", "Connection")):
                    if sp[k] != v:
                        yield dict(scn, tasks=ts[:ti] + [reqs[:i] + [dict(r, old=dict(old, sp=dict(sp, **{k: v})))] + reqs[i + 1:]] + ts[ti + 1:])
                for j, sep in enumerate(sp["seps"]):
                    if sep != ", ":
                        yield dict(scn, tasks=ts[:ti] + [reqs[:i] + [dict(r, old=dict(old, sp=dict(sp, seps=sp["seps"][:j] + [", "] + sp["seps"][j + 1:])))] + reqs[i + 1:]] + ts[ti + 1:])
            cod = r.get("coded")
            if cod:
                for k, v in (("big", False), ("enc", "deflate"), ("dmg", "cut"), ("at", 500)):
                    if cod[k] != v and not (k == "dmg" and cod[k] is None):
                        yield dict(scn, tasks=ts[:ti] + [reqs[:i] + [dict(r, coded=dict(cod, **{k: v}))] + reqs[i + 1:]] + ts[ti + 1:])
            it = r.get("interim")
            if it:
                if len(it["codes"]) > 1:
                    for j in range(len(it["codes"])):
                        yield dict(scn, tasks=ts[:ti] + [reqs[:i] + [dict(r, interim=dict(it, codes=it["codes"][:j] + it["codes"][j + 1:]))] + reqs[i + 1:]] + ts[ti + 1:])
                if it["hdr"]:
                    yield dict(scn, tasks=ts[:ti] + [reqs[:i] + [dict(r, interim=dict(it, hdr=False))] + reqs[i + 1:]] + ts[ti + 1:])
            if r["beh"].startswith("idle_junk:"):
                yield dict(scn, tasks=ts[:ti] + [reqs[:i] + [dict(r, beh="idle_close:" + r["beh"].split(":")[1])] + reqs[i + 1:]] + ts[ti + 1:])
            if r["beh"].startswith("partial_later:"):
                yield dict(scn, tasks=ts[:ti] + [reqs[:i] + [dict(r, beh="surplus_partial:" + r["beh"].split(":")[2])] + reqs[i + 1:]] + ts[ti + 1:])
            up = r.get("up")
            if up:
                plain = {k: v for k, v in r.items() if k != "up"}
                yield dict(scn, tasks=ts[:ti] + [reqs[:i] + [plain] + reqs[i + 1:]] + ts[ti + 1:])
                for k, v in (("early", None), ("expect", False), ("body", "bytes"), ("edelay", 0), ("chunks", 1), ("cgap", 0)):
                    if up[k] != v:
                        yield dict(scn, tasks=ts[:ti] + [reqs[:i] + [dict(r, up=dict(up, **{k: v}))] + reqs[i + 1:]] + ts[ti + 1:])
    if scn["lat"]:
        yield dict(scn, lat=0)
    if scn["pol"] != "whole":
        yield dict(scn, pol="whole")


def run(scn, ch, log=False):
    import aiohttp.connector as connector_mod

    base = connector_mod.Connection
    try:
        return _run(scn, ch, log, connector_mod, base)
    finally:
        connector_mod.Connection = base


def _run(scn, ch, log, connector_mod, BaseConn):
    import aiohttp

    viols = []

    def violate(inv, key, msg):
        if not any(v["invariant"] == inv and v["key"] == key for v in viols):
            viols.append({"invariant": inv, "key": key, "message": msg})

    with World(ch, 0, log_events=log) as w:
        loop, net = w.loop, w.net
        net.max_latency_ticks = scn["lat"]
        net.default_policy = scn["pol"]
        no = scn["norigins"]
        serial = [0]
        sent = {}  # serial -> dict(origin, conn, req, kind, off_a, off_b, conn_name)
        msgs = {}  # serial -> what that message says: status, reason, headers, body
        conns = {}  # sim_conn id -> dict(origin, ssl, requests=[(reqid, step)], abnormal=[(kind, step)], out_len, ctr)
        probes = {"misbehaviour": 0, "reuse": 0, "abnormal_client": 0}

        spelt = {r_["id"]: r_ for reqs_ in scn["tasks"] for r_ in reqs_}

        def on_connect(ctr, str_):
            cid = ctr.get_extra_info("sim_conn")
            ctr.recv_log = []
            conns[cid] = {"ctr": ctr, "str": str_, "ssl": ctr.get_extra_info("sslcontext") is not None, "requests": [],
                          "abnormal": [], "out": 0, "origin": None, "closed_by_server_step": None, "framed": [],
                          "proxy": None, "handouts": 0}

        net.on_connect = on_connect

        # Every hand-out of a connection to a request - new or from the pool - constructs a connector.Connection: the
        # harness sees which connection it is and what the client knew of it at that instant.  A connection that is
        # handed out a second time is a reused one; by then the client must not have learnt that it ended (peer's FIN
        # read, reset, closed by the client itself after bytes it could not parse): transport.is_closing() is asyncio's
        # statement of exactly that, from the step the end is processed, one loop iteration before connection_lost().
        class TConn(BaseConn):
            __slots__ = ()

            def __init__(self, connector, key, protocol, loop_):
                super().__init__(connector, key, protocol, loop_)
                tr = protocol.transport
                cid = tr.get_extra_info("sim_conn") if tr is not None else None
                info = conns.get(cid)
                if info is None:
                    return
                info["handouts"] += 1
                if info["handouts"] > 1:
                    probes["handed_out_again"] = probes.get("handed_out_again", 0) + 1
                    if tr.is_closing():
                        why = "peer_closed" if tr.eof_received else "closed_by_client"
                        violate("no_reuse_after_abnormal", f"handed_out_after_connection_ended:{why}",
                                f"connection c{cid} was taken from the pool and handed to a request at step {loop.steps} although "
                                f"its transport was already closing ({why}: "
                                + ("the peer's FIN had been read" if tr.eof_received else "the client had closed it, e.g. after bytes it could not parse")
                                + "; connection_lost() not yet delivered)")

        connector_mod.Connection = TConn

        class OriginConn(RawServerConn):
            """keeps everything the client wrote to the connection"""

            def __init__(self, server):
                super().__init__(server)
                self.raw = bytearray()
                self.scan = 0

            def data_received(self, data):
                self.raw += data
                super().data_received(data)

        class Origin:
            def __init__(self, idx):
                self.idx = idx
                self.loop = loop
                self.conns = []

            def on_connect(self, c):
                cid = c.transport.get_extra_info("sim_conn")
                c.cid = cid
                conns[cid]["origin"] = self.idx
                c.oidx = self.idx  # the origin whose answers this connection carries (a proxy: the target it relays to)
                c.tunnel = None
                c.off = 0        # stream offset (client -> origin) of c.buf[0]
                c.mode = "head"  # what the origin's request framing expects next: "head" | "body" | "dead"
                c.cur = None
                c.busy = False   # an exchange's final answer is still to come (interim response sent): answers go out in order
                c.waiting = []

            def respond(self, c, req_tag, kind, body=b"", chunked=False, extra_hdr=b"", declared=None, status=200,
                        reason=b"OK", version=b"1.1", coded=None, said=None):
                # said: what the field lines in extra_hdr say (name, value) when they are not spelt 'Name: value'
                said = [tuple(h.split(b": ", 1)) for h in extra_hdr.split(b"\r\n") if h] if said is None else said
                serial[0] += 1
                n = serial[0]
                marker = b"X-M: o%d.c%d.q%s.n%d" % (c.oidx, c.cid, str(req_tag).encode(), n)
                body = body or (b"body-" + marker[5:])
                line = b"HTTP/%s %d %s\r\n" % (version, status, reason)
                if status in (204, 304):
                    # a response that has no body by definition: delimited by its head alone, no length announced
                    head, payload, body = line + marker + b"\r\n" + extra_hdr + b"\r\n", b"", b""
                    msgs[n] = {"status": status, "reason": reason.decode(), "body": b"", "size": len(head),
                               "headers": [(b"X-M", marker[5:])] + said}
                    return n, head, payload
                wire = body
                if coded:
                    # a coded body: the framing below is that of the coded bytes and is always complete
                    if coded["big"]:
                        body = body + b"-" + random.Random(n).randbytes(600).hex().encode()
                    wire = _encode_body(body, coded)
                    extra_hdr = extra_hdr + b"Content-Encoding: %s\r\n" % (b"gzip" if coded["enc"] == "gzip" else b"deflate")
                    said = said + [(b"Content-Encoding", b"gzip" if coded["enc"] == "gzip" else b"deflate")]
                if chunked:
                    head = line + marker + b"\r\nTransfer-Encoding: chunked\r\n" + extra_hdr + b"\r\n"
                    parts = [wire[:len(wire) // 2], wire[len(wire) // 2:]] if coded and len(wire) > 3 else [wire]
                    payload = b"".join(b"%x\r\n%s\r\n" % (len(p_), p_) for p_ in parts) + b"0\r\n\r\n"
                    fr = (b"Transfer-Encoding", b"chunked")
                else:
                    dl = len(wire) if declared is None else declared
                    head = line + marker + b"\r\nContent-Length: %d\r\n" % dl + extra_hdr + b"\r\n"
                    payload = wire
                    fr = (b"Content-Length", b"%d" % dl)
                # what exactly this message says, for the comparison with what the caller is given
                msgs[n] = {"status": status, "reason": reason.decode(), "body": body, "size": len(head) + len(payload),
                           "headers": [(b"X-M", marker[5:]), fr] + said}
                if coded:
                    msgs[n]["coded"] = coded["enc"] + (":" + coded["dmg"] if coded["dmg"] else "")
                    msgs[n]["damaged"] = bool(coded["dmg"])
                return n, head, payload

            def send(self, c, n, data, req_tag, kind):
                info = conns[c.cid]
                if info["closed_by_server_step"] is not None:
                    return  # the origin decided to end this connection: it sends nothing more
                a = info["out"]
                info["out"] += len(data)
                ent = sent.setdefault(n, {"origin": c.oidx, "conn": c.cid, "req": req_tag, "kind": kind, "a": a})
                ent["b"] = info["out"]
                c.send(data)

            def on_data(self, c):
                info = conns[c.cid]
                # (1) every request line the client wrote to this connection, wherever it lies in the stream
                for m in _REQLINE.finditer(c.raw, c.scan):
                    info["requests"].append((int(m.group(2)), loop.steps, m.group(1), m.start()))
                    c.scan = m.end()
                # (2) the origin frames the stream as HTTP/1.1 says: head, then the body the head announced
                while c.mode != "dead":
                    if c.mode == "head":
                        i = c.buf.find(b"\r\n\r\n")
                        if i < 0:
                            return
                        head = bytes(c.buf[:i])
                        del c.buf[:i + 4]
                        start = c.off
                        c.off += i + 4
                        lines = head.split(b"\r\n")
                        low = {}
                        for ln in lines[1:]:
                            k = ln.find(b":")
                            low[ln[:k].lower()] = ln[k + 1:].strip(b" \t")
                        if info["closed_by_server_step"] is not None:
                            c.mode = "dead"
                            return
                        routed = self.route(c, lines[0], low)
                        if routed == "tunnel":
                            continue  # the head was a CONNECT: what follows is addressed to the tunnel's target
                        if not routed or not _REQLINE.fullmatch(lines[0] + b"\r\n"):
                            c.mode = "dead"
                            return
                        target = lines[0].split(b" ")[1].decode("latin-1")
                        if target.startswith("http://"):
                            target = "/" + target.split("/", 3)[3]
                        path, _, query = target.partition("?")
                        opts = dict(kv.split("=", 1) for kv in query.split("&") if kv)
                        parts = path.split("/")  # /r/<id>/<beh>[/<arg>[/<arg2>]]
                        if b"chunked" in low.get(b"transfer-encoding", b"").lower():
                            framing = "chunked"
                        elif int(low.get(b"content-length", b"0")) > 0:
                            framing = "length"
                        else:
                            framing = "none"
                        cur = c.cur = {"rid": int(parts[2]), "beh": parts[3], "args": [int(x) for x in parts[4:]],
                                       "start": start, "end": None, "framing": framing, "answered": False,
                                       "left": int(low.get(b"content-length", b"0")), "cstate": "size",
                                       "expect": low.get(b"expect", b"").lower() == b"100-continue",
                                       "early": opts.get("e"), "edelay": int(opts.get("d", "0")),
                                       "interim": [int(x) for x in opts["i"].split(".")] if opts.get("i") else [],
                                       "idelay": int(opts.get("w", "0")), "ihdr": opts.get("h") == "1",
                                       "coded": ({"enc": {v: k for k, v in _ENC.items()}[opts["z"].split(".")[0]],
                                                  "dmg": {"n": None, "c": "cut", "f": "flip"}[opts["z"].split(".")[1]],
                                                  "at": int(opts["z"].split(".")[2]), "big": opts["z"].split(".")[3] == "1"}
                                                 if opts.get("z") else None),
                                       "old": ({"ver": {"10": "1.0", "11": "1.1"}[opts["v"]], "conn": {"n": None, "ka": "ka", "cl": "close"}[opts["k"]],
                                                "status": int(opts["s"]), "linger": int(opts["l"])} if opts.get("v") else None)}
                        if cur["old"]:
                            # (how the peer spells what it says: kept in the scenario, HTAB does not travel well in a URL)
                            cur["old"]["sp"] = ((spelt.get(cur["rid"]) or {}).get("old") or {}).get("sp")
                        info["framed"].append(cur)
                        c.mode = "body"
                        if framing != "none":
                            if cur["expect"] and cur["early"] != "final":
                                serial[0] += 1
                                self.send(c, serial[0], b"HTTP/1.1 100 Continue\r\n\r\n", cur["rid"], "interim")
                            if cur["early"]:
                                probes["early_response"] = probes.get("early_response", 0) + 1
                                probes["misbehaviour"] += 1
                                if cur["edelay"]:
                                    loop.sim_call_later(cur["edelay"] * 0.001, self.answer, c, cur)
                                else:
                                    self.answer(c, cur)
                    done = self.consume_body(c, c.cur)
                    if done is None:
                        # what follows the head is not the body it announced: a server can only give up
                        c.mode = "dead"
                        probes["request_framing_error"] = probes.get("request_framing_error", 0) + 1
                        n, h, p = self.respond(c, "none", "framing_error", extra_hdr=b"Connection: close\r\n", status=400,
                                               reason=b"Bad Request")
                        self.send(c, n, h + p, "none", "framing_error")
                        info["closed_by_server_step"] = loop.steps
                        c.transport.close()
                        return
                    if not done:
                        return
                    c.cur["end"] = c.off
                    c.mode = "head"
                    self.answer(c, c.cur)

            def route(self, c, line0, low):
                """an origin serves what it is sent"""
                return True

            def consume_body(self, c, cur):
                """True: the body is complete; False: more bytes needed; None: the bytes are not a body of this framing"""
                if cur["framing"] == "none":
                    return True
                if cur["framing"] == "length":
                    take = min(len(c.buf), cur["left"])
                    del c.buf[:take]
                    c.off += take
                    cur["left"] -= take
                    return cur["left"] == 0
                while True:
                    if cur["cstate"] == "data":
                        if len(c.buf) < cur["left"]:
                            return False
                        if bytes(c.buf[cur["left"] - 2:cur["left"]]) != b"\r\n":
                            return None
                        del c.buf[:cur["left"]]
                        c.off += cur["left"]
                        cur["cstate"] = "size"
                        continue
                    j = c.buf.find(b"\r\n")
                    if j < 0:
                        return False
                    line = bytes(c.buf[:j])
                    if cur["cstate"] == "size":
                        if not _CHUNKSIZE.fullmatch(line):
                            return None
                        size = int(line.split(b";")[0], 16)
                        cur["cstate"], cur["left"] = ("data", size + 2) if size else ("trailer", 0)
                    elif not line:  # end of the trailer section
                        del c.buf[:j + 2]
                        c.off += j + 2
                        return True
                    del c.buf[:j + 2]
                    c.off += j + 2

            def answer(self, c, cur):
                if cur["answered"] or conns[c.cid]["closed_by_server_step"] is not None:
                    return
                if c.transport is None or c.transport.is_closing():
                    return
                if c.busy:
                    # a peer answers in the order it was asked: this answer waits for the final answer still owed
                    if cur not in c.waiting:
                        c.waiting.append(cur)
                    return
                cur["answered"] = True
                if cur["interim"]:
                    # a well-behaved peer: interim response(s) now, the final response in a write of its own
                    for code in cur["interim"]:
                        serial[0] += 1
                        n = serial[0]
                        marker = b"X-M: o%d.c%d.q%d.n%d" % (c.oidx, c.cid, cur["rid"], n)
                        hint = b"Link: </style.css>; rel=preload\r\n" if cur["ihdr"] else b""
                        self.send(c, n, b"HTTP/1.1 %d %s\r\n" % (code, INTERIM_REASONS.get(code, b"Interim")) + marker + b"\r\n"
                                  + hint + b"\r\n", cur["rid"], "interim")
                    probes["interim_sent"] = probes.get("interim_sent", 0) + 1
                    if cur["idelay"]:
                        c.busy = True
                        loop.sim_call_later(cur["idelay"] * 0.001, self.final, c, cur)
                        return
                self.behave(c, cur["rid"], cur["beh"], cur["args"][0] if cur["args"] else 0, cur)

            def final(self, c, cur):
                c.busy = False
                waiting, c.waiting = c.waiting, []
                if conns[c.cid]["closed_by_server_step"] is not None or c.transport is None or c.transport.is_closing():
                    return
                probes["final_after_interim_later"] = probes.get("final_after_interim_later", 0) + 1
                self.behave(c, cur["rid"], cur["beh"], cur["args"][0] if cur["args"] else 0, cur)
                for nxt in waiting:
                    self.answer(c, nxt)

            def behave(self, c, rid, beh, arg, cur=None):
                info = conns[c.cid]
                early = cur is not None and cur["end"] is None
                if beh in ("ok", "chunked", "slowbody", "close_after", "connclose", "surplus_same", "surplus_later",
                           "surplus_partial", "partial_later", "idle_close", "idle_junk"):
                    chunked = beh == "chunked"
                    extra = b"Connection: close\r\n" if beh == "connclose" else b""
                    # a final answer given instead of the '100 Continue' that was asked for is a refusal
                    st = (417, b"Expectation Failed") if early and cur["expect"] and cur["early"] == "final" else (200, b"OK")
                    old = cur.get("old") if cur is not None and beh == "ok" and not early else None
                    if old:
                        # a peer that speaks of the connection's future: HTTP/1.0 (persistent only with keep-alive) or 'close'
                        probes["answers_speaking_of_connection"] = probes.get("answers_speaking_of_connection", 0) + 1
                        st = {200: (200, b"OK"), 204: (204, b"No Content"), 304: (304, b"Not Modified")}[old["status"]]
                        extra = {None: b"", "ka": b"Connection: keep-alive\r\n", "close": b"Connection: close\r\n"}[old["conn"]]
                        said = None
                        if old.get("sp") and old["conn"]:
                            # the same statement in another of the spellings the grammar allows
                            probes["connection_field_spelt"] = probes.get("connection_field_spelt", 0) + 1
                            flines = _connection_lines(old["conn"], old["sp"])
                            extra = b"".join(fn + b":" + fv + b"\r\n" for fn, fv in flines)
                            said = [(fn, fv.strip(b" \t")) for fn, fv in flines]
                            if any(b"\t" in fv.strip(b" \t") for fn, fv in flines):
                                probes["connection_field_htab_inside"] = probes.get("connection_field_htab_inside", 0) + 1
                            if len(flines) > 1:
                                probes["connection_field_two_lines"] = probes.get("connection_field_two_lines", 0) + 1
                        n, head, payload = self.respond(c, rid, "answer", extra_hdr=extra, status=st[0], reason=st[1],
                                                        version=old["ver"].encode(), said=said)
                        self.send(c, n, head + payload, rid, "answer")
                        if _announces_end(old):
                            # the peer is finished with this connection: it reads nothing more from it and closes it a
                            # little later (lingering close)
                            probes["end_announced"] = probes.get("end_announced", 0) + 1
                            msgs[n]["announces_end"] = "http10_without_keepalive" if old["conn"] != "close" else "connection_close"
                            c.mode = "dead"

                            def close_linger():
                                if c.transport is None or c.transport.is_closing() or info["closed_by_server_step"] is not None:
                                    return
                                probes["lingering_close"] = probes.get("lingering_close", 0) + 1
                                info["closed_by_server_step"] = loop.steps
                                c.transport.close()
                            loop.sim_call_later(old["linger"] * 0.001, close_linger)
                        return
                    coded = cur.get("coded") if cur is not None and not early else None
                    if coded:
                        probes["coded_answers"] = probes.get("coded_answers", 0) + 1
                        if coded["dmg"]:
                            probes["coded_answers_damaged"] = probes.get("coded_answers_damaged", 0) + 1
                            probes["misbehaviour"] += 1
                    n, head, payload = self.respond(c, rid, "answer", chunked=chunked, extra_hdr=extra, status=st[0], reason=st[1],
                                                    coded=coded)
                    if beh == "slowbody":
                        self.send(c, n, head, rid, "answer")
                        loop.sim_call_later(arg * 0.001, self.send, c, n, payload, rid, "answer")
                        return
                    data = head + payload
                    if beh == "surplus_same":
                        probes["misbehaviour"] += 1
                        n2, h2, p2 = self.respond(c, "none", "surplus")
                        self.send(c, n, data, rid, "answer")
                        self.send(c, n2, h2 + p2, "none", "surplus")
                        info["abnormal"].append(("surplus_bytes", n2))
                        return
                    self.send(c, n, data, rid, "answer")
                    if beh == "surplus_later":
                        probes["misbehaviour"] += 1

                        def later():
                            if c.transport is None or c.transport.is_closing():
                                return
                            n2, h2, p2 = self.respond(c, "none", "unsolicited")
                            self.send(c, n2, h2 + p2, "none", "unsolicited")
                            info["abnormal"].append(("surplus_bytes", n2))
                        loop.sim_call_later(arg * 0.001, later)
                    elif beh == "surplus_partial":
                        probes["misbehaviour"] += 1
                        serial[0] += 1
                        n2 = serial[0]
                        self.send(c, n2, FRAGMENTS[arg], "none", "surplus")
                        info["abnormal"].append(("partial", n2))
                    elif beh == "partial_later":
                        probes["misbehaviour"] += 1

                        def later_fragment():
                            if c.transport is None or c.transport.is_closing():
                                return
                            serial[0] += 1
                            n2 = serial[0]
                            self.send(c, n2, FRAGMENTS[cur["args"][1]], "none", "unsolicited")
                            info["abnormal"].append(("partial", n2))
                        loop.sim_call_later(arg * 0.001, later_fragment)
                    elif beh == "idle_close":
                        # the peer ends the connection some ms after a complete answer: while it idles in the pool
                        probes["misbehaviour"] += 1

                        def close_idle():
                            if c.transport is None or c.transport.is_closing() or info["closed_by_server_step"] is not None:
                                return
                            probes["idle_close"] = probes.get("idle_close", 0) + 1
                            info["closed_by_server_step"] = loop.steps
                            c.transport.close()
                        loop.sim_call_later(arg * 0.001, close_idle)
                    elif beh == "idle_junk":
                        # ... or sends bytes that are not HTTP
                        probes["misbehaviour"] += 1

                        def later_junk():
                            if c.transport is None or c.transport.is_closing():
                                return
                            if info["abnormal"]:
                                return  # (after a stray fragment the junk would complete it into a message of its own)
                            probes["idle_junk"] = probes.get("idle_junk", 0) + 1
                            serial[0] += 1
                            n2 = serial[0]
                            self.send(c, n2, JUNK[cur["args"][1]], "none", "unsolicited")
                            info["abnormal"].append(("partial", n2))
                        loop.sim_call_later(arg * 0.001, later_junk)
                    elif beh in ("close_after", "connclose"):
                        probes["misbehaviour"] += int(beh == "close_after")
                        info["closed_by_server_step"] = loop.steps
                        c.transport.close()
                elif beh == "trunc":
                    probes["misbehaviour"] += 1
                    n, head, payload = self.respond(c, rid, "answer", body=b"0123456789", declared=10)
                    self.send(c, n, head + payload[:4], rid, "answer")
                    info["closed_by_server_step"] = loop.steps
                    c.transport.close()
                elif beh == "reset_mid":
                    probes["misbehaviour"] += 1
                    n, head, payload = self.respond(c, rid, "answer", body=b"A" * 60)
                    self.send(c, n, head + payload[:20], rid, "answer")
                    info["closed_by_server_step"] = loop.steps
                    loop.sim_call_later(0.002, c.transport.abort)
                elif beh == "stall":
                    probes["misbehaviour"] += 1

            def on_eof(self, c):
                pass

            def on_lost(self, c):
                pass

        def origin_index(host, port, scheme):
            for i in range(no):
                if (ORIGINS[i][0], ORIGINS[i][2], ORIGINS[i][3]) == (host, port, scheme):
                    return i
            return None

        class Proxy(Origin):
            """A forwarding proxy, played by the origins' own script: a request in absolute form is answered as the
            origin its URL names would answer it; CONNECT opens a tunnel to the origin it names (TLS is a pass-through)
            and from then on the connection is a connection of that origin.  The proxy admits everybody; what it was
            told by whom (Proxy-Authorization, X-Px-Tag) is kept per connection."""

            def __init__(self, pidx):
                super().__init__(None)
                self.pidx = pidx

            def on_connect(self, c):
                super().on_connect(c)
                info = conns[c.cid]
                info["proxy"], info["px_seen"] = self.pidx, []
                c.oidx = None

            def route(self, c, line0, low):
                info = conns[c.cid]
                parts = line0.split(b" ")
                seen = (low.get(b"proxy-authorization"), low.get(b"x-px-tag"))
                if parts[0] == b"CONNECT" and c.tunnel is None and len(parts) == 3:
                    host, _, port = parts[1].decode("latin-1").rpartition(":")
                    oi = origin_index(host, int(port) if port.isdigit() else -1, "https")
                    if oi is None:
                        return False
                    info["px_seen"].append(("connect",) + seen)
                    probes["tunnels"] = probes.get("tunnels", 0) + 1
                    c.tunnel = c.oidx = oi
                    serial[0] += 1
                    self.send(c, serial[0], b"HTTP/1.1 200 Connection established\r\n\r\n", "none", "connect")
                    return "tunnel"
                if c.tunnel is not None:
                    return not parts[1].startswith(b"http://")  # inside the tunnel: the target origin's own traffic
                if len(parts) == 3 and parts[1].startswith(b"http://"):
                    auth = parts[1][7:].split(b"/", 1)[0].decode("latin-1")
                    host, _, port = auth.partition(":")
                    oi = origin_index(host, int(port) if port.isdigit() else 80, "http")
                    if oi is None:
                        return False
                    info["px_seen"].append(("forward",) + seen)
                    probes["forwarded"] = probes.get("forwarded", 0) + 1
                    c.oidx = oi
                    return True
                return False  # origin-form on a connection to a proxy: nothing a proxy can route

        origins = []
        listener_of = {}
        for i in range(no):
            name, ip, port, scheme = ORIGINS[i]
            net.dns[name] = [ip]
            if (ip, port) in listener_of:
                origins.append(origins[listener_of[(ip, port)]])
                continue
            listener_of[(ip, port)] = i
            o = Origin(i)
            origins.append(o)
            net.listen((lambda o=o: OriginConn(o)), ip, port)

        uses_proxy = any(r.get("via") for reqs in scn["tasks"] for r in reqs)
        if uses_proxy:
            for pi, (pname, pip, pport) in enumerate(PROXIES):
                net.dns[pname] = [pip]
                net.listen((lambda o=Proxy(pi): OriginConn(o)), pip, pport)

            async def start_tls(transport, protocol, sslcontext, *, server_hostname=None, **kw):
                # TLS is not performed: the upgrade of an established transport (the tunnel) hands the very same
                # transport to the new protocol; like asyncio's start_tls it closes a transport it cannot upgrade
                if transport.is_closing():
                    transport.close()
                    raise ConnectionAbortedError(103, "SSL handshake is taking place on a closed transport")
                conns[transport.get_extra_info("sim_conn")]["ssl"] = True
                loop.note("start_tls", transport.name)
                transport.set_protocol(protocol)
                return transport

            loop.start_tls = start_tls

        def same_endpoint(a, b):
            return ORIGINS[a][1:3] == ORIGINS[b][1:3]
        handover = {}  # reqid -> (step, "new"|"reuse")
        handovers = {}  # reqid -> every hand-over of that request (a request the client retries is handed over again)
        delivered = {}  # reqid -> parsed marker tuple
        client_abnormal = []  # (conn id, kind, step, request id)
        req_conn = {}

        async def on_create_end(session, ctx, params):
            rid = ctx.trace_request_ctx
            handover[rid] = (loop.steps, "new")
            handovers.setdefault(rid, []).append((loop.steps, "new"))

        async def on_reuse(session, ctx, params):
            rid = ctx.trace_request_ctx
            handover[rid] = (loop.steps, "reuse")
            handovers.setdefault(rid, []).append((loop.steps, "reuse"))
            probes["reuse"] += 1

        tc = aiohttp.TraceConfig()
        tc.on_connection_create_end.append(on_create_end)
        tc.on_connection_reuseconn.append(on_reuse)
        state = {}

        async def setup():
            import ssl as _ssl
            state["sslctx"] = _ssl.create_default_context() if any(ORIGINS[i][3] == "https" for i in range(no)) else None
            if any((r.get("tls") or {}).get("ssl") == "alt" for reqs in scn["tasks"] for r in reqs):
                state["sslctx2"] = _ssl.SSLContext(_ssl.PROTOCOL_TLS_CLIENT)  # other TLS settings: another context
            conn = aiohttp.TCPConnector(resolver=SimResolver(net), limit=scn["limit"], keepalive_timeout=scn["keepalive"])
            state["session"] = aiohttp.ClientSession(connector=conn, trace_configs=[tc])

        loop.run_sim(setup(), vt_cap=1)
        session = state["session"]
        outcomes = {}
        failed = {}  # reqid -> (phase, exception type, step): the caller's request / reading of the response raised
        got = {}  # reqid -> status, reason, raw headers of the response the caller was given

        async def one(r):
            name, ip, port, scheme = ORIGINS[r["origin"]]
            beh = r["beh"].replace(":", "/")
            url = f"{scheme}://{name}:{port}/r/{r['id']}/{beh}"
            kw = {"trace_request_ctx": r["id"], "timeout": aiohttp.ClientTimeout(total=r["total"])}
            if scheme == "https":
                tls = r.get("tls") or {}
                kw["ssl"] = {"ctx": state["sslctx"], "alt": state.get("sslctx2"), "off": False}[tls.get("ssl", "ctx")]
                if tls.get("sni"):
                    kw["server_hostname"] = tls["sni"]
            via = r.get("via")
            if via:
                probes["proxied"] = probes.get("proxied", 0) + 1
                pname, pip, pport = PROXIES[via["px"]]
                cred = None if via["cred"] is None else "Basic " + base64.b64encode(f"u{via['cred']}:pw".encode()).decode()
                ph = {}
                if via["tag"] is not None:
                    ph["X-Px-Tag"] = f"t{via['tag']}"
                if cred is not None and via["how"] == "hdr":
                    ph["Proxy-Authorization"] = cred
                kw["proxy"] = f"http://u{via['cred']}:pw@{pname}:{pport}" if cred is not None and via["how"] == "url" else f"http://{pname}:{pport}"
                if ph:
                    kw["proxy_headers"] = ph
            up = r.get("up")
            meth = session.post if r["post"] or up else session.get
            if up:
                probes["uploads"] = probes.get("uploads", 0) + 1
                if up["body"] == "stream":
                    async def chunks():  # a body of unknown length: sent chunked
                        for i in range(up["chunks"]):
                            if up["cgap"]:
                                await asyncio.sleep(up["cgap"] * 0.001)
                            yield b"u%d-" % i + b"d" * 20
                    kw["data"] = chunks()
                else:
                    kw["data"] = b"p" * 30 if up["body"] == "bytes" else b""
                if up["expect"]:
                    kw["expect100"] = True
                if up["early"]:
                    url += f"?e={up['early']}&d={up['edelay']}"
            elif r["post"]:
                kw["data"] = b"p" * 30
            it = r.get("interim")
            if it:
                url += ("&" if "?" in url else "?") + f"i={'.'.join(str(x) for x in it['codes'])}&w={it['delay']}&h={int(it['hdr'])}"
            old = r.get("old")
            if old:
                url += ("&" if "?" in url else "?") + (f"v={old['ver'].replace('.', '')}&k={ {None: 'n', 'ka': 'ka', 'close': 'cl'}[old['conn']] }"
                                                       f"&s={old['status']}&l={old['linger']}")
            cod = r.get("coded")
            if cod:
                url += ("&" if "?" in url else "?") + (f"z={_ENC[cod['enc']]}.{ {None: 'n', 'cut': 'c', 'flip': 'f'}[cod['dmg']] }"
                                                       f".{cod['at']}.{int(cod['big'])}")
            try:
                resp = await meth(url, **kw)
            except asyncio.CancelledError:
                raise
            except Exception as e:
                outcomes[r["id"]] = ("error", type(e).__name__)
                failed[r["id"]] = ("request", type(e).__name__, loop.steps)
                return
            m = _M.search(b"X-M: " + resp.headers.get("X-M", "").encode("latin-1"))
            delivered[r["id"]] = tuple(m.groups()) if m else None
            outcomes[r["id"]] = ("resp", resp.status)
            got[r["id"]] = {"status": resp.status, "reason": resp.reason, "headers": list(resp.raw_headers)}
            c = resp.connection
            cid = c.transport.get_extra_info("sim_conn") if (c is not None and c.transport is not None) else None
            # "not fully read": for an upload the caller can be given a complete response whose connection is still attached
            # (the request's writer is pending); there it means that the end of the body has not been received from the
            # connection (is_eof(): bytes waiting in the response's own buffer are off the connection).  Other requests
            # are judged as before.
            unread = (lambda: not resp.content.is_eof()) if up else (lambda: not resp.content.at_eof())
            try:
                if r["after"] == "read":
                    body = await resp.read()
                    outcomes[r["id"]] = ("resp_read", resp.status, body)
                elif r["after"] == "release":
                    if cid is not None and unread():
                        client_abnormal.append((cid, "released_unread", loop.steps, r["id"]))
                    resp.release()
                elif r["after"] == "close":
                    if cid is not None:
                        client_abnormal.append((cid, "closed_by_caller", loop.steps, r["id"]))
                    resp.close()
                else:
                    if cid is not None and unread():
                        client_abnormal.append((cid, "left_unread", loop.steps, r["id"]))
                    async with resp:
                        pass
            except asyncio.CancelledError:
                raise
            except Exception as e:
                outcomes[r["id"]] = ("body_error", type(e).__name__)
                failed[r["id"]] = ("body", type(e).__name__, loop.steps)

        async def worker(reqs):
            for r in reqs:
                if r["gap"]:
                    await asyncio.sleep(r["gap"] * 0.001)
                for _ in range(r.get("yields", 0)):
                    await asyncio.sleep(0)  # the caller gets round to it a few turns of the loop later
                await one(r)

        tasks = [loop.create_task(worker(reqs), name=f"w{i}") for i, reqs in enumerate(scn["tasks"])]
        base = loop.steps
        for ti, k in scn["cancels"]:
            def c(ti=ti):
                t = tasks[ti]
                if not t.done():
                    loop.faults["cancel"] += 1
                    loop.note("cancel", f"w{ti}")
                    t.cancel()
            loop.at_step.setdefault(base + k, []).append(c)
        loop.run_sim(None, vt_cap=loop.time() + 3.0, step_cap=300_000)
        for t in tasks:
            if not t.done():
                t.cancel()
        loop.run_sim(None, vt_cap=loop.time() + 1.0, step_cap=loop.steps + 50_000)
        for t in tasks:
            if t.done() and not t.cancelled() and t.exception() is not None:
                raise t.exception()  # one() catches what the client raises: anything else is the harness' own fault

        # ---------------------------------------------------------------- judge
        def arrival_step(cid, offset):
            """loop step at which stream offset `offset` of the server->client direction reached the client"""
            tot = 0
            for step, chunk in conns[cid]["ctr"].recv_log:
                tot += len(chunk)
                if tot > offset:
                    return step
            return None

        def delivery_index(cid, offset):
            tot = 0
            for i, (step, chunk) in enumerate(conns[cid]["ctr"].recv_log):
                tot += len(chunk)
                if tot > offset:
                    return i
            return None

        def stray_timing(cid, n2):
            """'one_delivery' when the stray bytes arrived in the very delivery that also carried the start of
            the preceding answer (the whole exchange + surplus in one read); else 'later'"""
            prev = [k for k, e in sent.items() if e["conn"] == cid and e["kind"] == "answer" and k < n2]
            if not prev or n2 not in sent:
                return "later"
            a = delivery_index(cid, sent[max(prev)]["a"])
            b = delivery_index(cid, sent[n2]["a"])
            b_end = delivery_index(cid, sent[n2]["b"] - 1)
            return "one_delivery" if a is not None and a == b == b_end else "later"

        def answer_complete_before(cid, arid, step):
            """the peer's complete answer to request arid had reached the client on connection cid before loop step `step`"""
            for n in sorted(sent):
                e = sent[n]
                if e["conn"] == cid and e["req"] == arid and e["kind"] == "answer" and n in msgs:
                    last = arrival_step(cid, e["b"] - 1)
                    return e["b"] - e["a"] == msgs[n]["size"] and last is not None and last < step
            return False

        all_reqs = {r["id"]: r for reqs in scn["tasks"] for r in reqs}

        def route_of(r):
            name, ip, port, scheme = ORIGINS[r["origin"]]
            via = r.get("via") or {}
            tls = (r.get("tls") or {}) if scheme == "https" else {}
            return {"host": name, "port": port, "tls": scheme == "https", "proxy": via.get("px"),
                    "proxy_credentials": via.get("cred"), "proxy_headers": via.get("tag"),
                    "tls_settings": tls.get("ssl", "ctx"), "server_hostname": tls.get("sni")}
        seen_serials = {}
        for rid, mk in sorted(delivered.items()):
            r = all_reqs[rid]
            if mk is None:
                # bytes the peer put on the wire outside any answer and that reached the client after the hand-over are
                # part of the answer for any client (same latitude as for a response with a foreign marker, below)
                cid_ = next((c_ for c_ in sorted(conns) if any(q_[0] == rid for q_ in conns[c_]["requests"])), None)
                ho_ = handover.get(rid)
                junk_after = False
                if cid_ is not None and ho_ is not None:
                    before_ = sum(len(chunk) for step, chunk in conns[cid_]["ctr"].recv_log if step < ho_[0])
                    junk_after = any(n2 in sent and sent[n2]["b"] > before_ for _k2, n2 in conns[cid_]["abnormal"])
                if junk_after:
                    probes["junk_after_handover_in_response"] = probes.get("junk_after_handover_in_response", 0) + 1
                    continue
                violate("marker_present", "response_without_marker", f"request {rid} got a response without marker")
                continue
            o, cid, q, n = int(mk[0]), int(mk[1]), mk[2].decode(), int(mk[3])
            if not same_endpoint(o, r["origin"]):
                violate("origin_isolation", "response_from_other_origin",
                        f"request {rid} addressed to origin {r['origin']} {ORIGINS[r['origin']]} received a response produced by origin {o}")
            if n in seen_serials:
                violate("delivered_once", "marker_delivered_twice", f"response n{n} delivered to requests {seen_serials[n]} and {rid}")
            seen_serials[n] = rid
            ent = sent.get(n)
            ho = handover.get(rid)
            arr = arrival_step(cid, ent["a"]) if ent is not None and cid in conns else None
            early = ho is not None and arr is not None and arr < ho[0]
            if ent is not None and ent["kind"] == "interim" and q == str(rid):
                # not judged here: the caller was given an interim response of its own exchange (bytes sent after the
                # hand-over); what the property forbids is what follows - see reused_before_response_complete
                probes["interim_given_to_caller"] = probes.get("interim_given_to_caller", 0) + 1
            if q != str(rid):
                kind = ent["kind"] if ent else "?"
                if kind in ("answer", "interim") and cid in conns and any(n2 < n and _k != "partial" for _k, n2 in conns[cid]["abnormal"]):
                    kind = "shifted_after_stray"  # every later response on the connection is off by one
                if kind in ("surplus", "unsolicited"):
                    kind = kind + ":" + stray_timing(cid, n)
                elif kind == "shifted_after_stray":
                    causes = [n2 for k2, n2 in conns[cid]["abnormal"] if n2 < n and k2 != "partial"]
                    kind = kind + ":" + ("later" if any(stray_timing(cid, c2) == "later" for c2 in causes) or not causes else "one_delivery")
                if early:
                    violate("own_response", f"stale_bytes_delivered_as_response:{kind}",
                            f"request {rid} received response n{n} ({kind}, answering {q}) whose bytes reached the client at "
                            f"step {arr}, before the request was handed to connection c{cid} at step {ho[0]} ({ho[1]})")
                else:
                    # not its own answer, but it arrived after hand-over: indistinguishable for any client
                    probes["stray_after_handover"] = probes.get("stray_after_handover", 0) + 1
            elif early:
                violate("own_response", "answer_arrived_before_handover",
                        f"harness inconsistency? request {rid}'s own answer arrived at step {arr} before hand-over {ho[0]}")
            # The caller's response must say what the peer's message says.  Judged for a response that carries the
            # caller's own marker (one that does not is judged above).  Bytes that arrived after the hand-over and
            # before the answer are part of the answer for any client; so a difference is a violation when there are
            # no such bytes: then it can only be made of bytes that were there before the request was handed over.
            msg, g = msgs.get(n), got.get(rid)
            if q == str(rid) and msg is not None and g is not None and ent is not None and ho is not None and cid in conns:
                diff = [k for k in ("status", "reason", "headers") if g[k] != msg[k]]
                oc = outcomes.get(rid)
                if (oc is not None and oc[0] == "resp_read" and r["beh"] not in ("trunc", "reset_mid") and not msg.get("damaged")
                        and oc[2] != msg["body"]):
                    diff.append("body")
                if diff:
                    before = sum(len(chunk) for step, chunk in conns[cid]["ctr"].recv_log if step < ho[0])
                    stale = [n2 for k2, n2 in conns[cid]["abnormal"] if k2 == "partial" and n2 in sent and sent[n2]["a"] < before]
                    if before < ent["a"] or ent["b"] - ent["a"] != msg["size"]:  # (or the peer put other bytes in the middle of its answer)
                        probes["junk_after_handover_in_response"] = probes.get("junk_after_handover_in_response", 0) + 1
                    else:
                        violate("own_response", "response_not_what_peer_sent:" + ("stale_fragment_before_handover" if stale else "unexplained"),
                                f"request {rid} on c{cid}: the peer's answer n{n} says {msg['status']} {msg['reason']} {msg['headers']} "
                                f"body {msg['body'][:40]!r}, the caller got {g['status']} {g['reason']} {g['headers']}"
                                + (f" body {oc[2][:40]!r}" if "body" in diff else "") + f" (differs in {','.join(diff)}); all {before} bytes "
                                f"that preceded the answer on this connection had arrived before the hand-over at step {ho[0]}"
                                + (f", among them the stray fragment(s) n{stale}" if stale else ""))
        # connection-level: a connection with an abnormal event carries no later exchange
        for cid in sorted(conns):
            info = conns[cid]
            reqs = info["requests"]
            for (rid, step, method, hdrs) in reqs:
                r = all_reqs.get(rid)
                if r is not None and info["ssl"] != (ORIGINS[r["origin"]][3] == "https"):
                    violate("origin_isolation", "tls_flag_mismatch",
                            f"request {rid} ({ORIGINS[r['origin']][3]}) was written to connection c{cid} whose TLS flag is {info['ssl']}")
                if r is not None and info["origin"] is not None and not same_endpoint(r["origin"], info["origin"]):
                    violate("origin_isolation", "request_on_other_origins_connection",
                            f"request {rid} for origin {r['origin']} was written to a connection of origin {info['origin']}")
            # ... and with the same proxy (which proxy, presented with which credentials / proxy headers - a tunnel is
            # opened with them once) and the same TLS settings: all requests one connection carried name one route
            first = all_reqs.get(reqs[0][0]) if reqs else None
            for (rid, step, method, hdrs) in reqs[1:]:
                r = all_reqs.get(rid)
                if first is None or r is None:
                    continue
                ra, rb = route_of(first), route_of(r)
                if (ra["host"], ra["port"], ra["tls"]) != (rb["host"], rb["port"], rb["tls"]):
                    continue  # judged above
                for part in _ROUTE_PARTS:
                    if ra[part] != rb[part]:
                        mode = "direct" if info["proxy"] is None else "tunnel" if info["ssl"] else "forward"
                        violate("origin_isolation", f"connection_shared_across_routes:{part}:{mode}",
                                f"connection c{cid} ({'tunnel through ' if info['proxy'] is not None and info['ssl'] else ''}"
                                f"{'proxy %d' % info['proxy'] if info['proxy'] is not None else 'direct'}) carried request "
                                f"{first['id']} (route {ra}) and then request {rid} (route {rb}): they differ in {part}"
                                + (f"; the proxy was told {info['px_seen']}" if info.get("px_seen") else ""))
                        break
            if reqs and all_reqs.get(reqs[0][0]) is not None:
                r0 = all_reqs[reqs[0][0]]
                want = (r0.get("via") or {}).get("px")
                if want != info["proxy"]:
                    violate("origin_isolation", "connection_shared_across_routes:proxy",
                            f"request {r0['id']} (proxy {want}) was written to connection c{cid} (proxy {info['proxy']})")
            # the client's side of the stream is a sequence of complete requests: no request is written where the
            # body an earlier head announced has not been sent (or was cut short)
            for (rid, step, method, off) in reqs:
                for fr in info["framed"]:
                    if fr["start"] < off and (fr["end"] is None or off < fr["end"]):
                        violate("no_reuse_after_abnormal",
                                f"reused_with_request_body_unsent:{fr['framing']}:{'expect100' if fr['expect'] else 'no_expect'}",
                                f"connection c{cid}: request {rid} was written at stream offset {off}, inside the {fr['framing']} body "
                                f"announced by request {fr['rid']} (head at {fr['start']}, "
                                f"{'Expect: 100-continue, ' if fr['expect'] else ''}peer's answer: {fr['early'] or 'after the body'}) "
                                "which the client never completed")
                        break
            for idx in range(1, len(reqs)):
                rid, step = reqs[idx][0], reqs[idx][1]
                ho = handover.get(rid)
                if ho is None:
                    continue
                prev = reqs[idx - 1][0]
                # a connection whose response has not been received completely is not reused: when it is handed to the
                # next request, the peer's whole (final) answer to the request before it - one the origin took for a
                # well-formed request, on a connection that carried no stray bytes - must have reached the client
                if (not info["abnormal"] and any(fr["rid"] == prev and fr["end"] is not None for fr in info["framed"])
                        and all_reqs.get(prev) is not None and not answer_complete_before(cid, prev, ho[0])):
                    violate("no_reuse_after_abnormal", "reused_before_response_complete",
                            f"connection c{cid} was handed to request {rid} at step {ho[0]} ({ho[1]}) although the peer's final "
                            f"answer to request {prev}, the exchange before it on this connection, had not (completely) reached "
                            f"the client by then: that response cannot have been read to its end"
                            + (f" (the peer sent interim response(s) {all_reqs[prev]['interim']['codes']} first)" if all_reqs[prev].get("interim") else ""))
                # a connection whose peer announced its end in the answer (HTTP/1.0 without keep-alive, or 'Connection:
                # close' - the peer closes it and serves nothing more on it) is not reused: the raw server must not see
                # another request on it that was handed over after that whole answer had reached the client
                # (the hand-over meant is the one that put the request on this connection: the last one before the raw
                # server saw the request - the client may have retried it elsewhere since)
                ho_here = max((h for h in handovers.get(rid, []) if h[0] <= step), default=ho)
                for n2 in sorted(sent):
                    e2 = sent[n2]
                    # judged when that answer is the response the caller of the request before was given and no stray
                    # bytes stand before it in the peer's output (after stray bytes the answers of a connection are shifted
                    # or glued to the stray: the client never saw this head as a head - a cascade of the stray, judged elsewhere)
                    if (e2["conn"] == cid and e2["req"] == prev and e2["kind"] == "answer" and msgs.get(n2, {}).get("announces_end")
                            and delivered.get(prev) is not None and int(delivered[prev][3]) == n2
                            and not any(n_ in sent and sent[n_]["conn"] == cid and sent[n_]["a"] < e2["a"] for _k, n_ in info["abnormal"])
                            and answer_complete_before(cid, prev, ho_here[0])):
                        violate("no_reuse_after_abnormal", "reused_after_peer_announced_end:" + msgs[n2]["announces_end"],
                                f"connection c{cid}: the peer's answer n{n2} to request {prev} ({all_reqs[prev].get('old')}) announced "
                                f"the end of the connection ({msgs[n2]['announces_end']}) and had completely reached the client, yet "
                                f"the connection was handed to request {rid} at step {ho_here[0]} ({ho_here[1]}) and that request was "
                                f"written into it at step {step} (the peer reads nothing more from it"
                                + (f" and closed it at step {info['closed_by_server_step']})" if info["closed_by_server_step"] is not None else ")"))
                        break
                # server-side misbehaviour whose stray bytes reached the client before this hand-over
                # only the first stray message is judged: everything after it on this connection is a cascade
                for kind, n2 in sorted(info["abnormal"], key=lambda kn: kn[1])[:1]:
                    ent = sent.get(n2)
                    if ent is None:
                        continue
                    arr = arrival_step(cid, ent["a"])
                    if arr is not None and arr < ho[0] and n2 not in seen_serials:
                        violate("no_reuse_after_abnormal", "reused_with_stray_bytes_pending:" + ("partial_message_in_parser_tail" if kind == "partial" else stray_timing(cid, n2)),
                                f"connection c{cid} was handed to request {rid} at step {ho[0]} although stray bytes (n{n2}) "
                                f"had reached it at step {arr}")
                for (acid, kind, astep, arid) in client_abnormal:
                    if acid == cid and astep < ho[0] and any(q[0] == rid for q in reqs[idx:]):
                        if kind != "closed_by_caller" and all_reqs[arid].get("up") and answer_complete_before(cid, arid, ho[0]):
                            # While the request's writer is pending (an upload waiting for '100 Continue' or still
                            # sending) the connection goes back only when the writer has ended, and whether it may be
                            # reused is decided then: if by the next hand-over the whole answer had been received, nothing
                            # of it was left unread on the connection.  Requests without such an upload are judged as before.
                            probes["unread_but_received_at_deferred_release"] = probes.get("unread_but_received_at_deferred_release", 0) + 1
                            continue
                        pr = all_reqs.get(prev)
                        violate("no_reuse_after_abnormal", f"reused_after_{kind}",
                                f"connection c{cid}: {kind} at step {astep}, yet request {rid} was handed to it at step {ho[0]}")
                if info["closed_by_server_step"] is not None and ho[0] > info["closed_by_server_step"] + 0:
                    pass  # a request written into a connection the peer is closing is the inherent race; not judged
        for rid, oc in sorted(outcomes.items()):
            r = all_reqs[rid]
            mk = delivered.get(rid)
            own = mk is not None and mk[2].decode() == str(rid) and sent.get(int(mk[3]), {}).get("kind") != "interim"
            if oc[0] == "resp_read" and r["beh"] in ("trunc", "reset_mid") and own:
                violate("no_truncated_as_complete", f"truncated_body_delivered_complete:{r['beh']}",
                        f"request {rid}: peer truncated the body ({r['beh']}) but read() returned {oc[2][:40]!r} without error")
        # timeouts / cancellations: the connection must not carry a later request
        for rid, oc in sorted(outcomes.items()):
            if oc[0] == "error" and oc[1] in ("TimeoutError", "ServerTimeoutError", "SocketTimeoutError"):
                for cid in sorted(conns):
                    rl = [q[0] for q in conns[cid]["requests"]]
                    if rid in rl and rl.index(rid) < len(rl) - 1:
                        violate("no_reuse_after_abnormal", "reused_after_timeout",
                                f"request {rid} timed out on c{cid}, which then carried request {rl[rl.index(rid) + 1]}")
        # a connection whose response failed is not reused: when the caller's request raised, or reading the response it
        # was given raised (the peer's message could not be decoded, was cut short, ...), the raw server must not see
        # another request after that one on a connection that carried it (timeouts before the response: rule above)
        for rid, (phase, ename, fstep) in sorted(failed.items()):
            if phase == "request" and ename in ("TimeoutError", "ServerTimeoutError", "SocketTimeoutError"):
                continue
            if phase == "body" and ename in ("TimeoutError", "ServerTimeoutError", "SocketTimeoutError"):
                # the caller's own timer expiring after the whole message it was given had arrived (read() entered late:
                # the timer context raises at once) is no failure of the exchange: the connection went back, rightly, when
                # the message ended
                mk_ = delivered.get(rid)
                e_ = sent.get(int(mk_[3])) if mk_ is not None else None
                if e_ is not None and int(mk_[3]) in msgs and e_["b"] - e_["a"] == msgs[int(mk_[3])]["size"]:
                    last_ = arrival_step(e_["conn"], e_["b"] - 1)
                    if last_ is not None and last_ < fstep:
                        probes["late_read_after_complete_answer"] = probes.get("late_read_after_complete_answer", 0) + 1
                        continue
            for cid in sorted(conns):
                rl = [q[0] for q in conns[cid]["requests"]]
                if rid in rl and rl.index(rid) < len(rl) - 1:
                    probes["failed_then_reused"] = probes.get("failed_then_reused", 0) + 1
                    mk = delivered.get(rid)
                    what = msgs.get(int(mk[3]), {}).get("coded") if mk is not None else None
                    violate("no_reuse_after_abnormal", f"reused_after_failed_response:{phase}:{ename}",
                            f"request {rid} failed ({ename} while {'reading the response' if phase == 'body' else 'waiting for the response'}"
                            f", step {fstep})" + (f" - the peer's answer had a {what} body inside a complete framing" if what else "")
                            + f" on connection c{cid}, which then carried request {rl[rl.index(rid) + 1]}")
            if rid in failed and any(rid in [q[0] for q in conns[cid]["requests"]] for cid in conns):
                probes["failed_on_a_connection"] = probes.get("failed_on_a_connection", 0) + 1
        if loop.exc_contexts:
            c0 = loop.exc_contexts[0]
            violate("loop_exception", f"{c0['exc_type']}@{c0.get('frame')}:{c0['message'][:40]}",
                    f"exception reached the loop: {c0['message']} {c0['exc']}")
        tclose = loop.run_sim(session.close(), vt_cap=loop.time() + 5.0)
        st = w.stats()
        probes["abnormal_client"] = len(client_abnormal)
        probes["transports_opened"] = len(conns)
        nontrivial = probes["reuse"] > 0 and (probes["misbehaviour"] > 0 or client_abnormal or st["faults"].get("cancel"))
        res = {
            "violations": viols, "nontrivial": bool(nontrivial), "sig": st["sig"], "digest": st["digest"],
            "steps": st["steps"], "vtime": st["vtime"], "faults": st["faults"], "probes": {k: v for k, v in probes.items() if v},
            "shape": f"o{no}-t{len(scn['tasks'])}-r{len(all_reqs)}-{scn['pol']}",
        }
        if log:
            res["event_log"] = loop.event_log
            res["debug"] = {"outcomes": outcomes, "delivered": delivered, "handover": handover,
                            "task_exc": [repr(t.exception()) for t in tasks if t.done() and not t.cancelled() and t.exception()]}
        return res
