"""C04 workload W1: every application-controlled position x code points.

One scenario = one position x a block of strings (a code point embedded at the
start / middle / end of a harmless string, or seeded random strings).  For each
string the real aiohttp call is made inside the simulated world and the bytes
handed to the transport for that one message are judged against the baseline
message of the same position (same call with the neutral letter 'Z'):

  * the call was refused with an error and not one byte reached the transport
    (which error - ValueError, CookieError, LookupError, ... - is counted in the
    probes, the statement only asks for an error), or
  * the head has exactly as many lines as the baseline, every line that does
    not carry the supplied string is byte-identical to the baseline, the
    line(s) that carry it are well-formed per RFC 9110/9112 (strict reader in
    ref/http1.py), keep their field name, and - where the documented encoding
    is plain UTF-8 - are byte-for-byte the baseline line with the string
    substituted; the whole wire is exactly one complete message for the strict
    framer (no second message, truthful Content-Length / chunking).

This workload has no schedule in it: it is an exhaustive *input* enumeration
run through the simulation harness (DESIGN.md 9/C04, "Fit").
"""
from __future__ import annotations

import asyncio
import io
import re

from ref import chunked as refc
from ref import http1

BASE = "Xab"
NEUTRAL = "Z"
PLACES = ("start", "mid", "end")

_REQ_LINE = re.compile(rb"[!#$%&'*+\-.^_`|~0-9A-Za-z]+ [^\x00-\x20\x7f]+ HTTP/1\.[01]")
_STATUS_LINE = re.compile(rb"HTTP/1\.[01] [0-9]{3} [^\x00-\x08\x0a-\x1f\x7f]*")
_DELIMS = frozenset('"(),/;<=>?@[\\]{}')


def place(base: str, c: str, where: str) -> str:
    if where == "start":
        return c + base
    if where == "end":
        return base + c
    k = len(base) // 2 + 1
    return base[:k] + c + base[k:]


def charclass(cp: int) -> str:
    if cp == 0x0D:
        return "CR"
    if cp == 0x0A:
        return "LF"
    if cp == 0:
        return "NUL"
    if cp == 9:
        return "HTAB"
    if cp == 0x20:
        return "SP"
    if cp == 0x7F:
        return "DEL"
    if cp < 0x20:
        return "C0"
    if cp == 0x3A:
        return "colon"
    if cp < 0x7F:
        return "delim" if chr(cp) in _DELIMS else "tchar"
    if cp < 0xA0:
        return "C1"
    if cp < 0x100:
        return "latin1"
    if 0xD800 <= cp <= 0xDFFF:
        return "surrogate"
    return "BMP" if cp < 0x10000 else "astral"


def strclass(s: str, base: str) -> str:
    extra = [ch for ch in s if ch not in base]
    if len(extra) == 1:
        return charclass(ord(extra[0]))
    cl = sorted({charclass(ord(ch)) for ch in extra} - {"tchar"})
    return "str[" + "+".join(cl) + "]"


# ---------------------------------------------------------------------------
# positions


class Pos:
    """One application-controlled position.

    side    "srv": make(s) -> web.Response, sent through prepare()/write_eof() on a real
                    StreamWriter; "cli": make(s) -> kwargs for ClientSession.request()
    targets lower-case field names whose line may differ from the baseline
    start   the start line carries the string
    name    the string *is* a field name (top-level header)
    exact   the documented encoding is plain UTF-8 (enc): target lines must equal the baseline
            line with the string substituted
    """

    def __init__(self, name, side, make, *, base=BASE, targets=(), start=False, is_name=False, exact=False,
                 enc=None, varnames=(), body=None, session_kw=None, jar=None, expect_start=None,
                 pairs=False, params=False, pname=False, refuse_ok=()):
        self.name = name
        self.side = side
        self.make = make
        self.base = base
        self.targets = frozenset(targets)
        self.start = start
        self.is_name = is_name
        self.exact = exact
        self.enc = enc or (lambda s: s.encode("utf-8"))
        self.varnames = frozenset(varnames)
        self.body = body  # None | dict(boundary=fn(s)->bytes, part_targets, part_name, exact, content_varies)
        self.session_kw = session_kw
        self.jar = jar
        self.expect_start = expect_start
        self.pairs = pairs
        self.params = params
        self.pname = pname
        self.refuse_ok = refuse_ok


POSITIONS: dict[str, Pos] = {}
# The positions named in DESIGN.md 9/C04, one per distinct mechanism: these get every code point in the
# thorough tier.  The others reach the same mechanisms through another API (attribute setters, HTTP
# exceptions, payload header copying, the client half of a body position, ...) and get the quick subset.
CORE = (
    "srv_hval", "srv_hname", "srv_reason", "srv_ctype", "srv_cookie_name", "srv_cookie_value", "srv_cookie_path",
    "srv_pl_hval", "srv_cd_type", "srv_cd_pname", "srv_cd_pval_q", "srv_cd_pval_nq", "srv_cd_filename_q",
    "srv_cd_filename_nq", "srv_mp_hval", "srv_mp_hname", "srv_mp_boundary", "srv_fd_name_q", "srv_fd_name_nq",
    "srv_fd_filename_q", "srv_fd_ctype",
    "cli_hval", "cli_hname", "cli_method", "cli_path", "cli_query", "cli_cookie_name", "cli_cookie_value",
    "cli_jar_value", "cli_cookie_hdr", "cli_sess_hval",
)
# body positions that are also driven through a real ClientSession (the payload code is the same as
# on the server side; these cover ClientRequest's copying of payload headers and its own framing)
CLI_BODIES = ("mp_hval", "mp_hname", "mp_boundary", "mp_nosize_hval", "fd_name_q", "fd_filename_q", "fd_value",
              "fd_fobj_nq_nosize")
# positions added later (file-like values naming themselves; FormData behind an unsized field): registered after
# all the others, sampled separately by the seeded part so that older scenarios keep their shape
LATER = ("srv_fd_fobj_q", "srv_fd_fobj_nq", "srv_fd_fobj_nq_nosize", "cli_fd_fobj_nq_nosize", "srv_fd_name_nq_nosize",
         "srv_fd_filename_nq_nosize", "srv_fd_ctype_nosize")


def _reg(p: Pos):
    assert p.name not in POSITIONS
    POSITIONS[p.name] = p


def _build_positions():
    from aiohttp import CookieJar, FormData, MultipartWriter, payload, web
    from yarl import URL

    R = web.Response

    # ---- server side: top-level response headers, reason, cookies -------------------------------
    _reg(Pos("srv_hval", "srv", lambda s: R(body=b"hi", headers={"X-Probe": s}), targets=["x-probe"], exact=True))
    _reg(Pos("srv_hname", "srv", lambda s: R(body=b"hi", headers={s: "v"}), is_name=True, exact=True))
    _reg(Pos("srv_reason", "srv", lambda s: R(body=b"hi", reason=s), start=True, exact=True))

    def set_status(s):
        r = web.StreamResponse()
        r.set_status(404, s)
        return r
    _reg(Pos("srv_set_status", "srv", set_status, start=True, exact=True))
    _reg(Pos("srv_ctype", "srv", lambda s: R(body=b"hi", content_type=s), base="text/xab", targets=["content-type"], exact=True))
    _reg(Pos("srv_charset", "srv", lambda s: R(body=b"hi", content_type="text/plain", charset=s), targets=["content-type"], exact=True))

    def ctype_attr(s):
        r = R(text="hi")
        r.content_type = s
        return r
    _reg(Pos("srv_ctype_attr", "srv", ctype_attr, base="text/xab", targets=["content-type"], exact=True))

    def charset_attr(s):
        r = R(body=b"hi", content_type="text/plain")
        r.charset = s
        return r
    _reg(Pos("srv_charset_attr", "srv", charset_attr, targets=["content-type"], exact=True, enc=lambda s: s.lower().encode("utf-8")))

    def cookie(**kw):
        def mk(s):
            r = R(body=b"hi")
            a = {k: (s if v is None else v) for k, v in kw.items()}
            r.set_cookie(a.pop("name"), a.pop("value"), **a)
            return r
        return mk
    _reg(Pos("srv_cookie_name", "srv", cookie(name=None, value="v"), targets=["set-cookie"], pairs=True))
    _reg(Pos("srv_cookie_value", "srv", cookie(name="k", value=None), targets=["set-cookie"], pairs=True))
    _reg(Pos("srv_cookie_path", "srv", cookie(name="k", value="v", path=None), base="/xab", targets=["set-cookie"]))
    _reg(Pos("srv_cookie_domain", "srv", cookie(name="k", value="v", domain=None), base="xab.test", targets=["set-cookie"]))
    _reg(Pos("srv_cookie_expires", "srv", cookie(name="k", value="v", expires=None), targets=["set-cookie"]))

    def del_cookie(s):
        r = R(body=b"hi")
        r.del_cookie(s)
        return r
    _reg(Pos("srv_del_cookie", "srv", del_cookie, targets=["set-cookie"], pairs=True))

    def etag(s):
        r = R(body=b"hi")
        r.etag = s
        return r
    _reg(Pos("srv_etag", "srv", etag, targets=["etag"], exact=True))

    def last_modified(s):
        r = R(body=b"hi")
        r.last_modified = s
        return r
    _reg(Pos("srv_last_modified", "srv", last_modified, targets=["last-modified"], exact=True))

    def from_exc(exc):
        # the glue of web_protocol.RequestHandler._handle_request for a raised HTTPException
        r = R(status=exc.status, reason=exc.reason, text=exc.text, headers=exc.headers)
        r._cookies = exc._cookies
        return r
    _reg(Pos("srv_exc_location", "srv", lambda s: from_exc(web.HTTPFound(location="/" + s)), targets=["location"]))
    _reg(Pos("srv_exc_reason", "srv", lambda s: from_exc(web.HTTPBadRequest(reason=s)), start=True, exact=True,
             varnames=["content-length"], body={"free": True}))

    # ---- payload headers copied into the message head ----------------------------------------------
    BP = payload.BytesPayload
    _reg(Pos("srv_pl_hval", "srv", lambda s: R(body=BP(b"hi", headers={"X-Pl": s})), targets=["x-pl"], exact=True))
    _reg(Pos("srv_pl_hname", "srv", lambda s: R(body=BP(b"hi", headers={s: "v"})), is_name=True, exact=True))
    _reg(Pos("srv_pl_ctype", "srv", lambda s: R(body=BP(b"hi", content_type=s)), base="text/xab", targets=["content-type"], exact=True))
    _reg(Pos("srv_pl_filename", "srv", lambda s: R(body=payload.BytesIOPayload(io.BytesIO(b"hi"), filename=s)),
             base="xab.txt", targets=["content-disposition", "content-type"], params=True))

    def cd(disptype=None, pname=None, pval=None, quote=True):
        def mk(s):
            p = BP(b"hi")
            t = s if disptype is None else disptype
            n = s if pname is None else pname
            v = s if pval is None else pval
            p.set_content_disposition(t, quote_fields=quote, **{n: v})
            return p
        return mk
    cdpos = {
        "cd_type": dict(make=cd(pname="name", pval="v")),
        "cd_pname": dict(make=cd(disptype="attachment", pval="v")),
        "cd_pval_q": dict(make=cd(disptype="attachment", pname="name"), params=True),
        "cd_pval_nq": dict(make=cd(disptype="attachment", pname="name", quote=False), params=True),
        "cd_filename_q": dict(make=cd(disptype="attachment", pname="filename"), params=True),
        "cd_filename_nq": dict(make=cd(disptype="attachment", pname="filename", quote=False), params=True),
    }
    for nm, d in cdpos.items():
        mk = d.pop("make")
        _reg(Pos("srv_" + nm, "srv", (lambda mk: lambda s: R(body=mk(s)))(mk), targets=["content-disposition"], **d))

    # ---- multipart / form-data bodies -----------------------------------------------------------------
    B = "BOUND"

    def mp_hval(s):
        m = MultipartWriter("mixed", boundary=B)
        m.append(b"hello", headers={"X-Part": s})
        return m

    def mp_hname(s):
        m = MultipartWriter("mixed", boundary=B)
        m.append(b"hello", headers={s: "v"})
        return m

    def mp_part_ctype(s):
        m = MultipartWriter("mixed", boundary=B)
        m.append_payload(BP(b"hello", content_type=s))
        return m

    def mp_subtype(s):
        m = MultipartWriter(s, boundary=B)
        m.append(b"hello")
        return m

    def mp_boundary(s):
        m = MultipartWriter("mixed", boundary=s)
        m.append(b"hello")
        return m

    async def _agen():
        yield b"streamed"

    def mp_nosize_hval(s):
        # first part of unknown size: MultipartWriter.size is None, so part headers are not
        # serialised (and validated) before the message head goes out
        m = MultipartWriter("mixed", boundary=B)
        m.append_payload(payload.AsyncIterablePayload(_agen()))
        m.append(b"hello", headers={"X-Part": s})
        return m

    class _NamedIO(io.BytesIO):
        """a file-like object (io.IOBase) whose .name is an application-supplied string: FormData takes the
        part's filename from it when add_field() is not given one (helpers.guess_filename)"""

        def __init__(self, data, name):
            super().__init__(data)
            self.name = name

    def fd(field, quote=True, nosize=False):
        def mk(s):
            f = FormData(quote_fields=quote, boundary=B)
            if nosize:
                # a field of unknown size first: the form's size is None, nothing serialises the later
                # parts' headers before the message head goes out - add_field() is the only check in time
                f.add_field("s", _agen())
            if field == "fobj":
                f.add_field("f", _NamedIO(b"hello", s))
            elif field == "name":
                f.add_field(s, b"hello")
            elif field == "filename":
                f.add_field("f", b"hello", filename=s)
            elif field == "ctype":
                f.add_field("f", b"hello", content_type=s)
            elif field == "value":
                f.add_field("f", s, filename="x.txt")
            return f()
        return mk

    fixed_b = lambda s: B.encode()  # noqa: E731
    bodies = {
        "mp_hval": dict(make=mp_hval, body=dict(boundary=fixed_b, part_targets=["x-part"], exact=True)),
        "mp_hname": dict(make=mp_hname, body=dict(boundary=fixed_b, part_name=True, exact=True)),
        "mp_part_ctype": dict(make=mp_part_ctype, base="text/xab", body=dict(boundary=fixed_b, part_targets=["content-type"], exact=True)),
        "mp_subtype": dict(make=mp_subtype, targets=["content-type"], exact=True, body=dict(boundary=fixed_b)),
        "mp_boundary": dict(make=mp_boundary, targets=["content-type"], params=True,
                            body=dict(boundary=lambda s: s.encode("utf-8", "surrogatepass"))),
        "mp_nosize_hval": dict(make=mp_nosize_hval, body=dict(boundary=fixed_b, part_targets=["x-part"], exact=True)),
        "fd_name_q": dict(make=fd("name"), body=dict(boundary=fixed_b, part_targets=["content-disposition"], params=True)),
        "fd_name_nq": dict(make=fd("name", False), body=dict(boundary=fixed_b, part_targets=["content-disposition"], params=True)),
        "fd_filename_q": dict(make=fd("filename"), base="xab.txt",
                              body=dict(boundary=fixed_b, part_targets=["content-disposition", "content-type"], params=True)),
        "fd_filename_nq": dict(make=fd("filename", False), base="xab.txt",
                               body=dict(boundary=fixed_b, part_targets=["content-disposition", "content-type"], params=True)),
        "fd_ctype": dict(make=fd("ctype"), base="text/xab", body=dict(boundary=fixed_b, part_targets=["content-type"], exact=True)),
        "fd_value": dict(make=fd("value"), body=dict(boundary=fixed_b, content_varies=True)),
        # filename guessed from the name of a file-like value (no filename= argument)
        "fd_fobj_q": dict(make=fd("fobj"), base="xab.txt",
                          body=dict(boundary=fixed_b, part_targets=["content-disposition", "content-type"], params=True)),
        "fd_fobj_nq": dict(make=fd("fobj", False), base="xab.txt",
                           body=dict(boundary=fixed_b, part_targets=["content-disposition", "content-type"], params=True)),
        # the FormData positions behind a field of unknown size (async iterator): the form cannot be sized
        "fd_fobj_nq_nosize": dict(make=fd("fobj", False, True), base="xab.txt",
                                  body=dict(boundary=fixed_b, part_targets=["content-disposition", "content-type"], params=True)),
        "fd_name_nq_nosize": dict(make=fd("name", False, True),
                                  body=dict(boundary=fixed_b, part_targets=["content-disposition"], params=True)),
        "fd_filename_nq_nosize": dict(make=fd("filename", False, True), base="xab.txt",
                                      body=dict(boundary=fixed_b, part_targets=["content-disposition", "content-type"], params=True)),
        "fd_ctype_nosize": dict(make=fd("ctype", True, True), base="text/xab",
                                body=dict(boundary=fixed_b, part_targets=["content-type"], exact=True)),
    }
    for nm, d in bodies.items():
        mk = d.pop("make")
        d.setdefault("varnames", ["content-length", "transfer-encoding"])
        _reg(Pos("srv_" + nm, "srv", (lambda mk: lambda s: R(body=mk(s)))(mk), **dict(d)))
        if nm in CLI_BODIES:
            _reg(Pos("cli_" + nm, "cli", (lambda mk: lambda s: dict(method="POST", url=U, data=mk(s)))(mk), **dict(d)))

    # ---- client side --------------------------------------------------------------------------------------
    U = URL("http://h.test/p")
    _reg(Pos("cli_hval", "cli", lambda s: dict(method="GET", url=U, headers={"X-Probe": s}), targets=["x-probe"], exact=True))
    _reg(Pos("cli_hname", "cli", lambda s: dict(method="GET", url=U, headers={s: "v"}), is_name=True, exact=True))
    _reg(Pos("cli_host", "cli", lambda s: dict(method="GET", url=U, headers={"Host": s}), base="xab.test", targets=["host"], exact=True))
    _reg(Pos("cli_sess_hval", "cli", lambda s: dict(method="GET", url=U), targets=["x-sess"], exact=True,
             session_kw=lambda s: dict(headers={"X-Sess": s})))
    _reg(Pos("cli_method", "cli", lambda s: dict(method=s, url=U), start=True, exact=True, enc=lambda s: s.upper().encode("utf-8")))

    def exp_target(prefix):
        def f(s):
            u = URL(prefix + s, encoded=True)
            return ("GET " + u.raw_path_qs + " HTTP/1.1").encode("utf-8")
        return f
    _reg(Pos("cli_path", "cli", lambda s: dict(method="GET", url=URL("http://h.test/p/" + s, encoded=True)), start=True,
             expect_start=exp_target("http://h.test/p/")))
    _reg(Pos("cli_query", "cli", lambda s: dict(method="GET", url=URL("http://h.test/p?q=" + s, encoded=True)), start=True,
             expect_start=exp_target("http://h.test/p?q=")))
    _reg(Pos("cli_path_str", "cli", lambda s: dict(method="GET", url="http://h.test/p/" + s), start=True))
    _reg(Pos("cli_params", "cli", lambda s: dict(method="GET", url=U, params={"k": s}), start=True))
    _reg(Pos("cli_cookie_name", "cli", lambda s: dict(method="GET", url=U, cookies={s: "v"}), targets=["cookie"], pairs=True))
    _reg(Pos("cli_cookie_value", "cli", lambda s: dict(method="GET", url=U, cookies={"k": s}), targets=["cookie"], pairs=True))
    _reg(Pos("cli_cookie_value_nq", "cli", lambda s: dict(method="GET", url=U, cookies={"k": s}), targets=["cookie"],
             session_kw=lambda s: dict(cookie_jar=CookieJar(quote_cookie=False))))
    _reg(Pos("cli_jar_name", "cli", lambda s: dict(method="GET", url=U), targets=["cookie"], pairs=True, jar=lambda s: {s: "v"}))
    _reg(Pos("cli_jar_value", "cli", lambda s: dict(method="GET", url=U), targets=["cookie"], pairs=True, jar=lambda s: {"k": s}))
    _reg(Pos("cli_cookie_hdr", "cli", lambda s: dict(method="GET", url=U, headers={"Cookie": s + "=1"}, cookies={"a": "b"}),
             targets=["cookie"]))
    _reg(Pos("cli_auth_login", "cli", lambda s: dict(method="GET", url=U.with_user(s).with_password("pw")), targets=["authorization"]))
    _reg(Pos("cli_pl_ctype", "cli", lambda s: dict(method="POST", url=U, data=BP(b"hi", content_type=s)), base="text/xab",
             targets=["content-type"], exact=True))
    _reg(Pos("cli_pl_hval", "cli", lambda s: dict(method="POST", url=U, data=BP(b"hi", headers={"X-Pl": s})), targets=["x-pl"], exact=True))
    _reg(Pos("cli_cd_filename_q", "cli", lambda s: dict(method="POST", url=U, data=cdpos_make["cd_filename_q"](s)),
             targets=["content-disposition"], params=True))

    cdpos_make = {"cd_filename_q": cd(disptype="attachment", pname="filename"),
                  "cd_pval_nq": cd(disptype="attachment", pname="name", quote=False)}


def positions() -> dict[str, Pos]:
    if not POSITIONS:
        _build_positions()
        missing = [n for n in CORE if n not in POSITIONS]
        assert not missing, missing
    return POSITIONS


# ---------------------------------------------------------------------------
# judge


def _name_of(line: bytes) -> bytes:
    c = line.find(b":")
    return line[:c].lower() if c > 0 else b""


class Judge:
    """Holds the baseline of one (position, placement) and judges one case."""

    def __init__(self, pos: Pos, base_s: str, base_wire: bytes):
        self.pos = pos
        self.base_s = base_s
        self.marker = pos.enc(base_s)
        lines, off = refc.head_lines(base_wire)
        if lines is None:
            self.broken = [("one_message_exact_head", "head:" + off, f"message for the harmless string has no well-formed head: {base_wire[:200]!r}")]
            return
        self.lines = lines
        self.body = base_wire[off:]
        self.is_req = pos.side == "cli"
        self.kinds = []  # per line: "same" | "target" | "var"
        for i, ln in enumerate(lines):
            if i == 0:
                self.kinds.append("target" if pos.start else "same")
                continue
            nm = _name_of(ln)
            if pos.is_name and ln.startswith(self.marker + b":"):
                self.kinds.append("target")
            elif nm.decode("latin-1") in pos.targets:
                self.kinds.append("target")
            elif nm.decode("latin-1") in pos.varnames:
                self.kinds.append("var")
            else:
                self.kinds.append("same")
        if "target" not in self.kinds and pos.body is None:
            raise RuntimeError(f"harness: position {pos.name} has no target line in its baseline {base_wire[:300]!r}")
        if pos.exact and pos.body is None:
            if not any(self.marker in ln for ln, k in zip(lines, self.kinds) if k == "target"):
                raise RuntimeError(f"harness: marker of {pos.name} not found in baseline {base_wire[:300]!r}")
        self.unparseable = 0
        self.taken_names = frozenset(_name_of(ln) for ln in lines[1:] if not ln.startswith(self.marker + b":")) \
            | frozenset(x.encode() for x in FRAMING_NAMES) | frozenset([b"content-type", b"cookie", b"set-cookie", b"date", b"server"])
        self.need_framer = bool(pos.is_name or pos.body is not None or pos.varnames or pos.start
                                or pos.targets & FRAMING_NAMES)
        found = []
        self.need_framer, keep = True, self.need_framer
        self.base_parts = None
        self.broken = None
        if self.judge_baseline(base_s, base_wire, found) != "ok":
            # the message for the harmless string itself is not well formed: that is a finding about
            # aiohttp, not about the harness (the judge's own expectations are derived from this message)
            self.broken = found or [("baseline_message", "not_ok", base_wire[:200].decode("latin-1"))]
        self.need_framer = keep

    def _payload_of(self, wire, off, lines):
        """message body with chunked framing removed (strictly)"""
        names = [_name_of(ln) for ln in lines[1:]]
        if b"transfer-encoding" in names:
            r = refc.dechunk(wire, off)
            return r["data"]
        return wire[off:]

    def judge_baseline(self, base_s, base_wire, found):
        spec = self.pos.body
        if spec is not None and not spec.get("free"):
            self.base_parts, err = refc.split_multipart(self._payload_of(base_wire, len(base_wire) - len(self.body), self.lines),
                                                        spec["boundary"](base_s))
            if err is not None:
                found.append(("multipart_structure", "split:" + err[1], f"body for the harmless string does not split: {err}"))
                self.base_parts = []
                return "bad"
        return self.judge(base_s, None, base_wire, found)

    # -- one case -----------------------------------------------------------------------------------
    def judge(self, s: str, err, wire: bytes, out: list):
        pos = self.pos

        def v(inv, cls, msg):
            out.append((inv, cls, msg))

        if err is not None:
            timed_out = isinstance(err, asyncio.TimeoutError)
            if wire and not timed_out:
                v("refused_before_any_byte", "bytes_written_then_raised:" + type(err).__name__,
                  f"call raised {type(err).__name__}({str(err)[:80]!r}) after {len(wire)} bytes had been handed to the "
                  f"transport: {wire[:160]!r}")
                return "refused_late"
            if not timed_out:
                # the statement only asks for *an error before any byte*; which error is reported as a probe
                return "refused" if isinstance(err, REFUSALS) else "refused_other"
        if not wire:
            v("one_message_exact_head", "nothing_written_no_error", "call returned normally but nothing reached the transport")
            return "empty"
        enc_s = None
        if pos.is_name:
            try:
                enc_s = pos.enc(s)
            except UnicodeEncodeError:
                enc_s = None
            if enc_s is not None and enc_s.lower() in self.taken_names:
                # the supplied name is one aiohttp fills in itself (or a framing field): replacing that
                # header is what the application asked for, not an injection
                return "collides"
        lines, off = refc.head_lines(wire)
        if lines is None:
            v("one_message_exact_head", "head:" + off, f"head of the message is not CRLF-delimited text ({off}): {wire[:200]!r}")
            return "bad"
        base = self.lines
        if len(lines) != len(base):
            d = len(lines) - len(base)
            v("one_field_line_per_header", "line_count:%+d" % (1 if d > 0 else -1),
              f"{len(lines)} lines in the head, {len(base)} in the baseline: {wire[:off][:300]!r}")
            return "bad"
        n0 = len(out)
        for i, ln in enumerate(lines):
            bl = base[i]
            kind = self.kinds[i]
            if kind == "same":
                if ln != bl:
                    v("other_lines_untouched", "changed_line:" + (_name_of(bl).decode("latin-1") or "start"),
                      f"line {i} changed from {bl[:100]!r} to {ln[:100]!r}")
                continue
            if i == 0:
                rx = _REQ_LINE if self.is_req else _STATUS_LINE
                if rx.fullmatch(ln) is None:
                    v("start_line_syntax", "malformed_start_line", f"start line {ln[:160]!r} is not a well-formed "
                      + ("request-line" if self.is_req else "status-line"))
                    continue
                if pos.expect_start is not None:
                    exp = pos.expect_start(s)
                    if ln != exp:
                        v("start_line_exact", "start_line_differs", f"start line {ln[:160]!r}, supplied {exp[:160]!r}")
                elif pos.exact:
                    if enc_s is None:
                        enc_s = pos.enc(s)
                    exp = bl.replace(self.marker, enc_s)
                    if ln != exp:
                        v("start_line_exact", "start_line_differs", f"start line {ln[:160]!r}, supplied {exp[:160]!r}")
                continue
            # a field line that may differ
            try:
                name, value = http1.parse_field_line(ln)
            except http1.Rej as r:
                v("field_line_syntax", r.cls, f"field line {ln[:160]!r} is malformed ({r.cls})")
                continue
            if kind == "var":
                if name.lower() != _name_of(bl):
                    v("other_lines_untouched", "changed_line:" + _name_of(bl).decode("latin-1"),
                      f"line {i} changed from {bl[:100]!r} to {ln[:100]!r}")
                continue
            if pos.is_name:
                if enc_s is None:
                    enc_s = pos.enc(s)
                if name != enc_s:
                    v("field_name_is_the_supplied_name", "name_split",
                      f"supplied name {enc_s[:80]!r} was emitted as {ln[:160]!r}, which a recipient reads as field {name[:80]!r}")
                    continue
            elif name.lower() != _name_of(bl):
                v("other_lines_untouched", "changed_name", f"line {i} changed from {bl[:100]!r} to {ln[:100]!r}")
                continue
            if pos.exact and self.marker in bl:
                if enc_s is None:
                    enc_s = pos.enc(s)
                exp = bl.replace(self.marker, enc_s)
                if ln != exp:
                    v("field_line_exact", "line_differs", f"field line {ln[:160]!r}, supplied {exp[:160]!r}")
            if pos.pairs:
                a, b = value.count(b";"), parse_value(bl).count(b";")
                if a != b:
                    v("no_added_cookie_pair", "pair_count", f"cookie line {ln[:160]!r} has {a + 1} ';'-separated elements, baseline {b + 1}")
            if pos.params and name.lower() in (b"content-disposition", b"content-type"):
                self._params(value, parse_value(bl), ln, v)
        if len(out) > n0:
            return "bad"
        # exactly one complete message, truthful framing.  When every line except the judged target
        # line(s) is byte-identical to the baseline (which the framer accepted in __init__), the body is
        # identical too and the target is not a field name chosen by the input, the framer's verdict
        # cannot differ from the baseline's: skip it.
        if not self.need_framer:
            if wire[off:] != self.body:
                v("body_untouched", "body_changed", f"body {wire[off:off + 80]!r} differs from baseline {self.body[:80]!r}")
                return "bad"
            return "ok"
        if self.is_req:
            msgs, verdict = http1.parse_requests(wire)
            ok = len(msgs) == 1 and msgs[0]["end"] == len(wire) and verdict[0] in ("COMPLETE", "DONT_CARE")
            if not ok:
                v("exactly_one_message", "framer:" + ":".join(str(x) for x in verdict[:1] + verdict[2:]),
                  f"strict framer sees {len(msgs)} message(s), verdict {verdict}, {len(wire)} bytes: {wire[:240]!r}")
                return "bad"
            payload = msgs[0]["body"]
        else:
            resps, rest = http1.split_responses(wire, methods=[b"GET"], closed=False)
            if not (len(resps) == 1 and resps[0]["complete"] and rest == "clean"):
                v("exactly_one_message", "splitter:" + (rest if isinstance(rest, str) else rest[0]),
                  f"strict splitter sees {len(resps)} response(s), rest={rest}: {wire[:240]!r}")
                return "bad"
            payload = resps[0]["body"]
        if pos.body is None:
            if wire[off:] != self.body:
                v("body_untouched", "body_changed", f"body {wire[off:off + 80]!r} differs from baseline {self.body[:80]!r}")
                return "bad"
        elif not pos.body.get("free"):
            self._body(s, payload, v)
        return "bad" if len(out) > n0 else "ok"

    def _params(self, value, base_value, ln, v):
        p = refc.parse_params(value)
        bp = refc.parse_params(base_value)
        if bp is None:
            return
        if p is None:
            # not `type *(; name=value)` at all: nothing can be said about added parameters (RFC 9110 field
            # syntax is satisfied, see field_line_syntax); counted, not judged
            self.unparseable += 1
            return
        if len(p[1]) != len(bp[1]):
            v("no_added_parameter", "parameter_count", f"{ln[:200]!r} has {len(p[1])} parameters, baseline {len(bp[1])}")
            return
        if not self.pos.pname:
            a = [n.lower().rstrip(b"*") for n, _ in p[1]]
            b = [n.lower().rstrip(b"*") for n, _ in bp[1]]
            if a != b:
                v("no_added_parameter", "parameter_names", f"{ln[:200]!r} has parameters {a}, baseline {b}")

    def _body(self, s, payload, v):
        spec = self.pos.body
        boundary = spec["boundary"](s)
        parts, err = refc.split_multipart(payload, boundary)
        if err is not None:
            v("multipart_structure", "split:" + err[1], f"multipart body does not split on the supplied boundary: {err}: {payload[:240]!r}")
            return
        bparts = self.base_parts
        if len(parts) != len(bparts):
            v("multipart_structure", "part_count", f"{len(parts)} parts, baseline {len(bparts)}: {payload[:240]!r}")
            return
        targets = frozenset(spec.get("part_targets", ()))
        enc_s = self.pos.enc(s)
        if spec.get("part_name"):
            taken = {_name_of(bl) for bp in bparts for bl in bp["header_lines"] if not bl.startswith(self.marker + b":")}
            if enc_s.lower() in taken or enc_s.lower() in PART_OWN_NAMES:
                return  # the application named a header the writer fills in itself: replacing it is what was asked for
        for pi, (p, bp) in enumerate(zip(parts, bparts)):
            if len(p["header_lines"]) != len(bp["header_lines"]):
                v("multipart_structure", "part_header_count",
                  f"part {pi} has {len(p['header_lines'])} header lines, baseline {len(bp['header_lines'])}: {p['header_lines'][:4]!r}")
                return
            for ln, bl in zip(p["header_lines"], bp["header_lines"]):
                bname = _name_of(bl).decode("latin-1")
                is_target = bname in targets or (spec.get("part_name") and bl.startswith(self.marker + b":"))
                if not is_target:
                    if ln != bl:
                        v("other_lines_untouched", "changed_part_line:" + bname, f"part line changed from {bl[:100]!r} to {ln[:100]!r}")
                    continue
                ph = refc.parse_part_header(ln)
                if ph is None:
                    v("field_line_syntax", "part_header_malformed", f"part header line {ln[:160]!r} is malformed")
                    continue
                if spec.get("part_name"):
                    if ph[0] != enc_s:
                        v("field_name_is_the_supplied_name", "part_name_split",
                          f"supplied part header name {enc_s[:80]!r} emitted as {ln[:160]!r}, read as field {ph[0][:80]!r}")
                        continue
                elif ph[0].lower() != _name_of(bl):
                    v("other_lines_untouched", "changed_part_name", f"part line changed from {bl[:100]!r} to {ln[:100]!r}")
                    continue
                if spec.get("exact") and self.marker in bl:
                    exp = bl.replace(self.marker, enc_s)
                    if ln != exp:
                        v("field_line_exact", "part_line_differs", f"part header line {ln[:160]!r}, supplied {exp[:160]!r}")
                if spec.get("params") and ph[0].lower() in (b"content-disposition", b"content-type"):
                    self._params(ph[1], parse_value(bl), ln, v)
            if not spec.get("content_varies") and p["content"] != bp["content"]:
                v("body_untouched", "part_content_changed", f"part {pi} content {p['content'][:60]!r}, baseline {bp['content'][:60]!r}")


PART_OWN_NAMES = frozenset([b"content-length", b"content-type", b"content-disposition", b"content-encoding",
                             b"content-transfer-encoding"])
FRAMING_NAMES = frozenset(["content-length", "transfer-encoding", "connection", "host", "upgrade", "expect"])


def parse_value(line: bytes) -> bytes:
    c = line.find(b":")
    return line[c + 1:].strip(b" \t")


def _refusals():
    from http.cookies import CookieError

    return (ValueError, CookieError, LookupError)


REFUSALS = _refusals()


# ---------------------------------------------------------------------------
# drivers


class _Recorder(asyncio.Protocol):
    def connection_made(self, t):
        self.transport = t

    def data_received(self, d):
        pass

    def eof_received(self):
        return False

    def connection_lost(self, exc):
        pass


class _RawServer(asyncio.Protocol):
    """Recording raw server: answers every complete request (simple well-formed-request
    reader from sim.peers) with an empty 200.  Something it cannot delimit is never
    answered: the client call then ends by its (virtual) 5 s timeout and the bytes are judged."""

    def __init__(self):
        self.buf = bytearray()

    def connection_made(self, t):
        self.transport = t

    def data_received(self, d):
        from sim.peers import parse_simple_request

        self.buf += d
        n = 0
        while True:
            try:
                r = parse_simple_request(self.buf)
            except Exception:
                r = None
            if r is None:
                break
            del self.buf[:r[1]]
            n += 1
        for _ in range(n):
            self.transport.write(b"HTTP/1.1 200 OK\r\nContent-Length: 0\r\n\r\n")

    def eof_received(self):
        return False

    def connection_lost(self, exc):
        pass


def make_driver(w, pos: Pos):
    """-> async call(s) -> (err, wire)"""
    loop, net = w.loop, w.net
    net.max_latency_ticks = 0
    net.default_policy = "whole"
    net.wire = []
    wire = net.wire
    if pos.side == "srv":
        from aiohttp.base_protocol import BaseProtocol
        from aiohttp.http_parser import RawRequestMessage
        from aiohttp.http_writer import HttpVersion11, StreamWriter
        from aiohttp.streams import EMPTY_PAYLOAD
        from aiohttp.web_request import BaseRequest
        from multidict import CIMultiDict, CIMultiDictProxy
        from yarl import URL

        class _Proto(BaseProtocol):
            __slots__ = ()
            ssl_context = None
            peername = None
            sockname = None

        proto = _Proto(loop)
        a, _b = net.attach_pair(proto, _Recorder())
        a.set_write_buffer_limits(high=1 << 26)
        h = CIMultiDictProxy(CIMultiDict({"Host": "h.test"}))
        msg = RawRequestMessage("GET", "/", HttpVersion11, h, ((b"Host", b"h.test"),), False, None, False, False, URL("/"))
        make = pos.make

        async def call(s):
            del wire[:]
            wr = StreamWriter(proto, loop)
            req = BaseRequest(msg, EMPTY_PAYLOAD, proto, wr, None, loop)
            err = None
            try:
                resp = make(s)
                await resp.prepare(req)
                await resp.write_eof()
            except Exception as e:
                err = e
            return err, b"".join([x[3] for x in wire if x[2] == "w"])

        async def close():
            return None

        return call, close

    import aiohttp
    from sim.net import SimResolver
    from yarl import URL

    net.listen(_RawServer, "10.0.0.1", 80)
    net.dns["h.test"] = ["10.0.0.1"]
    state = {}
    tmo = aiohttp.ClientTimeout(total=5)
    origin = URL("http://h.test/")

    def session_for(s):
        if "conn" not in state:
            state["conn"] = aiohttp.TCPConnector(resolver=SimResolver(net))
        if pos.session_kw is not None:
            return aiohttp.ClientSession(connector=state["conn"], connector_owner=False, timeout=tmo, **pos.session_kw(s))
        if "sess" not in state:
            state["sess"] = aiohttp.ClientSession(connector=state["conn"], connector_owner=False, timeout=tmo)
        return state["sess"]

    async def call(s):
        del wire[:]
        err = None
        sess = None
        try:
            sess = session_for(s)
            if pos.jar is not None:
                sess.cookie_jar.clear()
                sess.cookie_jar.update_cookies(pos.jar(s), origin)
            kw = pos.make(s)
            async with sess.request(**kw):
                pass
        except Exception as e:
            err = e
        finally:
            if pos.session_kw is not None and sess is not None:
                await sess.close()
        return err, b"".join([x[3] for x in wire if x[2] == "w" and x[1][0] == "c"])

    async def close():
        if "sess" in state:
            await state["sess"].close()
        if "conn" in state:
            await state["conn"].close()

    return call, close


def iter_codepoints(ranges):
    for lo, hi in ranges:
        yield from range(lo, hi + 1)


async def run_block(w, scn, viols: dict, probes: dict):
    """Execute all cases of one W1 scenario.  viols: key -> (invariant, key, message)."""
    pos = positions()[scn["pos"]]
    call, close = make_driver(w, pos)
    n = 0

    def record(s, base, found):
        for inv, cls, msg in found:
            key = f"{pos.name}:{cls}:{strclass(s, base)}"
            if (inv, key) not in viols:
                viols[(inv, key)] = {"invariant": inv, "key": key,
                                     "message": f"position {pos.name}, supplied string {s!r}: {msg}"}

    async def one(judge, s, base):
        nonlocal n
        err, wire_bytes = await call(s)
        found = []
        outcome = judge.judge(s, err, wire_bytes, found)
        probes[outcome] = probes.get(outcome, 0) + 1
        if err is not None:
            k = "err_" + type(err).__name__
            probes[k] = probes.get(k, 0) + 1
        if found:
            record(s, base, found)
        n += 1
        if n % 32 == 0:
            await asyncio.sleep(0)

    try:
        if "strs" in scn:
            base_s = pos.base
            err, bw = await call(base_s)
            if err is not None and not (isinstance(err, asyncio.TimeoutError) and bw):
                record(base_s, "", [("harmless_string_accepted", "baseline_error:" + type(err).__name__,
                                     f"the call with the harmless string failed: {err!r}; wire {bw[:160]!r}")])
                return n
            judge = Judge(pos, base_s, bw)
            if judge.broken:
                record(base_s, "", [(i_, "baseline:" + c_, m_) for i_, c_, m_ in judge.broken])
                return n
            for s in scn["strs"]:
                # random strings replace the middle letter run of the base so that the
                # marker-substitution expectation stays well defined
                await one(judge, s, "")
        else:
            for where in scn.get("places", PLACES):
                base_s = place(pos.base, NEUTRAL, where)
                err, bw = await call(base_s)
                if err is not None and not (isinstance(err, asyncio.TimeoutError) and bw):
                    record(base_s, "", [("harmless_string_accepted", "baseline_error:" + type(err).__name__,
                                         f"the call with the harmless string failed: {err!r}; wire {bw[:160]!r}")])
                    continue
                judge = Judge(pos, base_s, bw)
                if judge.broken:
                    record(base_s, "", [(i_, "baseline:" + c_, m_) for i_, c_, m_ in judge.broken])
                    continue
                for cp in iter_codepoints(scn["cps"]):
                    await one(judge, place(pos.base, chr(cp), where), pos.base)
                if judge.unparseable:
                    probes["params_unparseable"] = probes.get("params_unparseable", 0) + judge.unparseable
    finally:
        await close()
    probes["cases"] = probes.get("cases", 0) + n
    return n
