"""C10 - parsers are total and enforce their configured limits.

World P/S: the real server protocol (low-level web.Server -> RequestHandler)
and the real client protocol (ResponseHandler) behind SimTransports; a World C
sample runs a real ClientSession against a raw server to observe the exception
type a caller gets; a 'direct' sample drives the parser objects themselves
(feed_data in pieces, then feed_eof) and judges the exception type leaving them.  One run pushes a family of inputs through many
connections.  DESIGN.md section 9, C10.
"""
from __future__ import annotations

import asyncio
import random
import re
import sys

from gen import http_gen as G
from ref import http1
from sim.world import World

PROP = "C10"
LEVEL = "exploration"
DESIGN_REF = "9/C10"
BUDGET = {"quick": 60, "thorough": 900}
BATCH = 25
TECHNIQUE = ("deterministic simulation: real server/client protocols on simulated transports fed whole, byte-by-byte "
             "(drip) and in seeded pieces; limit-approach inputs per syntactic position; retained-bytes object-graph "
             "invariant after every delivery; executed-line counting for work growth")
LEVEL_TEXT = (
    "Seeded exploration of structure-aware mutations, raw random bytes and limit-approach inputs (limit-1, limit, limit+1, "
    "far above, per syntactic position, under equal and unequal limit sets) through the real parsers, delivered whole, "
    "byte-by-byte and in pieces. Checked: only HTTP protocol errors leave the parser (server: 4xx + no exception in the "
    "loop; client caller: ClientError subclass), limits accept/refuse on the right side, bytes retained by the parser "
    "after every delivery stay within what the limits allow, no hang, and executed parser lines grow at most linearly. "
    "Request targets of every form and method (authority components on both sides of their value ranges) must be handled "
    "or refused with a 4xx, the connection's task never ending with an exception; unterminated lines are also made "
    "over-long by runs of CR, whitespace and control bytes, in reads of several sizes."
)
LEVEL_NOTE = (
    "Trusted: ref/http1.py with limits for the accept/refuse verdict (bands where aiohttp counts differently from the "
    "literal statement are DONT_CARE), the object-graph walk (bytes reachable from the parser, excluding the body "
    "StreamReader which C09 bounds). Work growth is measured with sys.monitoring line events on http_parser.py."
)
RULE = (
    "Run kinds: 'approach' (one syntactic position x one limit set x lengths {limit-1, limit, limit+1, 4*limit} x "
    "{whole, drip} delivery), 'mutants' (a block of mutated/random streams, server and client side, seeded pieces), "
    "'drip' (a never-finished line / header block / chunk-size line / trailer delivered byte by byte with the retained-"
    "bytes invariant after every delivery), 'work' (input families of size n, 2n, 4n), 'caller' (real ClientSession "
    "against a raw server sending garbage), 'direct' (World P: HttpRequestParser / HttpResponseParser objects fed with "
    "feed_data() in seeded pieces and finished with feed_eof(): numeric elements - Content-Length, chunk-size, status "
    "code, version - of 1 .. 3 x max_line_size digits, and messages cut at a seeded byte; the exception type leaving "
    "either call or stored on a body stream is judged). Approach positions include obs-folded header / trailer fields "
    "of the lax response parser (every physical line under the limits, the joined field around max_field_size). "
    "'targets' (7 %): twelve complete requests whose request line combines a method (GET, CONNECT, OPTIONS, ... in either "
    "case) with a request-target of every form (origin, absolute, authority, asterisk, near misses) built per element - "
    "userinfo, host (names, IPv4/IPv6 literals, malformed brackets, non-ASCII, over-long labels), port (none, 0, 65535, "
    "65536, far above, negative, signed, non-numeric, non-ASCII digits, empty) - through the real server: each must reach "
    "the handler or be refused with a 4xx, and the task serving the connection must not end with an exception. "
    "'drip' variants (7 %): the unterminated line (request / status line, field, chunk-size line, trailer, both parsers) "
    "is over-long because of a run of one filler - CR, SP, HTAB, NUL, 0xFF, DEL, ';', VT/FF or a short pattern of them, "
    "never LF - after 0, 1 or limit-4 ordinary bytes, delivered in reads of 1, 7, 64 bytes or at once (the last byte always alone). "
    "'chunked' (7 %): ten messages (requests and responses) with a chunked body built per element - size token (hex spellings, "
    "signs, prefixes, whitespace, control bytes, bytes >= 0x80 alone / as UTF-8 / as digit-like code points), chunk extension, "
    "line end, chunk-data terminator, last-chunk line, trailer field; mostly one malformed element per message, after 0-2 "
    "well-formed chunks - through the parser objects (feed_data + feed_eof) and through the real server / client protocol "
    "under one segmentation policy: whatever fails a body stream must be, or be caused by, an HTTP protocol error (the "
    "explicit cause chain of RequestPayloadError / ClientPayloadError is followed; also judged in 'mutants' runs), and a "
    "request delivered in one read whose body cannot be parsed must be answered with a 4xx. "
    "'openings' (8 %, drawn last): one opening of another protocol (TLS / SSLv2 / DTLS / QUIC records, HTTP/2 preface and frames, "
    "SOCKS4/5, PROXY v1/v2, SSH, SMTP, RTSP, WebSocket frames, database / message-queue handshakes, a BOM, an HTTP response) cut "
    "at every length 1..8, at seeded longer ones and whole, plus 1-3 byte lines of arbitrary bytes, standing as the whole start "
    "line, the method / version token, the target, a field line, after blank lines, or as the second message of a connection "
    "(request and response parsers) - through the parser objects (feed_data at seeded read boundaries + feed_eof) and the real "
    "server / client protocol: only protocol errors, a 4xx for every parser error, every stream that ends in an empty line "
    "handled or refused. "
    "Non-trivial: at least one rejection or limit decision was exercised. "
    "Distinct = (kind, position, limits, signature)."
)
COMPONENTS = {
    "real": ["http_parser.HttpRequestParser/HttpResponseParser/HttpPayloadParser (Python)", "web_protocol.RequestHandler",
             "client_proto.ResponseHandler", "client.ClientSession (caller sample)", "streams.StreamReader"],
    "stub": ["network (SimNet)", "application (recording handler)", "raw peers"],
}
ASSUMPTIONS = [
    "field length is measured on the whole field line; inputs whose value alone is within the limit but whose line is "
    "not are a DONT_CARE band; likewise header counts between max_headers-2 and max_headers",
    "retained-bytes bound: max_line_size + max_headers*max_field_size + 2 reads + 4 KiB for a header block; limit + 2 "
    "reads + 256 for a single incomplete line (a read counts as at least 64 bytes)",
    "a complete, short request sent alone on a connection is either dispatched to the handler or refused with a 4xx within "
    "0.5 s of virtual time; the connection's task (RequestHandler._task_handler) ending with an exception is an escape",
]

_STATUS = re.compile(rb"HTTP/1\.[01] (\d{3}) ")

LIMIT_SETS = [
    {"max_line_size": 64, "max_field_size": 64, "max_headers": 8},
    {"max_line_size": 40, "max_field_size": 90, "max_headers": 6},
    {"max_line_size": 90, "max_field_size": 40, "max_headers": 10},
    {"max_line_size": 8190, "max_field_size": 8190, "max_headers": 128},
    {"max_line_size": 200, "max_field_size": 200, "max_headers": 5},
]
POSITIONS = ["request_line", "field", "second_request_line", "chunk_size_line", "chunk_ext", "trailer", "header_count",
             "trailer_count", "status_line", "resp_field", "resp_chunk_line", "resp_trailer", "resp_header_count"]
# obsolete line folding exists only in the lax (response) parser; the strict request parser refuses any continuation line
FOLDED_POSITIONS = ["resp_folded_field", "resp_folded_trailer"]


def fold(total, lim, pieces):
    """One obs-folded field 'X: v...' as physical lines (joined with CRLF, no final CRLF) whose line lengths add up to
    `total`; every physical line stays below both line limits, only the joined field approaches max_field_size."""
    cap = min(lim["max_line_size"], lim["max_field_size"]) - 1
    k = max(2, pieces, -(-total // cap))
    if total < 4 + 2 * (k - 1):
        return None
    sizes = [total // k + (1 if i < total % k else 0) for i in range(k)]
    lines = ["X: " + "v" * (sizes[0] - 3)]
    for i in range(1, k):
        lines.append((" " if i % 2 else "\t") + "w" * (sizes[i] - 1))
    return "\r\n".join(lines)


def build(position, length, lim, pieces=3):
    """A message whose element at `position` is exactly `length` bytes long (line without CRLF; for a folded field the
    sum of its physical lines)."""
    if position == "resp_folded_field":
        f = fold(length, lim, pieces)
        if f is None:
            return None
        return "client", f"HTTP/1.1 200 OK\r\n{f}\r\nContent-Length: 2\r\n\r\nok"
    if position == "resp_folded_trailer":
        f = fold(length, lim, pieces)
        if f is None:
            return None
        return "client", f"HTTP/1.1 200 OK\r\nTransfer-Encoding: chunked\r\n\r\n2\r\nok\r\n0\r\n{f}\r\n\r\n"
    if position == "request_line":
        pad = length - len("GET / HTTP/1.1")
        if pad < 0:
            return None
        return "server", f"GET /{'t' * pad} HTTP/1.1\r\nHost: a\r\n\r\n"
    if position == "second_request_line":
        pad = length - len("GET / HTTP/1.1")
        if pad < 0:
            return None
        return "server", f"GET / HTTP/1.1\r\nHost: a\r\n\r\nGET /{'t' * pad} HTTP/1.1\r\nHost: a\r\n\r\n"
    if position == "field":
        pad = length - len("X: ")
        if pad < 0:
            return None
        return "server", f"GET / HTTP/1.1\r\nHost: a\r\nX: {'v' * pad}\r\n\r\n"
    if position == "chunk_size_line":
        pad = length - 1
        if pad < 0:
            return None
        return "server", f"POST / HTTP/1.1\r\nHost: a\r\nTransfer-Encoding: chunked\r\n\r\n{'0' * pad}3\r\nabc\r\n0\r\n\r\n"
    if position == "chunk_ext":
        pad = length - len("3;e=")
        if pad < 0:
            return None
        return "server", f"POST / HTTP/1.1\r\nHost: a\r\nTransfer-Encoding: chunked\r\n\r\n3;e={'x' * pad}\r\nabc\r\n0\r\n\r\n"
    if position == "trailer":
        pad = length - len("T: ")
        if pad < 0:
            return None
        return "server", f"POST / HTTP/1.1\r\nHost: a\r\nTransfer-Encoding: chunked\r\n\r\n3\r\nabc\r\n0\r\nT: {'v' * pad}\r\n\r\n"
    if position == "header_count":
        n = length
        return "server", "GET / HTTP/1.1\r\nHost: a\r\n" + "".join(f"H{i}: v\r\n" for i in range(max(0, n - 1))) + "\r\n"
    if position == "trailer_count":
        n = length
        return "server", ("POST / HTTP/1.1\r\nHost: a\r\nTransfer-Encoding: chunked\r\n\r\n3\r\nabc\r\n0\r\n"
                          + "".join(f"T{i}: v\r\n" for i in range(n)) + "\r\n")
    if position == "status_line":
        pad = length - len("HTTP/1.1 200 ")
        if pad < 0:
            return None
        return "client", f"HTTP/1.1 200 {'R' * pad}\r\nContent-Length: 2\r\n\r\nok"
    if position == "resp_field":
        pad = length - len("X: ")
        if pad < 0:
            return None
        return "client", f"HTTP/1.1 200 OK\r\nX: {'v' * pad}\r\nContent-Length: 2\r\n\r\nok"
    if position == "resp_chunk_line":
        pad = length - 1
        if pad < 0:
            return None
        return "client", f"HTTP/1.1 200 OK\r\nTransfer-Encoding: chunked\r\n\r\n{'0' * pad}2\r\nok\r\n0\r\n\r\n"
    if position == "resp_trailer":
        pad = length - len("T: ")
        if pad < 0:
            return None
        return "client", f"HTTP/1.1 200 OK\r\nTransfer-Encoding: chunked\r\n\r\n2\r\nok\r\n0\r\nT: {'v' * pad}\r\n\r\n"
    if position == "resp_header_count":
        n = length
        return "client", "HTTP/1.1 200 OK\r\nContent-Length: 2\r\n" + "".join(f"H{i}: v\r\n" for i in range(max(0, n - 1))) + "\r\nok"
    raise ValueError(position)


def expected(position, length, lim):
    """'accept' | 'reject' | 'band' per the property statement (line length vs its limit)."""
    L, F, H = lim["max_line_size"], lim["max_field_size"], lim["max_headers"]
    if position in ("request_line", "second_request_line", "status_line", "chunk_size_line", "resp_chunk_line", "chunk_ext"):
        return "accept" if length <= L else "reject"
    if position in ("field", "trailer", "resp_field", "resp_trailer", "resp_folded_field", "resp_folded_trailer"):
        if length <= F:
            return "accept"
        # whole line over the limit but value alone (line minus 'X: ') not: band
        return "band" if length - 3 <= F else "reject"
    if position in ("header_count", "resp_header_count"):
        if length > H:
            return "reject"
        return "accept" if length + 2 <= H else "band"
    if position == "trailer_count":
        # trailers share the header budget with the header block (2 fields + start + blank here)
        if length > H:
            return "reject"
        return "accept" if length + 5 <= H else "band"
    raise ValueError(position)


# World P: numeric elements whose magnitude (number of digits) approaches a line limit or an interpreter limit
NUMERIC_POSITIONS = ["req_content_length", "req_chunk_size", "req_chunk_size_ext", "req_later_chunk_size", "req_version",
                     "resp_content_length", "resp_chunk_size", "resp_chunk_size_ext", "resp_later_chunk_size",
                     "resp_status_code", "resp_version"]
_HEX_POS = ("req_chunk_size", "req_chunk_size_ext", "req_later_chunk_size", "resp_chunk_size", "resp_chunk_size_ext",
            "resp_later_chunk_size")


def build_numeric(position, digits, lead, fill, hexfill, after):
    """(side, stream): a message whose numeric element at `position` has `digits` digits (first digit `lead`, the
    rest `fill` / `hexfill`), followed by `after` bytes of whatever comes next (body bytes)."""
    if position in _HEX_POS:
        n = (lead + hexfill * digits)[:digits]
    else:
        n = (lead + fill * digits)[:digits]
    body = ("abcdefghij" * (after // 10 + 1))[:after]
    side = "server" if position.startswith("req_") else "client"
    what = position.split("_", 1)[1]
    head = ("POST / HTTP/1.1\r\nHost: a\r\n" if side == "server" else "HTTP/1.1 200 OK\r\n")
    if what == "content_length":
        return side, head + f"Content-Length: {n}\r\n\r\n" + body
    if what == "chunk_size":
        return side, head + f"Transfer-Encoding: chunked\r\n\r\n{n}\r\n" + body
    if what == "chunk_size_ext":
        return side, head + f"Transfer-Encoding: chunked\r\n\r\n{n};e=1\r\n" + body
    if what == "later_chunk_size":
        return side, head + f"Transfer-Encoding: chunked\r\n\r\n3\r\nabc\r\n{n}\r\n" + body
    if what == "version":
        if side == "server":
            return side, f"GET / HTTP/{n}.1\r\nHost: a\r\n\r\n" + body
        return side, f"HTTP/1.{n} 200 OK\r\nContent-Length: 2\r\n\r\nok" + body
    if what == "status_code":
        return side, f"HTTP/1.1 {n} OK\r\nContent-Length: 2\r\n\r\nok" + body
    raise ValueError(position)


def _cuts(rng, n, mode):
    """Explicit read boundaries (absolute offsets) for a stream of n bytes."""
    if mode == "whole" or n < 2:
        return []
    if mode == "byte":
        return list(range(1, n))
    k = rng.randint(1, 6)
    return sorted({rng.randrange(1, n) for _ in range(k)})


def _gen_direct(rng):
    """World P scenario: the parser objects driven directly (feed_data in pieces, then feed_eof)."""
    lim = dict(LIMIT_SETS[3] if rng.random() < 0.6 else rng.choice(LIMIT_SETS))
    L, F = lim["max_line_size"], lim["max_field_size"]
    if rng.random() < 0.5:
        # digits: decades, interpreter limits for int<->str conversion (4300 decimal digits ~ 3572 hex digits), the
        # applicable line limit from below and above
        digits = rng.choice([1, 2, 8, 16, 17, 20, 64, 100, 309, 1000, 2000, 3000, 3571, 3572, 3600, 4000, 4299, 4300, 4301,
                             5000, 6000, 8000, L - 20, L - 1, L, L + 1, F - 17, F - 16, F - 15, 3 * L])
        return {"kind": "direct", "family": "numeric", "limits": lim, "digits": max(1, digits),
                "lead": rng.choice(["0", "1", "9"]), "fill": rng.choice(["0", "7", "9"]),
                "hexfill": rng.choice(["0", "7", "a", "F"]), "after": rng.choice([0, 1, 15, 200]),
                "positions": list(NUMERIC_POSITIONS), "seg": rng.choice(["whole", "whole", "pieces", "byte_tail"]),
                "segseed": rng.randrange(1 << 30), "eof": rng.random() < 0.85}
    # eof at any byte: a well-formed (or mutated) message cut at a seeded offset, then end of input
    cases = []
    for _ in range(10):
        q = rng.random()
        if q < 0.35:
            g = G.gen_stream(rng, max_req=2, mutate=rng.random() < 0.5, bytemut=0.2, truncate=0.0, body_max=80)
            side, s = "server", g["stream"]
        elif q < 0.7:
            pos = rng.choice(POSITIONS + FOLDED_POSITIONS)
            base = lim["max_headers"] if pos.endswith("_count") else (
                L if pos in ("request_line", "second_request_line", "status_line", "chunk_size_line", "resp_chunk_line",
                             "chunk_ext") else F)
            b = build(pos, max(1, base + rng.choice([-6, -1, 0, 1, 4])), lim) if base <= 300 else None
            if b is None:
                b = build(pos, 30, lim)
            side, s = b
        else:
            side = "client"
            s = rng.choice(["HTTP/1.1 200 OK\r\nContent-Length: 30\r\n\r\n" + "abcdefghij" * 3,
                            "HTTP/1.1 200 OK\r\nTransfer-Encoding: chunked\r\n\r\n1e;x=y\r\n" + "abcdefghij" * 3 + "\r\n0\r\nT: v\r\n\r\n",
                            "HTTP/1.0 200 OK\r\nX: y\r\n\r\nuntil the end of input",
                            "HTTP/1.1 200 OK\r\nContent-Encoding: deflate\r\nContent-Length: 11\r\n\r\nx\x9cKLJ\x06\x00\x02M\x01'",
                            "HTTP/1.1 101 Switching\r\nUpgrade: websocket\r\nConnection: upgrade\r\n\r\n\x81\x02hi"])
        cut = rng.randint(0, len(s)) if rng.random() < 0.85 else len(s)
        mode = rng.choice(["whole", "whole", "pieces", "byte"]) if cut <= 600 else rng.choice(["whole", "pieces"])
        cases.append([side, s[:cut], _cuts(rng, cut, mode)])
    return {"kind": "direct", "family": "eofcut", "limits": lim, "cases": cases}


# Request targets: every form of RFC 9112 section 3.2 (origin, absolute, authority, asterisk) and near misses, under every
# kind of method.  The authority components are drawn per element (userinfo, host, port) from legal values, the edges of
# their value ranges and malformed spellings, so that whatever the parser delegates to the URL library - eagerly or
# lazily - is reached with values on both sides of every boundary.
_T_METHODS = ["GET", "GET", "GET", "CONNECT", "CONNECT", "CONNECT", "OPTIONS", "POST", "HEAD", "PUT", "connect", "Connect",
              "get", "M-SEARCH", "PROPFIND"]
_T_SCHEMES = ["http", "http", "https", "HTTP", "ws", "ftp", "h2c", "x"]
_T_USERINFO = ["", "", "", "", "u@", "u:p@", "@", ":@", "u%40x@"]
_T_HOSTS = ["example.com", "example.com", "h.test", "a", "127.0.0.1", "[::1]", "[2001:db8::1]", "[::ffff:1.2.3.4]",
            "[fe80::1%25eth0]", "[::1", "::1", "[zz]", "[]", "[v1.x]", "", "ex%41mple.com", "ex\xe4mple.com",
            "\xc3\xa4.test", "xn--bcher-kva.test", "a" * 70 + ".test", "l." * 130 + "test", "-", ".", "a..b", "999.999.999.999",
            "0x7f.1", "host_name", "EXAMPLE.COM", "a b", "a\tb", "%", "%zz", "a,b", "a;b", "*"]
_T_PORTS = [None, None, None, "80", "443", "8080", "0", "1", "65535", "65536", "65537", "99999", "100000", "4294967296",
            "-1", "-0", "+80", "abc", "8o", "0x50", "", "080", "0000000080", "9" * 30, "8_0", "1e3", "80:81", "80 ", ".80",
            "\xd9\xa8\xd9\xa0", "\xef\xbc\x98\xef\xbc\x90", "\xb2", "%38%30", "80#f", "80?q"]
_T_PATHS = ["", "", "/", "/p?q=1#f", "?q", "#f", "/\xe4", "/%zz"]


def _gen_authority(rng):
    port = rng.choice(_T_PORTS)
    return rng.choice(_T_USERINFO) + rng.choice(_T_HOSTS) + ("" if port is None else ":" + port)


def _gen_target(rng):
    """[method, request-target] (latin-1 str of the bytes on the wire)."""
    method = rng.choice(_T_METHODS)
    q = rng.random()
    if method.upper() == "CONNECT":
        form = "authority" if q < 0.7 else ("absolute" if q < 0.8 else ("origin" if q < 0.9 else "other"))
    else:
        form = "absolute" if q < 0.5 else ("authority" if q < 0.65 else ("origin" if q < 0.8 else ("asterisk" if q < 0.88 else "other")))
    if form == "authority":
        t = _gen_authority(rng)
    elif form == "absolute":
        t = rng.choice(_T_SCHEMES) + "://" + _gen_authority(rng) + rng.choice(_T_PATHS)
    elif form == "origin":
        t = rng.choice(["/", "/p?q=1", "//example.com:99999/x", "/:80", "/http://a:b/", "/\xff", "/%", "/a#f?q"])
    elif form == "asterisk":
        t = "*"
    else:
        t = rng.choice(["", "p", "?q", "#f", "http:", "http:/", "http://", "http:///p", "://a", "//" + _gen_authority(rng) + "/p",
                        "http:" + _gen_authority(rng), ":80", "@", "[", "]", "a:b:c", "\x00", "\xff:\xff"])
    return [method, t]


def _gen_targets(rng):
    lim = dict(LIMIT_SETS[3] if rng.random() < 0.7 else rng.choice(LIMIT_SETS[:3] + LIMIT_SETS[4:]))
    cases = []
    for _ in range(12):
        m, t = _gen_target(rng)
        cases.append([m, t, rng.choice(["HTTP/1.1", "HTTP/1.1", "HTTP/1.1", "HTTP/1.0"])])
    return {"kind": "targets", "cases": cases, "limits": lim,
            "policy": rng.choice(["whole", "whole", "byte", "small", "after_cr"]), "read_bufsize": rng.choice([65536, 8])}


# Unterminated lines: what the excess bytes of a line that never ends are made of (the filler) and how they arrive
DRIP2_WHATS = ["request_line", "field", "chunk_size_line", "trailer", "status_line", "resp_field", "resp_chunk_size_line",
               "resp_trailer"]
DRIP_FILLS = ["\r", "\r", "\r", " ", "\t", "\x00", "\xff", "\x7f", ";", "v\r", "\r ", "\r\r\rv", " \t", "\x0b\x0c"]


def _gen_drip2(rng):
    return {"kind": "drip", "what": rng.choice(DRIP2_WHATS), "limits": dict(rng.choice(LIMIT_SETS[:3] + LIMIT_SETS[4:])),
            "extra": rng.choice([50, 400, 3000]), "fill": rng.choice(DRIP_FILLS), "lead": rng.choice(["none", "one", "near_limit"]),
            "read": rng.choice([1, 1, 7, 64, "whole"])}


# Chunked bodies built per element: every line of the chunked coding (chunk-size line = size token + extension + line end,
# chunk-data terminator, last-chunk line, trailer field) is drawn from legal spellings, near misses and bytes of every
# class (ASCII letters, signs, whitespace, control bytes, bytes >= 0x80 alone and as UTF-8 / "digit-like" code points), so
# that whatever the parser does with a line it refuses - quoting it in the error included - is reached with every byte class.
_CB_SIZE_OK = ["3", "03", "0003", "a", "A", "1f"]
_CB_SIZE_BAD = ["", "g", "zz", "0x3", "-3", "+3", "3 3", "3_0", "3.0", "1e+1", " 3", "3 ", "\t3", "3\t", "\x003", "3\x00", "\x7f",
                "\x0b3", "\xff", "\x80", "3\xe9", "\xe93", "\xc3\xa9", "\xb2", "\xb3", "\xbd", "\xd9\xa3", "\xef\xbc\x93", "\xa03",
                "3\xa0", "\x85", "3\xff3", "\xff" * 20, "\xe2\x80\x8b3"]
_CB_EXT = ["", "", "", "", ";e=1", ";e", "; e=1", ';e="q"', ";\xe9=1", ";e=\xff", " ;e=1", ";", ";e=1;f=2", ";e=\x00", ";\xc3\xa9"]
_CB_EOL = ["\r\n"] * 7 + ["\n", "\r\r\n", "\r"]
_CB_DATA_END = ["\r\n"] * 6 + ["\n", "XX", "\r", "\xff\n", "", "\r\xff"]
_CB_LAST = ["0"] * 6 + ["00", "0\xff", "\xff0", "0 ", "-0", "\xb0"]
_CB_TRAILER = [""] * 6 + ["T: v\r\n", "T\xe9: v\r\n", "T: \xff\r\n", "\xff\r\n", ": v\r\n", "T v\r\n", " T: v\r\n", "T : v\r\n",
                          "T: v\x00\r\n", "\xc3\xa9: \xc3\xa9\r\n"]
_CB_DATA = "abcdefghijklmnopqrstuvwxyz01234"


def build_chunked(side, lead, size, ext, eol, data_end, last, trailer):
    """A message with a chunked body: `lead` well-formed chunks, then the chunk under test (size token + extension + line
    end, chunk data for a hex token, data terminator), the last-chunk line and the trailer section."""
    head = "POST / HTTP/1.1\r\nHost: a\r\n" if side == "server" else "HTTP/1.1 200 OK\r\n"
    n = int(size, 16) if re.fullmatch(r"[0-9a-fA-F]+", size) else 3
    return (head + _CH + "3\r\nabc\r\n" * lead + size + ext + eol + _CB_DATA[:n] + data_end + last + "\r\n" + trailer + "\r\n")


def _gen_chunked(rng):
    cases = []
    for _ in range(10):
        side = rng.choice(["server", "server", "client"])
        bad = rng.random() < 0.6
        size = rng.choice(_CB_SIZE_BAD if bad else _CB_SIZE_OK)
        # mostly one malformed element per message, so that the element is what decides the outcome
        q = rng.random()
        ext = rng.choice(_CB_EXT) if q < 0.35 else ""
        eol = rng.choice(_CB_EOL) if 0.3 < q < 0.5 else "\r\n"
        data_end = rng.choice(_CB_DATA_END) if (not bad and 0.45 < q < 0.65) else "\r\n"
        last = rng.choice(_CB_LAST) if (not bad and 0.6 < q < 0.8) else "0"
        trailer = rng.choice(_CB_TRAILER) if (not bad and q > 0.75) else ""
        cases.append([side, build_chunked(side, rng.choice([0, 0, 1, 2]), size, ext, eol, data_end, last, trailer)])
    return {"kind": "chunked", "cases": cases, "limits": dict(LIMIT_SETS[3] if rng.random() < 0.7 else dict(LIMIT_SETS[4], max_headers=128)),
            "policy": rng.choice(["whole", "whole", "byte", "small", "after_cr", "tiny"]), "read_bufsize": rng.choice([65536, 8])}


# Openings of other protocols: what a peer that is not speaking HTTP/1 sends first (a TLS / SSLv2 / DTLS hello, the HTTP/2
# preface, SOCKS, the PROXY protocol, SSH, SMTP, RTSP, a WebSocket frame, database and message-queue handshakes, ...).  An
# HTTP parser meets them - whole, or cut short by a read boundary, a line end inside them or the end of input - as its start
# line or as one element of it, and often has special diagnostics for them; every prefix must still end in a protocol error.
OPENINGS = [
    "\x16\x03\x01\x02\x00\x01\x00\x01\xfc\x03\x03\x5b\x8e\x12\xf0\x9a", "\x16\x03\x00\x00\x59\x01\x00\x00\x55\x03\x00",
    "\x16\x03\x03\x00\xa5\x01\x00\x00\xa1\x03\x03\x00\x01\x02", "\x16\x03\x04\x00\x2f\x01\x00\x00\x2b\x03\x03",
    "\x16\x03\x02\x01\x00\x01\x00\x00\xfc\x03\x03", "\x16\x03\x7f\x00\x10\x01\x00\x00\x0c", "\x15\x03\x03\x00\x02\x02\x28",
    "\x17\x03\x03\x00\x15\x8a\x01\x44\x9c", "\x14\x03\x03\x00\x01\x01", "\x80\x2e\x01\x00\x02\x00\x15\x00\x00\x00\x10",
    "\x16\xfe\xfd\x00\x00\x00\x00\x00\x00\x00\x00\x00\x7c\x01", "\xc0\x00\x00\x00\x01\x08\x83\x94\xc8\xf0\x3e\x51",
    "PRI * HTTP/2.0\r\n\r\nSM\r\n\r\n\x00\x00\x12\x04\x00\x00\x00\x00\x00", "\x00\x00\x12\x04\x00\x00\x00\x00\x00\x00\x03\x00\x00\x00\x64",
    "\x04\x01\x00\x50\x7f\x00\x00\x01user\x00", "\x04\x01\x01\xbb\x00\x00\x00\x01\x00example.com\x00", "\x05\x01\x00", "\x05\x02\x00\x02",
    "\x05\x01\x00\x03\x0bexample.com\x00\x50", "PROXY TCP4 192.0.2.1 192.0.2.2 56324 80\r\n", "PROXY UNKNOWN\r\n",
    "PROXY TCP6 ::1 ::1 1 2\r\n", "\r\n\r\n\x00\r\nQUIT\n\x21\x11\x00\x0c\xc0\x00\x02\x01\xc0\x00\x02\x02\xdc\x04\x00\x50",
    "SSH-2.0-OpenSSH_9.6\r\n", "EHLO client.test\r\n", "OPTIONS * RTSP/1.0\r\nCSeq: 1\r\n\r\n", "\x81\x85\x37\xfa\x21\x3d\x7f\x9f\x4d\x51\x58",
    "\x88\x82\x00\x00\x00\x00\x03\xe8", "\x03\x00\x00\x13\x0e\xe0\x00\x00\x00\x00\x00\x01\x00\x08\x00\x03\x00\x00\x00",
    "\x10\x10\x00\x04MQTT\x04\x02\x00\x3c\x00\x04abcd", "*1\r\n$4\r\nPING\r\n", "\x00\x00\x00\x08\x04\xd2\x16\x2f",
    "\x4a\x00\x00\x00\x0a5.7.1\x00", "AMQP\x00\x00\x09\x01", "\x12\x01\x00\x2f\x00\x00\x01\x00", "\xff\xfd\x18\xff\xfd\x20\xff\xfd\x23",
    "HTTP/1.1 200 OK\r\nContent-Length: 0\r\n\r\n", "GET / HTTP/1.1\r\nHost: a\r\n\r\n", "\xef\xbb\xbfGET / HTTP/1.1", "\xff\xfeG\x00E\x00T\x00 \x00/\x00",
    "\x1f\x8b\x08\x00\x00\x00\x00\x00\x00\x03", "{\"jsonrpc\": \"2.0\"}\n", "<?xml version=\"1.0\"?>\n", "stats\r\n", "\x00\x00\x00\x00\x00\x00\x00\x00",
]
# where the foreign bytes stand in the stream: (before, after); 'bare' = nothing else follows (the input ends there)
OPENING_FORMS = {
    "server": {"line": ("", "\r\nHost: a\r\n\r\n"), "method": ("", " / HTTP/1.1\r\nHost: a\r\n\r\n"), "bare": ("", ""),
               "line_lf": ("", "\n\n"), "method_only_sp": ("", " \r\n\r\n"),
               "target": ("GET ", " HTTP/1.1\r\nHost: a\r\n\r\n"), "version": ("GET / ", "\r\nHost: a\r\n\r\n"),
               "field": ("GET / HTTP/1.1\r\n", "\r\n\r\n"), "after_blank_lines": ("\r\n\r\n", "\r\n\r\n"),
               "second_line": ("GET / HTTP/1.1\r\nHost: a\r\n\r\n", "\r\nHost: a\r\n\r\n"),
               "second_method": ("GET / HTTP/1.1\r\nHost: a\r\n\r\n", " / HTTP/1.1\r\nHost: a\r\n\r\n")},
    "client": {"line": ("", "\r\n\r\n"), "version": ("", " 200 OK\r\nContent-Length: 0\r\n\r\n"), "bare": ("", ""),
               "status": ("HTTP/1.1 ", "\r\nContent-Length: 0\r\n\r\n"), "reason": ("HTTP/1.1 200 ", "\r\nContent-Length: 0\r\n\r\n"),
               "field": ("HTTP/1.1 200 OK\r\n", "\r\nContent-Length: 0\r\n\r\n"),
               "second_line": ("HTTP/1.1 200 OK\r\nContent-Length: 0\r\n\r\n", "\r\n\r\n")},
}
_OPENING_FORM_WEIGHTS = {"server": ["line"] * 4 + ["method"] * 4 + ["bare", "line_lf", "method_only_sp", "target", "version", "field",
                                                                 "after_blank_lines", "second_line", "second_method"],
                         "client": ["line"] * 3 + ["version"] * 2 + ["bare", "status", "reason", "field", "second_line"]}


def _gen_openings(rng):
    """One opening of another protocol cut at every length 1..8 (and at a few longer ones, and whole), plus a few 1-3 byte
    lines of arbitrary bytes, each placed where the scenario's forms say; cases are [side, form, bytes, read boundaries]."""
    opening = rng.choice(OPENINGS)
    side = "server" if rng.random() < 0.75 else "client"
    forms = [rng.choice(_OPENING_FORM_WEIGHTS[side]) for _ in range(2)]
    lens = sorted(set(range(1, min(8, len(opening)) + 1)) | {rng.randint(1, len(opening)) for _ in range(2)} | {len(opening)})
    cases = []
    for form in sorted(set(forms)):
        for k in lens:
            cases.append([side, form, opening[:k]])
    for _ in range(4):
        cases.append([side, rng.choice(forms), "".join(chr(rng.randrange(256)) for _ in range(rng.randint(1, 3)))])
    for c in cases:
        pre, post = OPENING_FORMS[side][c[1]]
        c.append(_cuts(rng, len(pre) + len(c[2]) + len(post), rng.choice(["whole", "whole", "whole", "pieces", "byte"])))
    return {"kind": "openings", "cases": cases, "limits": dict(LIMIT_SETS[3] if rng.random() < 0.7 else rng.choice(LIMIT_SETS)),
            "policy": rng.choice(["whole", "whole", "byte", "small", "after_cr", "tiny"]), "read_bufsize": rng.choice([65536, 8])}


def gen(rng, tier, index):
    scn = _gen_main(rng, tier, index)
    # drawn after everything else, so that the other kinds keep their scenarios
    if rng.random() < 0.08:
        return _gen_openings(rng)
    return scn


def _gen_main(rng, tier, index):
    r0 = rng.random()
    if 0.26 <= r0 < 0.33:
        return _gen_chunked(rng)
    if r0 < 0.07:
        return _gen_direct(rng)
    if r0 < 0.12:
        return {"kind": "approach", "position": rng.choice(FOLDED_POSITIONS),
                "limits": dict(rng.choice(LIMIT_SETS[:3] + LIMIT_SETS[4:])), "read_bufsize": rng.choice([65536, 16]),
                "fold_pieces": rng.choice([2, 3, 4, 7])}
    if r0 < 0.19:
        return _gen_targets(rng)
    if r0 < 0.26:
        return _gen_drip2(rng)
    r = rng.random()
    if r < 0.40:
        pos = rng.choice(POSITIONS)
        lim = dict(rng.choice(LIMIT_SETS[:3] + LIMIT_SETS[4:]))
        return {"kind": "approach", "position": pos, "limits": lim, "read_bufsize": rng.choice([65536, 16])}
    if r < 0.70:
        streams = []
        for _ in range(12):
            q = rng.random()
            if q < 0.6:
                g = G.gen_stream(rng, max_req=3, mutate=rng.random() < 0.8, bytemut=0.5, truncate=0.2, body_max=80)
                streams.append(["server", g["stream"]])
            elif q < 0.8:
                n = rng.choice([1, 7, 40, 300])
                streams.append([rng.choice(["server", "client"]), "".join(chr(rng.randrange(256)) for _ in range(n))])
            else:
                base = rng.choice(["HTTP/1.1 200 OK\r\nContent-Length: 3\r\n\r\nabc",
                                   "HTTP/1.1 200 OK\r\nTransfer-Encoding: chunked\r\n\r\n3\r\nabc\r\n0\r\nT: v\r\n\r\n",
                                   "HTTP/1.0 404 Not Found\r\nX: y\r\n\r\nbody"])
                b = list(base)
                for _ in range(rng.randint(1, 3)):
                    p = rng.randrange(len(b))
                    op = rng.random()
                    if op < 0.4:
                        b[p] = chr(rng.randrange(256))
                    elif op < 0.7:
                        b.insert(p, chr(rng.randrange(256)))
                    else:
                        del b[p]
                streams.append(["client", "".join(b)])
        return {"kind": "mutants", "streams": streams, "limits": dict(rng.choice(LIMIT_SETS)),
                "policy": rng.choice(["whole", "byte", "tiny", "small", "after_cr"]), "read_bufsize": rng.choice([65536, 8])}
    if r < 0.85:
        what = rng.choice(["request_line", "field", "header_block", "chunk_size_line", "trailer", "status_line", "resp_field"])
        return {"kind": "drip", "what": what, "limits": dict(rng.choice(LIMIT_SETS[:3])), "extra": rng.choice([50, 400])}
    if r < 0.93:
        return {"kind": "work", "family": rng.choice(["tiny_chunks", "short_lines", "long_line_bytewise", "many_requests",
                                                      "resp_tiny_chunks"]), "n": rng.choice([40, 80])}
    return {"kind": "caller", "garbage": [rng.choice([
        "HTTP/1.1 200 OK\r\nContent-Length: x\r\n\r\n", "garbage\r\n\r\n", "HTTP/1.1 200 OK\r\nTransfer-Encoding: chunked\r\n\r\nzz\r\n",
        "HTTP/1.1 99 X\r\n\r\n", "HTTP/9.9 200 OK\r\n\r\n", "\x00\x01\x02", "HTTP/1.1 200 OK\r\n: novalue\r\n\r\n",
        "HTTP/1.1 200 OK\r\nX: " + "v" * 9000 + "\r\n\r\n", "HTTP/1.1 200 OK\r\nContent-Length: 5\r\n\r\nab",
        "HTTP/1.1 200 OK\r\nContent-Encoding: gzip\r\nContent-Length: 4\r\n\r\nabcd",
        "HTTP/1.1 200 " + "".join(chr(rng.randrange(256)) for _ in range(30)) + "\r\n\r\n"]) for _ in range(4)]}


def shrink(scn):
    if scn["kind"] == "mutants" and len(scn["streams"]) > 1:
        for i in range(len(scn["streams"])):
            yield dict(scn, streams=[scn["streams"][i]])
    if scn["kind"] == "mutants" and scn["policy"] != "whole":
        yield dict(scn, policy="whole")
    if scn["kind"] == "caller" and len(scn["garbage"]) > 1:
        for i in range(len(scn["garbage"])):
            yield dict(scn, garbage=[scn["garbage"][i]])
    if scn["kind"] == "openings":
        for i, c in enumerate(scn["cases"]):
            if c[3]:
                yield dict(scn, cases=scn["cases"][:i] + [c[:3] + [[]]] + scn["cases"][i + 1:])
        if scn["limits"] != LIMIT_SETS[3]:
            yield dict(scn, limits=dict(LIMIT_SETS[3]))
    if scn["kind"] in ("targets", "chunked", "openings"):
        if len(scn["cases"]) > 1:
            for c in scn["cases"]:
                yield dict(scn, cases=[c])
        if scn["policy"] != "whole":
            yield dict(scn, policy="whole")
        if scn["read_bufsize"] != 65536:
            yield dict(scn, read_bufsize=65536)
    if scn["kind"] == "drip" and "fill" in scn:
        if scn["read"] != 1:
            yield dict(scn, read=1)
        if scn["lead"] != "none":
            yield dict(scn, lead="none")
        if scn["extra"] != 50:
            yield dict(scn, extra=50)
        if len(scn["fill"]) > 1:
            for c in sorted(set(scn["fill"])):
                yield dict(scn, fill=c)
    if scn["kind"] == "approach" and scn.get("fold_pieces", 2) > 2:
        yield dict(scn, fold_pieces=2)
    if scn["kind"] == "direct" and scn["family"] == "numeric":
        if len(scn["positions"]) > 1:
            for p in scn["positions"]:
                yield dict(scn, positions=[p])
        if scn["seg"] != "whole":
            yield dict(scn, seg="whole")
        if scn["after"]:
            yield dict(scn, after=0)
    if scn["kind"] == "direct" and scn["family"] == "eofcut":
        if len(scn["cases"]) > 1:
            for c in scn["cases"]:
                yield dict(scn, cases=[c])
        for i, c in enumerate(scn["cases"]):
            if c[2]:
                yield dict(scn, cases=scn["cases"][:i] + [[c[0], c[1], []]] + scn["cases"][i + 1:])


# ---------------------------------------------------------------------------
# retained bytes: walk the object graph from the parser


import types as _types

_NO_WALK = (asyncio.BaseProtocol, asyncio.AbstractEventLoop, asyncio.BaseTransport, asyncio.Future, _types.ModuleType,
            _types.FunctionType, _types.MethodType, _types.BuiltinFunctionType, re.Pattern)


def retained_bytes(root, exclude_types):
    seen = set()
    total = 0
    stack = []
    # the root itself may hold a back-reference to its protocol: walk its attributes, not the protocol
    d0 = getattr(root, "__dict__", None)
    if d0:
        stack.extend(v for v in d0.values())
    else:
        stack.append(root)
    n = 0
    while stack:
        o = stack.pop()
        i = id(o)
        if i in seen:
            continue
        seen.add(i)
        n += 1
        if n > 20000:
            break
        if isinstance(o, (bytes, bytearray)):
            total += len(o)
            continue
        if isinstance(o, memoryview):
            total += o.nbytes
            continue
        if isinstance(o, (str, int, float, bool, type(None), type)) or callable(o) and not hasattr(o, "__dict__") and not hasattr(o, "__slots__"):
            continue
        if isinstance(o, exclude_types) or isinstance(o, _NO_WALK):
            continue
        if isinstance(o, (list, tuple, set, frozenset)):
            stack.extend(o)
            continue
        if isinstance(o, dict):
            stack.extend(o.values())
            continue
        import collections
        if isinstance(o, collections.deque):
            stack.extend(o)
            continue
        d = getattr(o, "__dict__", None)
        if d:
            stack.extend(d.values())
        for klass in type(o).__mro__:
            for s in getattr(klass, "__slots__", ()) or ():
                try:
                    stack.append(getattr(o, s))
                except AttributeError:
                    pass
    return total


# ---------------------------------------------------------------------------


class _Writer(asyncio.Protocol):
    def __init__(self, data=b"", close_after=False):
        self.data = data
        self.close_after = close_after
        self.received = bytearray()
        self.tr = None
        self.lost = False

    def connection_made(self, tr):
        self.tr = tr
        if self.data:
            tr.write(self.data)
        if self.close_after:
            tr.close()

    def data_received(self, d):
        self.received += d

    def eof_received(self):
        return False

    def connection_lost(self, exc):
        self.lost = True


class Ctx:
    def __init__(self, w, lim, read_bufsize):
        self.w = w
        self.lim = lim
        self.read_bufsize = read_bufsize
        self.by_conn = {}
        self.payload_excs = {}
        self.server = None

    def start_server(self):
        from aiohttp import web

        by_conn = self.by_conn
        payload_excs = self.payload_excs

        async def handler(request):
            cid = request.transport.get_extra_info("sim_conn")
            recs = by_conn.setdefault(cid, [])
            if request.pre_handler_error is not None:
                recs.append("ERR")
                raise request.pre_handler_error
            recs.append("REQ")
            try:
                await request.read()
            except asyncio.CancelledError:
                raise
            except web.HTTPException:
                raise
            except Exception as e:
                recs.append("PAYLOAD_ERR:" + type(e).__name__)
                payload_excs.setdefault(cid, e)
                raise
            return web.Response(body=b"ok")

        lim = self.lim

        async def mk():
            return web.Server(handler, max_line_size=lim["max_line_size"], max_field_size=lim["max_field_size"],
                              max_headers=lim["max_headers"], read_bufsize=self.read_bufsize, access_log=None,
                              keepalive_timeout=75, lingering_time=0)

        loop = self.w.loop
        self.server = loop.run_sim(mk(), vt_cap=loop.time() + 1).result()
        self.w.net.listen(self.server, "10.0.0.1", 80)
        self.w.net.max_latency_ticks = 0

    def server_once(self, data: bytes, policy, after_each=None):
        loop, net = self.w.loop, self.w.net
        cl = _Writer(data)
        ctr, str_ = net.connect_raw(("10.0.0.1", 80), cl)
        ctr.out.policy = policy
        cid = ctr.get_extra_info("sim_conn")
        if after_each is not None:
            hook = lambda: after_each(str_.protocol)  # noqa: E731
            loop.step_hooks.append(hook)
        loop.run_sim(None, vt_cap=loop.time() + 0.5, step_cap=loop.steps + 300_000)
        if after_each is not None:
            loop.step_hooks.remove(hook)
        recs = self.by_conn.pop(cid, [])
        statuses = [int(x) for x in _STATUS.findall(bytes(cl.received))]
        out = {"recs": recs, "statuses": statuses, "closed": str_._closed or str_._closing,
               "payload_exc": self.payload_excs.pop(cid, None),
               "exc": list(loop.exc_contexts), "fatal": list(net.fatal_errors), "capped": loop.capped == "steps",
               "answered": bool(cl.received)}
        # the task serving this connection must not have ended with an exception (nobody awaits it: the failure would
        # only show as 'Task exception was never retrieved' when the connection object is finally dropped)
        th = getattr(str_.protocol, "_task_handler", None)
        if isinstance(th, asyncio.Future) and th.done() and not th.cancelled() and th.exception() is not None:
            out["task_exc"] = th.exception()
        loop.exc_contexts.clear()
        net.fatal_errors.clear()
        if not ctr._closed:
            ctr.abort()
        loop.run_sim(None, vt_cap=loop.time() + 0.01, step_cap=loop.steps + 50_000)
        # whatever the teardown of this connection reports belongs to this connection, not to the next one
        if loop.exc_contexts:
            out["exc"] = out["exc"] + list(loop.exc_contexts)
            loop.exc_contexts.clear()
        if net.fatal_errors:
            out["fatal"] = out["fatal"] + list(net.fatal_errors)
            net.fatal_errors.clear()
        return out

    def client_once(self, data: bytes, policy, eof=True, after_each=None):
        from aiohttp.client_proto import ResponseHandler
        from aiohttp.streams import EofStream

        loop, net = self.w.loop, self.w.net
        lim = self.lim
        proto = ResponseHandler(loop)
        proto.set_response_params(read_until_eof=True, max_line_size=lim["max_line_size"], max_field_size=lim["max_field_size"],
                                  max_headers=lim["max_headers"], read_bufsize=self.read_bufsize)
        peer = _Writer(data, eof)
        recs = []
        final = {"exc": None, "type": None}

        async def consume():
            try:
                while True:
                    msg, payload = await proto.read()
                    recs.append("RESP")
                    try:
                        while True:
                            d = await payload.readany()
                            if not d:
                                break
                        recs.append("DONE")
                    except asyncio.CancelledError:
                        raise
                    except Exception as e:
                        recs.append("PAYLOAD_ERR:" + type(e).__name__)
                        final["type"] = e
                        break
            except EofStream:
                pass
            except asyncio.CancelledError:
                raise
            except Exception as e:
                final["exc"] = type(e).__name__
                final["type"] = e
                final["msg"] = str(getattr(e, "message", "") or e)

        a, b = net.make_pair(("10.9.9.9", 9))
        a.protocol, b.protocol = proto, peer
        b.out.policy = policy
        proto.connection_made(a)
        t = loop.create_task(consume(), name="consume")
        if after_each is not None:
            hook = lambda: after_each(proto)  # noqa: E731
            loop.step_hooks.append(hook)
        peer.connection_made(b)
        loop.run_sim(None, vt_cap=loop.time() + 0.5, step_cap=loop.steps + 300_000)
        if after_each is not None:
            loop.step_hooks.remove(hook)
        blocked = not t.done()
        if blocked:
            t.cancel()
        out = {"recs": recs, "exc": final["exc"], "msg": final.get("msg", ""), "etype": final["type"], "blocked": blocked,
               "loop_exc": list(loop.exc_contexts), "fatal": list(net.fatal_errors), "capped": loop.capped == "steps"}
        loop.exc_contexts.clear()
        net.fatal_errors.clear()
        if not b._closed:
            b.abort()
        loop.run_sim(None, vt_cap=loop.time() + 0.01, step_cap=loop.steps + 50_000)
        return out


def _escape_violation(out, where, violate, what):
    if out.get("task_exc") is not None:
        e = out["task_exc"]
        violate("only_protocol_errors", f"{where}:connection_task_died:{type(e).__name__}@{_aio_frame(e)}",
                f"{what}: the task serving the connection ended with {type(e).__name__}: {str(e)[:160]!r} (not an HTTP "
                f"protocol error; the peer got {'an answer' if out.get('answered') else 'no answer'})")
        return True
    if out.get("exc") and isinstance(out["exc"], list) and out["exc"]:
        c = out["exc"][0]
        violate("only_protocol_errors", f"{where}:loop_exception:{c['exc_type']}@{c.get('frame')}",
                f"{what}: exception reached the event loop: {c['message']} {c['exc']}")
        return True
    if out.get("loop_exc"):
        c = out["loop_exc"][0]
        violate("only_protocol_errors", f"{where}:loop_exception:{c['exc_type']}@{c.get('frame')}",
                f"{what}: exception reached the event loop: {c['message']} {c['exc']}")
        return True
    if out.get("fatal"):
        f = out["fatal"][0]
        violate("only_protocol_errors", f"{where}:fatal:{f[2]}", f"{what}: fatal protocol error {f}")
        return True
    return False


def _foreign_cause(e):
    """What a failed body stream handed to its reader, followed along the explicit cause chain: an HTTP protocol error
    (HttpProcessingError) ends the walk; RequestPayloadError / ClientPayloadError are the wrappers the protocols put around
    whatever the payload parser raised, so their cause is what is judged (no cause: nothing to judge, e.g. a lost
    connection); other client / web / connection errors are not parser outcomes.  Returns the first exception of any
    other type - the parser raised something that is not an HTTP protocol error - or None."""
    from aiohttp import web
    from aiohttp.client_exceptions import ClientError, ClientPayloadError
    from aiohttp.http_exceptions import HttpProcessingError
    from aiohttp.web_protocol import RequestPayloadError

    for _ in range(8):
        if e is None or isinstance(e, HttpProcessingError):
            return None
        if isinstance(e, (RequestPayloadError, ClientPayloadError)):
            e = e.__cause__
            continue
        if isinstance(e, (ClientError, web.HTTPException, ConnectionError, asyncio.TimeoutError)):
            return None
        return e
    return None


def _payload_violation(exc, where, violate, what):
    f = _foreign_cause(exc)
    if f is None:
        return False
    violate("only_protocol_errors", f"{where}:payload_failure_cause:{type(f).__name__}@{_aio_frame(f)}",
            f"{what}: the body stream failed with {type(exc).__name__}: {str(exc)[:100]!r} whose cause is {type(f).__name__}: "
            f"{str(f)[:120]!r} - the payload parser raised something that is not an HTTP protocol error")
    return True


def run(scn, ch, log=False):
    viols = []

    def violate(inv, key, msg):
        if not viols:
            viols.append({"invariant": inv, "key": key, "message": msg})

    probes = {}
    with World(ch, 0, log_events=log) as w:
        kind = scn["kind"]
        nontrivial = False
        if kind == "approach":
            lim = dict(scn["limits"])
            pos = scn["position"]
            if not pos.endswith("_count"):
                lim["max_headers"] = 128  # the count budget is not what this position probes
            ctx = Ctx(w, lim, scn["read_bufsize"])
            ctx.start_server()
            base = {"request_line": lim["max_line_size"], "second_request_line": lim["max_line_size"],
                    "status_line": lim["max_line_size"], "chunk_size_line": lim["max_line_size"],
                    "resp_chunk_line": lim["max_line_size"], "chunk_ext": lim["max_line_size"],
                    "field": lim["max_field_size"], "trailer": lim["max_field_size"], "resp_field": lim["max_field_size"],
                    "resp_trailer": lim["max_field_size"], "resp_folded_field": lim["max_field_size"],
                    "resp_folded_trailer": lim["max_field_size"], "header_count": lim["max_headers"],
                    "resp_header_count": lim["max_headers"], "trailer_count": lim["max_headers"]}[pos]
            eq = "eq" if lim["max_line_size"] == lim["max_field_size"] else ("line_lt_field" if lim["max_line_size"] < lim["max_field_size"] else "line_gt_field")
            lengths = sorted({max(1, base - 6), base - 1, base, base + 1, base + 4, base * 4})
            for length in lengths:
                b = build(pos, length, lim, scn.get("fold_pieces", 3))
                if b is None:
                    continue
                side, stream = b
                exp = expected(pos, length, lim)
                for policy in ("whole", list(range(1, len(stream)))):
                    pname = "whole" if policy == "whole" else "drip"
                    data = G.enc(stream)
                    if side == "server":
                        out = ctx.server_once(data, policy)
                        if _escape_violation(out, "server", violate, f"{pos} len={length}"):
                            break
                        rejected = "ERR" in out["recs"] or any(r.startswith("PAYLOAD_ERR") for r in out["recs"])
                        accepted = out["recs"].count("REQ") >= (2 if pos == "second_request_line" else 1) and not rejected
                    else:
                        out = ctx.client_once(data, policy, eof=False)
                        if _escape_violation(out, "client", violate, f"{pos} len={length}"):
                            break
                        rejected = out["exc"] is not None or any(r.startswith("PAYLOAD_ERR") for r in out["recs"])
                        accepted = "DONE" in out["recs"] and not rejected
                    nontrivial = True
                    probes["approach_cases"] = probes.get("approach_cases", 0) + 1
                    at = "at_limit" if length == base else ("below" if length < base else "above")
                    if exp == "reject" and not rejected:
                        violate("limit_enforced", f"limit_not_enforced:{pos}:{eq}:{pname}:{at}",
                                f"{pos} of length {length} exceeds its limit ({base}) under limits {lim} but was accepted "
                                f"({pname} delivery): {out['recs']} {out.get('statuses', out.get('exc'))}")
                    elif exp == "accept" and not accepted:
                        violate("within_limit_accepted", f"valid_refused:{pos}:{eq}:{pname}:{at}",
                                f"{pos} of length {length} is within its limit ({base}) under limits {lim} but was refused "
                                f"({pname} delivery): {out['recs']} {out.get('statuses', out.get('exc'))} {out.get('msg', '')[:80]}")
                if viols:
                    break
        elif kind == "mutants":
            lim = scn["limits"]
            ctx = Ctx(w, lim, scn["read_bufsize"])
            ctx.start_server()
            from aiohttp.http_exceptions import HttpProcessingError
            from aiohttp.client_exceptions import ClientError
            for side, s in scn["streams"]:
                data = G.enc(s)
                if side == "server":
                    out = ctx.server_once(data, scn["policy"])
                    if _escape_violation(out, "server", violate, f"stream {s[:80]!r}"):
                        break
                    if out["capped"]:
                        violate("no_hang", "server:step_cap", f"server did not settle on {s[:80]!r}")
                        break
                    if _payload_violation(out["payload_exc"], "server", violate, f"stream {s[:80]!r}"):
                        break
                    if "ERR" in out["recs"]:
                        nontrivial = True
                        probes["server_rejections"] = probes.get("server_rejections", 0) + 1
                        if not out["statuses"] or not 400 <= out["statuses"][-1] < 500:
                            # a parser error that the server could not answer (known finding C01-F5) is keyed apart
                            violate("parser_error_is_4xx", "server:parser_error_without_4xx",
                                    f"parser error on {s[:80]!r} but statuses={out['statuses']}")
                            break
                else:
                    out = ctx.client_once(data, scn["policy"], eof=True)
                    if _escape_violation(out, "client", violate, f"stream {s[:80]!r}"):
                        break
                    if out["blocked"]:
                        violate("no_hang", "client:consumer_blocked_after_eof", f"client consumer still blocked after EOF on {s[:80]!r}")
                        break
                    e = out["etype"]
                    if _payload_violation(e, "client", violate, f"stream {s[:80]!r}"):
                        break
                    if e is not None:
                        nontrivial = True
                        probes["client_rejections"] = probes.get("client_rejections", 0) + 1
                        if not isinstance(e, (HttpProcessingError, ClientError)):
                            violate("only_protocol_errors", f"client:exception_type:{type(e).__name__}",
                                    f"client parser surfaced {type(e).__name__}: {e!r} on {s[:80]!r}")
                            break
        elif kind == "drip":
            lim = scn["limits"]
            ctx = Ctx(w, lim, 65536)
            ctx.start_server()
            from aiohttp.streams import StreamReader
            L, F, H = lim["max_line_size"], lim["max_field_size"], lim["max_headers"]
            what = scn["what"]
            n = (L if what in ("request_line", "chunk_size_line", "status_line", "resp_chunk_size_line") else F) + scn["extra"]
            if "fill" in scn:
                # the line never ends; its excess is made of the scenario's filler (no LF), after `lead` ordinary bytes
                head, ch0, side, bound = _DRIP_PREFIX[what]
                bound = {"L": L, "F": F, "LF": max(L, F)}[bound]
                lead = {"none": 0, "one": 1, "near_limit": max(0, n - scn["extra"] - 4)}[scn["lead"]]
                s = head + ch0 * lead + (scn["fill"] * (n // len(scn["fill"]) + 1))[:n - lead]
            elif what == "request_line":
                side, s, bound = "server", "GET /" + "a" * n, L
            elif what == "field":
                side, s, bound = "server", "GET / HTTP/1.1\r\nHost: a\r\nX: " + "v" * n, max(L, F)
            elif what == "header_block":
                side, s, bound = "server", "GET / HTTP/1.1\r\n" + "".join(f"H{i}: {'v' * (F - 8)}\r\n" for i in range(H + 5)), None
            elif what == "chunk_size_line":
                side, s, bound = "server", "POST / HTTP/1.1\r\nHost: a\r\nTransfer-Encoding: chunked\r\n\r\n" + "0" * n, L
            elif what == "trailer":
                side, s, bound = "server", "POST / HTTP/1.1\r\nHost: a\r\nTransfer-Encoding: chunked\r\n\r\n0\r\nT: " + "v" * n, max(L, F)
            elif what == "status_line":
                side, s, bound = "client", "HTTP/1.1 200 " + "R" * n, L
            else:
                side, s, bound = "client", "HTTP/1.1 200 OK\r\nX: " + "v" * n, max(L, F)
            data = G.enc(s)
            read = scn.get("read", 1)
            # the last byte always arrives alone: a parser that judges what it retained when the next read arrives (the
            # 'one read' of latitude) gets a read after the line has exceeded its limit
            if read == "whole":
                policy, rsize = [len(data) - 1], len(data)
            else:
                policy, rsize = sorted(set(range(read, len(data), read)) | {len(data) - 1}), read
            block_bound = L + H * F + 2 * 64 + 4096
            line_bound = None if bound is None else bound + 2 * max(64, rsize) + 256
            state = {"max": 0}

            def after(proto):
                par = getattr(proto, "_parser", None)
                if par is None:
                    return
                r = retained_bytes(par, (StreamReader,))
                if r > state["max"]:
                    state["max"] = r

            out = ctx.server_once(data, policy, after_each=after) if side == "server" else ctx.client_once(data, policy, eof=False, after_each=after)
            nontrivial = True
            probes["drip_max_retained"] = state["max"]
            if "fill" in scn:
                probes["drip_filler_runs"] = 1
            if not _escape_violation(out, side, violate, f"drip {what}"):
                lim_b = line_bound if line_bound is not None else block_bound
                if state["max"] > lim_b:
                    violate("retained_bounded", f"retained_over_bound:{what}",
                            f"drip-fed {what}: parser retained {state['max']} bytes, bound {lim_b} under limits {lim}"
                            + _drip_desc(scn, data))
                rejected = (("ERR" in out["recs"] or any(r.startswith("PAYLOAD_ERR") for r in out["recs"])) if side == "server"
                            else (out["exc"] is not None or any(r.startswith("PAYLOAD_ERR") for r in out["recs"])))
                if not rejected:
                    violate("limit_enforced", f"drip_not_rejected:{what}",
                            f"drip-fed over-long {what} ({len(data)} bytes, limits {lim}) was never rejected: {out['recs']}"
                            + _drip_desc(scn, data))
        elif kind == "targets":
            lim = scn["limits"]
            ctx = Ctx(w, lim, scn["read_bufsize"])
            ctx.start_server()
            for method, target, version in scn["cases"]:
                s = f"{method} {target} {version}\r\nHost: a\r\n\r\n"
                what = f"request line {method + ' ' + target + ' ' + version!r}"
                out = ctx.server_once(G.enc(s), scn["policy"])
                probes["target_cases"] = probes.get("target_cases", 0) + 1
                if _escape_violation(out, "server", violate, what):
                    break
                if out["capped"]:
                    violate("no_hang", "server:step_cap", f"server did not settle on {what}")
                    break
                if "ERR" in out["recs"]:
                    nontrivial = True
                    probes["target_rejections"] = probes.get("target_rejections", 0) + 1
                    if not out["statuses"] or not 400 <= out["statuses"][-1] < 500:
                        violate("parser_error_is_4xx", "server:parser_error_without_4xx",
                                f"parser error on {what} but statuses={out['statuses']}")
                        break
                elif "REQ" in out["recs"]:
                    probes["target_accepted"] = probes.get("target_accepted", 0) + 1
                else:
                    # one complete request was delivered: the parser yields a message (the handler is entered) or a
                    # protocol error (answered 400); neither means the request went nowhere
                    violate("no_hang", "server:complete_request_neither_handled_nor_refused",
                            f"{what} (complete request, {scn['policy']} delivery) neither reached the handler nor was refused: "
                            f"statuses={out['statuses']} closed={out['closed']}")
                    break
        elif kind == "chunked":
            lim = scn["limits"]
            ctx = Ctx(w, lim, scn["read_bufsize"])
            ctx.start_server()
            from aiohttp.client_exceptions import ClientError
            from aiohttp.http_exceptions import HttpProcessingError
            whole = scn["policy"] == "whole"
            # the parser objects themselves first: what leaves feed_data()/feed_eof() or is stored on the body stream
            if _direct(w, {"family": "eofcut", "limits": lim, "cases": [[sd, s, []] for sd, s in scn["cases"]]}, violate, probes):
                nontrivial = True
            for side, s in ([] if viols else scn["cases"]):
                data = G.enc(s)
                what = f"chunked {'request' if side == 'server' else 'response'} body {s[s.index(_CH) + len(_CH):][:60]!r}"
                probes["chunked_cases"] = probes.get("chunked_cases", 0) + 1
                if side == "server":
                    out = ctx.server_once(data, scn["policy"])
                    if _escape_violation(out, "server", violate, what):
                        break
                    if out["capped"]:
                        violate("no_hang", "server:step_cap", f"server did not settle on {what}")
                        break
                    if _payload_violation(out["payload_exc"], "server", violate, what):
                        break
                    failed = "ERR" in out["recs"] or out["payload_exc"] is not None
                    if failed:
                        nontrivial = True
                        probes["chunked_rejections"] = probes.get("chunked_rejections", 0) + 1
                    if "ERR" in out["recs"] and (not out["statuses"] or not 400 <= out["statuses"][-1] < 500):
                        violate("parser_error_is_4xx", "server:parser_error_without_4xx",
                                f"parser error on {what} but statuses={out['statuses']}")
                        break
                    if failed and whole and (not out["statuses"] or not 400 <= out["statuses"][0] < 500):
                        # the whole message arrived in one read: the parser met the malformed line in the very call that
                        # produced the message, nothing was dispatched before it - the failure is the parser's outcome for
                        # this input and has to be the HTTP protocol error the server answers with a 4xx
                        violate("parser_error_is_4xx", "server:body_parse_failure_in_one_read_without_4xx",
                                f"{what} delivered in one read: the body could not be parsed ({out['recs']}) but the answer "
                                f"was {out['statuses']}, not a 4xx")
                        break
                    if not failed and "REQ" not in out["recs"]:
                        violate("no_hang", "server:complete_request_neither_handled_nor_refused",
                                f"{what} ({scn['policy']} delivery) neither reached the handler nor was refused: "
                                f"statuses={out['statuses']} closed={out['closed']}")
                        break
                else:
                    out = ctx.client_once(data, scn["policy"], eof=True)
                    if _escape_violation(out, "client", violate, what):
                        break
                    if out["blocked"]:
                        violate("no_hang", "client:consumer_blocked_after_eof", f"client consumer still blocked after EOF on {what}")
                        break
                    e = out["etype"]
                    if _payload_violation(e, "client", violate, what):
                        break
                    if e is not None:
                        nontrivial = True
                        probes["chunked_rejections"] = probes.get("chunked_rejections", 0) + 1
                        if not isinstance(e, (HttpProcessingError, ClientError)):
                            violate("only_protocol_errors", f"client:exception_type:{type(e).__name__}",
                                    f"client parser surfaced {type(e).__name__}: {e!r} on {what}")
                            break
        elif kind == "openings":
            lim = scn["limits"]
            ctx = Ctx(w, lim, scn["read_bufsize"])
            ctx.start_server()
            from aiohttp.client_exceptions import ClientError
            from aiohttp.http_exceptions import HttpProcessingError
            streams = []
            for side, form, p, cuts in scn["cases"]:
                pre, post = OPENING_FORMS[side][form]
                streams.append([side, form, p, pre + p + post, cuts])
            # the parser objects themselves first (feed_data at the case's read boundaries, then feed_eof)
            if _direct(w, {"family": "eofcut", "limits": lim, "cases": [[sd, s, cuts] for sd, _f, _p, s, cuts in streams]}, violate, probes):
                nontrivial = True
            for side, form, p, s, _cuts_ in ([] if viols else streams):
                data = G.enc(s)
                what = f"foreign opening {p[:40]!r} ({len(p)} bytes) as {form} of a {'request' if side == 'server' else 'response'}: {s[:90]!r}"
                probes["opening_cases"] = probes.get("opening_cases", 0) + 1
                if side == "server":
                    out = ctx.server_once(data, scn["policy"])
                    if _escape_violation(out, "server", violate, what):
                        break
                    if out["capped"]:
                        violate("no_hang", "server:step_cap", f"server did not settle on {what}")
                        break
                    if "ERR" in out["recs"]:
                        nontrivial = True
                        probes["opening_rejections"] = probes.get("opening_rejections", 0) + 1
                        # (the 400's body quotes the offending line, which may itself look like a status line: any 4xx)
                        if not any(400 <= x < 500 for x in out["statuses"]):
                            violate("parser_error_is_4xx", "server:parser_error_without_4xx",
                                    f"parser error on {what} but statuses={out['statuses']}")
                            break
                    elif "REQ" in out["recs"]:
                        probes["opening_accepted"] = probes.get("opening_accepted", 0) + 1
                    elif form != "bare" and s.strip("\r\n"):
                        # the stream has something other than empty lines and ends with an empty line: the parser has a
                        # complete header block (or met an error before it), so it yields a message or a protocol error
                        violate("no_hang", "server:complete_request_neither_handled_nor_refused",
                                f"{what} ({scn['policy']} delivery) neither reached the handler nor was refused: "
                                f"statuses={out['statuses']} closed={out['closed']}")
                        break
                else:
                    out = ctx.client_once(data, scn["policy"], eof=True)
                    if _escape_violation(out, "client", violate, what):
                        break
                    if out["blocked"]:
                        violate("no_hang", "client:consumer_blocked_after_eof", f"client consumer still blocked after EOF on {what}")
                        break
                    e = out["etype"]
                    if _payload_violation(e, "client", violate, what):
                        break
                    if e is not None:
                        nontrivial = True
                        probes["opening_rejections"] = probes.get("opening_rejections", 0) + 1
                        if not isinstance(e, (HttpProcessingError, ClientError)):
                            violate("only_protocol_errors", f"client:exception_type:{type(e).__name__}",
                                    f"client parser surfaced {type(e).__name__}: {e!r} on {what}")
                            break
        elif kind == "work":
            nontrivial = True
            counts = []
            for mult in (1, 2, 4):
                counts.append(_work(w, scn["family"], scn["n"] * mult))
            probes["work_ratio_x100"] = int(100 * counts[2] / max(1, counts[0]))
            if counts[0] > 0 and counts[2] / counts[0] > 4.5 * 1.15:
                violate("linear_work", f"superlinear:{scn['family']}",
                        f"executed parser lines for sizes n,2n,4n (n={scn['n']}): {counts} - ratio {counts[2] / counts[0]:.2f} > 4.5")
        elif kind == "caller":
            nontrivial = True
            _caller(w, scn, violate, probes)
        elif kind == "direct":
            nontrivial = _direct(w, scn, violate, probes)
        st = w.stats()
        res = {
            "violations": viols, "nontrivial": bool(nontrivial),
            "sig": f"{kind}|{scn.get('position', scn.get('what', scn.get('family', '')))}|{sorted((scn.get('limits') or {}).items())}|{st['sig']}",
            "digest": st["digest"], "steps": st["steps"], "vtime": st["vtime"], "faults": st["faults"],
            "probes": dict(probes, **{"kind_" + kind: 1}),
            "shape": f"{kind}-{scn.get('position', scn.get('what', scn.get('family', '')))}",
        }
        if log:
            res["event_log"] = w.loop.event_log[-100:]
        return res


_CH = "Transfer-Encoding: chunked\r\n\r\n"
# what -> (bytes before the unterminated line, ordinary byte of that line, side, limit that applies: L line, F field)
_DRIP_PREFIX = {
    "request_line": ("GET /", "a", "server", "L"),
    "field": ("GET / HTTP/1.1\r\nHost: a\r\nX: ", "v", "server", "LF"),
    "chunk_size_line": ("POST / HTTP/1.1\r\nHost: a\r\n" + _CH, "0", "server", "L"),
    "trailer": ("POST / HTTP/1.1\r\nHost: a\r\n" + _CH + "0\r\nT: ", "v", "server", "LF"),
    "status_line": ("HTTP/1.1 200 ", "R", "client", "L"),
    "resp_field": ("HTTP/1.1 200 OK\r\nX: ", "v", "client", "LF"),
    "resp_chunk_size_line": ("HTTP/1.1 200 OK\r\n" + _CH, "0", "client", "L"),
    "resp_trailer": ("HTTP/1.1 200 OK\r\n" + _CH + "0\r\nT: ", "v", "client", "LF"),
}


def _drip_desc(scn, data):
    if "fill" not in scn:
        return ""
    return (f"; the line's excess bytes are a run of {scn['fill']!r} after {scn['lead']} ordinary byte(s), delivered in reads of "
            f"{scn['read']} byte(s); last bytes {bytes(data[-12:])!r}")


def _work(w, family, n):
    """Executed-line count inside http_parser.py while parsing one input of size ~n units."""
    from aiohttp import http_parser

    ctx = Ctx(w, {"max_line_size": 8190, "max_field_size": 8190, "max_headers": 128}, 65536)
    if not getattr(w, "_c10_server", False):
        ctx.start_server()
        w._c10_server = ctx
    else:
        ctx = w._c10_server
    if family == "tiny_chunks":
        side, s, policy = "server", "POST / HTTP/1.1\r\nHost: a\r\nTransfer-Encoding: chunked\r\n\r\n" + "1\r\nx\r\n" * n + "0\r\n\r\n", "whole"
    elif family == "resp_tiny_chunks":
        side, s, policy = "client", "HTTP/1.1 200 OK\r\nTransfer-Encoding: chunked\r\n\r\n" + "1\r\nx\r\n" * n + "0\r\n\r\n", "whole"
    elif family == "short_lines":
        side, s, policy = "server", "GET / HTTP/1.1\r\nHost: a\r\n" + "".join(f"H{i % 100}: v\r\n" for i in range(min(n, 120))) + "\r\n", "whole"
    elif family == "long_line_bytewise":
        side, s = "server", "GET /" + "a" * (n * 10) + " HTTP/1.1\r\nHost: a\r\n\r\n"
        policy = list(range(1, len(s)))
    else:
        side, s, policy = "server", "GET / HTTP/1.1\r\nHost: a\r\n\r\n" * n, "whole"
    fname = http_parser.__file__
    count = [0]
    mon = sys.monitoring
    TOOL = 3
    try:
        mon.use_tool_id(TOOL, "c10work")
    except ValueError:
        pass

    def on_line(code, line):
        if code.co_filename == fname:
            count[0] += 1
            return None
        return mon.DISABLE

    mon.register_callback(TOOL, mon.events.LINE, on_line)
    mon.set_events(TOOL, mon.events.LINE)
    try:
        if side == "server":
            ctx.server_once(G.enc(s), policy)
        else:
            ctx.client_once(G.enc(s), policy, eof=False)
    finally:
        mon.set_events(TOOL, 0)
        mon.register_callback(TOOL, mon.events.LINE, None)
        mon.restart_events()
        try:
            mon.free_tool_id(TOOL)
        except Exception:
            pass
    return count[0]


def _aio_frame(exc):
    """Innermost aiohttp frame of an exception's traceback: ('file.py', 'function')."""
    tb = exc.__traceback__
    last = None
    while tb is not None:
        fn = tb.tb_frame.f_code.co_filename
        if "/aiohttp/" in fn:
            last = (fn.rsplit("/", 1)[-1], tb.tb_frame.f_code.co_name)
        tb = tb.tb_next
    return last


def _direct(w, scn, violate, probes):
    """World P: the parser objects driven directly.  Every input is fed with feed_data() in the given pieces and - unless
    feed_data() raised - finished with feed_eof().  Whatever leaves either call, and whatever is stored as the
    exception of a body stream handed out with a message, must be an HTTP protocol error (HttpProcessingError)."""
    from aiohttp.base_protocol import BaseProtocol
    from aiohttp.http_exceptions import HttpProcessingError
    from aiohttp.http_parser import HttpRequestParser, HttpResponseParser

    lim = scn["limits"]
    loop = w.loop
    if scn["family"] == "numeric":
        cases = []
        rr = random.Random(scn["segseed"])
        for pos in scn["positions"]:
            side, s = build_numeric(pos, scn["digits"], scn["lead"], scn["fill"], scn["hexfill"], scn["after"])
            n = len(s)
            if scn["seg"] == "whole" or n < 2:
                cuts = []
            elif scn["seg"] == "pieces":
                cuts = sorted({rr.randrange(1, n) for _ in range(rr.randint(1, 5))})
            else:  # the last bytes one at a time (the element's terminator and what follows it)
                cuts = list(range(max(1, n - scn["after"] - 6), n))
            cases.append([side, s, cuts, scn["eof"], pos])
    else:
        cases = [[c[0], c[1], c[2], True, "eofcut"] for c in scn["cases"]]
    any_decision = False
    for side, s, cuts, eof, label in cases:
        data = G.enc(s)
        proto = BaseProtocol(loop)
        cls = HttpRequestParser if side == "server" else HttpResponseParser
        kw = {"read_until_eof": True} if side == "client" else {}
        parser = cls(proto, loop, 2 ** 16, max_line_size=lim["max_line_size"], max_field_size=lim["max_field_size"],
                     max_headers=lim["max_headers"], **kw)
        proto._parser = parser
        payloads = []
        bounds = [0] + [c for c in cuts if 0 < c < len(data)] + [len(data)]
        stage = "feed_data"
        err = None
        try:
            for a, b in zip(bounds, bounds[1:]):
                if a == b:
                    continue
                msgs, _upgraded, _tail = parser.feed_data(data[a:b])
                payloads.extend(pl for _m, pl in msgs)
            if eof:
                stage = "feed_eof"
                parser.feed_eof()
        except Exception as e:  # judged below
            err = e
        probes["direct_cases"] = probes.get("direct_cases", 0) + 1
        loop.note("direct", f"{label}:{side}:{len(data)}:{stage}:{type(err).__name__ if err is not None else 'ok'}:{len(payloads)}")
        if err is not None:
            any_decision = True
            probes["direct_errors_" + stage] = probes.get("direct_errors_" + stage, 0) + 1
            if not isinstance(err, HttpProcessingError):
                violate("only_protocol_errors", f"parser:{side}:{stage}:{type(err).__name__}@{_aio_frame(err)}",
                        f"{'request' if side == 'server' else 'response'} parser {stage}() raised {type(err).__name__}: "
                        f"{str(err)[:120]!r} (not an HTTP protocol error) under limits {lim}; input {label} "
                        f"({len(data)} bytes, read boundaries {cuts[:8]}): {s[:70]!r}...{s[-30:]!r}")
                return True
        for pl in payloads:
            pe = pl.exception() if hasattr(pl, "exception") else None
            if pe is not None:
                any_decision = True
                probes["direct_payload_errors"] = probes.get("direct_payload_errors", 0) + 1
                if not isinstance(pe, HttpProcessingError):
                    violate("only_protocol_errors", f"parser:{side}:payload_exception:{type(pe).__name__}@{_aio_frame(pe)}",
                            f"body stream of a parsed message carries {type(pe).__name__}: {str(pe)[:120]!r} (not an HTTP "
                            f"protocol error) under limits {lim}; input {label} ({len(data)} bytes): {s[:70]!r}...{s[-30:]!r}")
                    return True
        if loop.exc_contexts:
            c = loop.exc_contexts[0]
            violate("only_protocol_errors", f"parser:{side}:loop_exception:{c['exc_type']}@{c.get('frame')}",
                    f"exception reached the event loop: {c['message']} {c['exc']}")
            return True
    return any_decision or bool(cases)


def _caller(w, scn, violate, probes):
    """Real ClientSession against a raw server that answers with garbage: the caller must get a
    response or a ClientError subclass, never any other exception type."""
    import aiohttp
    from sim.net import SimResolver
    from sim.peers import RawServerConn, parse_simple_request

    loop, net = w.loop, w.net
    net.max_latency_ticks = 1
    answers = [G.enc(g) for g in scn["garbage"]]

    class Srv:
        def __init__(self):
            self.loop = loop
            self.conns = []
            self.i = 0

        def on_connect(self, c):
            pass

        def on_data(self, c):
            r = parse_simple_request(c.buf)
            if r is None:
                return
            del c.buf[:r[1]]
            a = answers[self.i % len(answers)]
            self.i += 1
            c.send(a)
            c.transport.close()

        def on_eof(self, c):
            pass

        def on_lost(self, c):
            pass

    srv = Srv()
    net.listen(lambda: RawServerConn(srv), "10.0.0.2", 80)
    net.dns["g.test"] = ["10.0.0.2"]
    outcomes = []

    async def main():
        conn = aiohttp.TCPConnector(resolver=SimResolver(net))
        async with aiohttp.ClientSession(connector=conn) as s:
            for i in range(len(answers)):
                try:
                    async with s.get("http://g.test/x%d" % i) as r:
                        await r.read()
                        outcomes.append(("resp", r.status))
                except aiohttp.ClientError as e:
                    outcomes.append(("client_error", type(e).__name__))
                except asyncio.TimeoutError:
                    outcomes.append(("timeout", ""))
                except Exception as e:  # anything else is the violation
                    outcomes.append(("other", type(e).__name__, repr(e)[:200]))

    t = loop.run_sim(main(), vt_cap=loop.time() + 400)
    if not t.done():
        violate("no_hang", "caller:blocked", f"ClientSession caller still blocked; outcomes so far {outcomes}")
        return
    if t.exception() is not None:
        raise t.exception()
    probes["caller_client_errors"] = sum(1 for o in outcomes if o[0] == "client_error")
    for o, g in zip(outcomes, scn["garbage"]):
        if o[0] == "other":
            violate("only_protocol_errors", f"caller:exception_type:{o[1]}", f"caller got {o[1]}: {o[2]} for peer bytes {g[:80]!r}")
            return
    if loop.exc_contexts:
        c = loop.exc_contexts[0]
        violate("only_protocol_errors", f"caller:loop_exception:{c['exc_type']}@{c.get('frame')}",
                f"exception reached the loop: {c['message']} {c['exc']}")


def oracle_selftest():
    http1.selftest()
    assert sorted(_DRIP_PREFIX) == sorted(DRIP2_WHATS) and not any("\n" in f for f in DRIP_FILLS)
    rr = random.Random(5)
    tt = [_gen_target(rr) for _ in range(400)]
    assert all("\n" not in t and "\r" not in t for _m, t in tt)
    assert any(m.upper() == "CONNECT" and re.fullmatch(r"[a-z.]+:\d+", t) for m, t in tt)
    assert any("://" in t for _m, t in tt) and any(t == "*" for _m, t in tt)
    lim = LIMIT_SETS[0]
    assert expected("field", 64, lim) == "accept" and expected("field", 65, lim) == "band" and expected("field", 68, lim) == "reject"
    assert expected("request_line", 65, lim) == "reject" and expected("header_count", 9, lim) == "reject"
    side, s = build("field", 64, lim)
    assert len(s.split("\r\n")[2]) == 64
    for total in (58, 64, 68, 256):
        for pieces in (2, 3, 7):
            ls = fold(total, lim, pieces).split("\r\n")
            assert sum(len(x) for x in ls) == total and len(ls) >= pieces and all(len(x) < 64 for x in ls), (total, pieces)
            assert ls[0].startswith("X: v") and all(x[0] in " \t" and len(x) > 1 for x in ls[1:])
    assert expected("resp_folded_field", 64, lim) == "accept" and expected("resp_folded_trailer", 68, lim) == "reject"
    assert build("resp_folded_trailer", 68, lim, 2)[0] == "client"
    s = build_chunked("server", 1, "1f", ";e=1", "\r\n", "\r\n", "0", "T: v\r\n")
    assert s.endswith(_CH + "3\r\nabc\r\n1f;e=1\r\n" + _CB_DATA + "\r\n0\r\nT: v\r\n\r\n") and len(_CB_DATA) == 0x1f
    assert build_chunked("client", 0, "\xff", "", "\r\n", "\r\n", "0", "").endswith(_CH + "\xff\r\nabc\r\n0\r\n\r\n")
    assert all(re.fullmatch(r"[0-9a-fA-F]+", t) and int(t, 16) <= len(_CB_DATA) for t in _CB_SIZE_OK)
    assert not any(re.fullmatch(r"[0-9a-fA-F]+", t) for t in _CB_SIZE_BAD) and not any("\n" in t for t in _CB_SIZE_BAD + _CB_EXT)
    from aiohttp.http_exceptions import TransferEncodingError
    from aiohttp.web_protocol import RequestPayloadError
    wrapped = RequestPayloadError("x")
    wrapped.__cause__ = TransferEncodingError("x")
    assert _foreign_cause(wrapped) is None and _foreign_cause(RequestPayloadError("x")) is None and _foreign_cause(None) is None
    wrapped = RequestPayloadError("x")
    wrapped.__cause__ = KeyError("k")
    assert isinstance(_foreign_cause(wrapped), KeyError) and isinstance(_foreign_cause(ValueError("v")), ValueError)
    assert all(0 < len(o) and max(map(ord, o)) < 256 for o in OPENINGS) and sorted(_OPENING_FORM_WEIGHTS) == sorted(OPENING_FORMS)
    assert all(set(_OPENING_FORM_WEIGHTS[sd]) == set(OPENING_FORMS[sd]) for sd in OPENING_FORMS)
    og = _gen_openings(random.Random(7))
    assert {len(c[2]) for c in og["cases"]} >= set(range(1, 4)) and all(c[1] in OPENING_FORMS[c[0]] for c in og["cases"])
    side, s = build_numeric("req_chunk_size", 5, "1", "0", "a", 3)
    assert side == "server" and s.endswith("\r\n\r\n1aaaa\r\nabc")
    side, s = build_numeric("resp_content_length", 4, "0", "7", "a", 0)
    assert side == "client" and "Content-Length: 0777\r\n\r\n" in s
