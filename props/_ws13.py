"""C13 helpers: a minimal RFC 6455 frame encoder/decoder (independent of
aiohttp and of ref/ws.py), the scripted raw WebSocket peer used in worlds S and
C, and the application actors that drive the real sessions.

Nothing here reads a clock or a PRNG: masks are derived from a counter, every
time is virtual (loop.time()).
"""
from __future__ import annotations

import asyncio
import base64
import hashlib

TICK = 0.001
GUID = b"258EAFA5-E914-47DA-95CA-C5AB0DC85B11"

OP_CONT, OP_TEXT, OP_BINARY, OP_CLOSE, OP_PING, OP_PONG = 0x0, 0x1, 0x2, 0x8, 0x9, 0xA
OPNAME = {0: "CONT", 1: "TEXT", 2: "BINARY", 8: "CLOSE", 9: "PING", 10: "PONG"}


def accept_key(key: bytes) -> bytes:
    """Sec-WebSocket-Accept for a Sec-WebSocket-Key (RFC 6455 section 4.2.2)."""
    return base64.b64encode(hashlib.sha1(key.strip() + GUID).digest())


def _xor(mask: bytes, data: bytes) -> bytes:
    if not data:
        return b""
    n = len(data)
    m = (mask * (n // 4 + 1))[:n]
    return (int.from_bytes(data, "big") ^ int.from_bytes(m, "big")).to_bytes(n, "big")


def enc_frame(opcode: int, payload: bytes = b"", fin: bool = True, mask: bytes | None = None, rsv: int = 0) -> bytes:
    """One frame (RFC 6455 section 5.2).  rsv is the 3-bit RSV1..3 field."""
    b0 = (0x80 if fin else 0) | ((rsv & 7) << 4) | (opcode & 0x0F)
    n = len(payload)
    mb = 0x80 if mask is not None else 0
    if n < 126:
        head = bytes([b0, mb | n])
    elif n < 65536:
        head = bytes([b0, mb | 126]) + n.to_bytes(2, "big")
    else:
        head = bytes([b0, mb | 127]) + n.to_bytes(8, "big")
    if mask is not None:
        return head + mask + _xor(mask, payload)
    return head + payload


def enc_close(code: int | None, reason: bytes = b"", mask: bytes | None = None) -> bytes:
    payload = b"" if code is None else code.to_bytes(2, "big") + reason
    return enc_frame(OP_CLOSE, payload, mask=mask)


def close_code_class(code: int) -> str:
    """'valid' codes may appear in a close frame; 'invalid' ones must be refused;
    'grey' are reserved/unassigned ranges where implementations differ."""
    if code in (1000, 1001, 1002, 1003, 1007, 1008, 1009, 1010, 1011, 1012, 1013, 1014):
        return "valid"
    if 3000 <= code <= 4999:
        return "valid"
    if code < 1000:
        return "invalid"
    return "grey"


class Frame:
    __slots__ = ("fin", "rsv", "opcode", "masked", "payload", "start", "end")

    def __init__(self, fin, rsv, opcode, masked, payload, start, end):
        self.fin, self.rsv, self.opcode, self.masked = fin, rsv, opcode, masked
        self.payload, self.start, self.end = payload, start, end

    @property
    def name(self):
        return OPNAME.get(self.opcode, "OP%X" % self.opcode)

    @property
    def close_code(self):
        """None for a close frame without a status code."""
        if self.opcode != OP_CLOSE or len(self.payload) < 2:
            return None
        return int.from_bytes(self.payload[:2], "big")

    def __repr__(self):
        return f"<{self.name} fin={int(self.fin)} len={len(self.payload)} @{self.start}>"


class FrameDecoder:
    """Incremental frame splitter + RFC 6455 validity verdict.

    feed(data) returns the frames completed by this call.  `violation` is set
    (and decoding stops) at the first thing a conforming endpoint MUST fail the
    connection for; `grey` is set at the first thing implementations may differ
    on (close codes in reserved ranges).  Frames seen before either are in
    `frames`.  No extension is negotiated in C13, so any RSV bit is a violation.
    """

    def __init__(self, max_payload: int = 1 << 24):
        self.buf = bytearray()
        self.pos = 0  # stream offset of buf[0]
        self.frames: list[Frame] = []
        self.violation: str | None = None
        self.violation_at: int | None = None
        self.grey: str | None = None
        self.max_payload = max_payload
        self._frag_op: int | None = None
        self._frag: bytearray | None = None

    def _fail(self, why, at):
        if self.violation is None:
            self.violation, self.violation_at = why, at

    def feed(self, data: bytes) -> list[Frame]:
        out: list[Frame] = []
        if self.violation is not None:
            return out
        self.buf += data
        buf = self.buf
        while True:
            n = len(buf)
            if n < 2:
                break
            b0, b1 = buf[0], buf[1]
            fin, rsv, opcode = bool(b0 & 0x80), (b0 >> 4) & 7, b0 & 0x0F
            masked, ln = bool(b1 & 0x80), b1 & 0x7F
            at = self.pos
            # header-level violations are decidable from the first two bytes
            if rsv:
                self._fail("rsv_bits", at)
                break
            if opcode not in OPNAME:
                self._fail("reserved_opcode", at)
                break
            if opcode >= 8 and not fin:
                self._fail("fragmented_control", at)
                break
            if opcode >= 8 and ln > 125:
                self._fail("control_too_long", at)
                break
            p = 2
            if ln == 126:
                if n < 4:
                    break
                ln = int.from_bytes(buf[2:4], "big")
                p = 4
            elif ln == 127:
                if n < 10:
                    break
                ln = int.from_bytes(buf[2:10], "big")
                p = 10
                if ln >> 63:
                    self._fail("length_msb_set", at)
                    break
            if ln > self.max_payload:
                self._fail("too_big", at)
                break
            if masked:
                if n < p + 4:
                    break
                mask = bytes(buf[p:p + 4])
                p += 4
            if n < p + ln:
                break
            payload = bytes(buf[p:p + ln])
            if masked:
                payload = _xor(mask, payload)
            fr = Frame(fin, rsv, opcode, masked, payload, at, at + p + ln)
            del buf[:p + ln]
            self.pos += p + ln
            # message-level rules
            if opcode == OP_CONT:
                if self._frag_op is None:
                    self._fail("continuation_without_start", at)
                    break
                self._frag += payload
                if fin:
                    if self._frag_op == OP_TEXT and not _is_utf8(bytes(self._frag)):
                        self._fail("invalid_utf8", at)
                        break
                    self._frag_op = self._frag = None
            elif opcode in (OP_TEXT, OP_BINARY):
                if self._frag_op is not None:
                    self._fail("data_frame_inside_fragmented_message", at)
                    break
                if fin:
                    if opcode == OP_TEXT and not _is_utf8(payload):
                        self._fail("invalid_utf8", at)
                        break
                else:
                    self._frag_op, self._frag = opcode, bytearray(payload)
            elif opcode == OP_CLOSE:
                if len(payload) == 1:
                    self._fail("close_payload_1_byte", at)
                    break
                if len(payload) >= 2:
                    cls = close_code_class(int.from_bytes(payload[:2], "big"))
                    if cls == "invalid":
                        self._fail("invalid_close_code", at)
                        break
                    if cls == "grey" and self.grey is None:
                        self.grey = "close_code_reserved_range"
                    if not _is_utf8(payload[2:]):
                        self._fail("invalid_utf8_close_reason", at)
                        break
            self.frames.append(fr)
            out.append(fr)
        return out

    @property
    def partial(self) -> int:
        """bytes of an incomplete frame at the end of what was fed"""
        return len(self.buf)


def _is_utf8(b: bytes) -> bool:
    try:
        b.decode("utf-8")
        return True
    except UnicodeDecodeError:
        return False


def decode_all(stream: bytes) -> FrameDecoder:
    d = FrameDecoder()
    d.feed(stream)
    return d


def split_head(stream: bytes):
    """(http head incl. blank line, rest) or (None, b'') when the head is incomplete."""
    i = stream.find(b"\r\n\r\n")
    if i < 0:
        return None, b""
    return stream[:i + 4], stream[i + 4:]


def selftest():
    # RFC 6455 section 1.3 / 4.2.2 sample handshake
    assert accept_key(b"dGhlIHNhbXBsZSBub25jZQ==") == b"s3pPLMBiTxaQ9kYGzzhZRbK+xOo="
    # RFC 6455 section 5.7 examples
    assert enc_frame(OP_TEXT, b"Hello") == bytes.fromhex("810548656c6c6f")
    assert enc_frame(OP_TEXT, b"Hello", mask=bytes.fromhex("37fa213d")) == bytes.fromhex("818537fa213d7f9f4d5158")
    assert enc_frame(OP_PING, b"Hello") == bytes.fromhex("890548656c6c6f")
    assert enc_frame(OP_PONG, b"Hello", mask=bytes.fromhex("37fa213d")) == bytes.fromhex("8a8537fa213d7f9f4d5158")
    assert enc_frame(OP_TEXT, b"Hel", fin=False) + enc_frame(OP_CONT, b"lo") == bytes.fromhex("010348656c80026c6f")
    assert enc_frame(OP_BINARY, b"\0" * 256)[:4] == bytes.fromhex("827e0100")
    assert enc_frame(OP_BINARY, b"\0" * 65536)[:10] == bytes.fromhex("827f0000000000010000")
    assert enc_close(1000) == bytes.fromhex("880203e8")
    assert enc_close(None) == bytes.fromhex("8800")
    # decoder on the same vectors, split at every offset
    stream = bytes.fromhex("818537fa213d7f9f4d5158" "010348656c" "8900" "80026c6f" "880203e8")
    for cut in range(len(stream) + 1):
        d = FrameDecoder()
        d.feed(stream[:cut])
        d.feed(stream[cut:])
        assert d.violation is None and d.partial == 0, (cut, d.violation)
        assert [(f.name, f.fin, f.masked, f.payload) for f in d.frames] == [
            ("TEXT", True, True, b"Hello"), ("TEXT", False, False, b"Hel"), ("PING", True, False, b""),
            ("CONT", True, False, b"lo"), ("CLOSE", True, False, b"\x03\xe8")], d.frames
        assert d.frames[-1].close_code == 1000 and d.frames[-1].end == len(stream)
    bad = {
        "rsv_bits": bytes.fromhex("c10548656c6c6f"), "reserved_opcode": bytes.fromhex("8300"),
        "fragmented_control": bytes.fromhex("0900"), "control_too_long": bytes.fromhex("897e007e") + b"x" * 126,
        "continuation_without_start": bytes.fromhex("800161"), "invalid_utf8": bytes.fromhex("8102c328"),
        "data_frame_inside_fragmented_message": bytes.fromhex("010161" "810162"),
        "close_payload_1_byte": bytes.fromhex("880103"), "invalid_close_code": bytes.fromhex("880203e7"),
    }
    for why, data in bad.items():
        d = decode_all(bytes.fromhex("8900") + data)
        assert d.violation == why and len(d.frames) == (2 if why.startswith("data_frame") else 1), (why, d.violation, d.frames)
        assert d.violation_at == (5 if why.startswith("data_frame") else 2), (why, d.violation_at)
    d = decode_all(enc_close(1005))
    assert d.violation is None and d.grey and d.frames[0].close_code == 1005
    assert decode_all(enc_close(None)).frames[0].close_code is None
    assert decode_all(bytes.fromhex("81054865")).partial == 4
    assert split_head(b"HTTP/1.1 101 X\r\nA: b\r\n\r\n\x81\x00") == (b"HTTP/1.1 101 X\r\nA: b\r\n\r\n", b"\x81\x00")
    assert split_head(b"HTTP/1.1 101 X\r\nA: b\r\n") == (None, b"")


# ---------------------------------------------------------------------------
# scripted raw peer


GARBAGE = {
    # things a conforming endpoint MUST fail the connection for (RFC 6455 5.2, 5.4, 5.5, 7.4, 8.1)
    "badop": lambda m: enc_frame(0x3, b"zz", mask=m),
    "rsv": lambda m: bytes([0x81 | 0x40]) + enc_frame(OP_TEXT, b"hi", mask=m)[1:],
    "bigctl": lambda m: bytes([0x89, (0x80 if m else 0) | 126, 0, 126]) + (m or b"") + b"p" * 126,
    "fragctl": lambda m: enc_frame(OP_PING, b"", fin=False, mask=m),
    "badutf": lambda m: enc_frame(OP_TEXT, b"\xc3\x28", mask=m),
    "close1": lambda m: enc_frame(OP_CLOSE, b"\x03", mask=m),
    "close999": lambda m: enc_close(999, mask=m),
    "contnostart": lambda m: enc_frame(OP_CONT, b"x", mask=m),
}


class RawWSPeer(asyncio.Protocol):
    """Scripted WebSocket endpoint speaking raw bytes.

    role "client": sends the upgrade request by hand, waits for the 101 head.
    role "server": waits for the request head, answers 101 with a computed
    Sec-WebSocket-Accept.  After the handshake it plays `script`, a list of
    [delay_ticks, kind, arg]; delays are relative to the previous action.
    Reactive behaviour: cfg["answer_ping"], cfg["answer_close"] in
    {"echo","other","delay","never","drop"}, cfg["close_delay"] (ticks),
    cfg["tcp_after_close"] in {"close","keep"}.
    """

    def __init__(self, loop, role, cfg, script):
        self.loop = loop
        self.role = role
        self.cfg = cfg
        self.script = [list(a) for a in script]
        self.transport = None
        self.hs_buf = bytearray()
        self.open = False
        self.open_t = None
        self.handshake_status = None
        self.dec = FrameDecoder()
        self.rx: list = []  # (t, step, Frame)
        self.tx: list = []  # (t, step, kind)
        self.sent_close = False
        self.got_close = False
        self.eof = False
        self.lost = None
        self._i = 0
        self._nmask = 0
        self.done = False  # script exhausted
        self.tcp_acted = False  # the peer itself closed/reset/half-closed TCP outside a close handshake
        self.key = base64.b64encode(bytes(range(16)))

    # -- helpers
    def _mask(self):
        if self.role != "client":
            return None
        self._nmask += 1
        return ((self._nmask * 2654435761) & 0xFFFFFFFF).to_bytes(4, "big")

    def _write(self, data, kind):
        tr = self.transport
        if tr is None or tr.is_closing() or tr.out.eof:
            return False
        self.tx.append((self.loop.time(), self.loop.steps, kind))
        self.loop.note("peer_tx", kind)
        tr.write(data)
        return True

    def send_close(self, code, kind="close"):
        if self.sent_close:
            return
        if self._write(enc_close(code, mask=self._mask()), f"{kind}:{code}"):
            self.sent_close = True

    # -- protocol
    def connection_made(self, transport):
        self.transport = transport
        if self.role == "client":
            req = (b"GET /ws HTTP/1.1\r\nHost: h.test\r\nUpgrade: websocket\r\nConnection: Upgrade\r\n"
                   b"Sec-WebSocket-Key: " + self.key + b"\r\nSec-WebSocket-Version: 13\r\n\r\n")
            early = b""
            if self.cfg.get("early"):
                # frames in the same write as the request head (the server's _message_tail path)
                early = enc_frame(OP_TEXT, b"early", mask=self._mask())
            transport.write(req + early)

    def data_received(self, data):
        if not self.open:
            self.hs_buf += data
            head, rest = split_head(bytes(self.hs_buf))
            if head is None:
                return
            if self.role == "client":
                line = head.split(b"\r\n", 1)[0]
                self.handshake_status = line
                ok = line.startswith(b"HTTP/1.1 101")
                low = head.lower()
                if ok and (b"sec-websocket-accept: " + accept_key(self.key).lower()) not in low:
                    ok = False
                    self.handshake_status = b"bad accept"
                if not ok:
                    self.transport.close()
                    return
            else:
                key = None
                for ln in head.split(b"\r\n")[1:]:
                    k, _, v = ln.partition(b":")
                    if k.strip().lower() == b"sec-websocket-key":
                        key = v.strip()
                if key is None:
                    self.handshake_status = b"no key"
                    self.transport.write(b"HTTP/1.1 400 Bad Request\r\nContent-Length: 0\r\n\r\n")
                    self.transport.close()
                    return
                self.handshake_status = b"101"
                resp = (b"HTTP/1.1 101 Switching Protocols\r\nUpgrade: websocket\r\nConnection: Upgrade\r\n"
                        b"Sec-WebSocket-Accept: " + accept_key(key) + b"\r\n\r\n")
                early = b""
                if self.cfg.get("early"):
                    # frames in the same write as the 101 head (the client's _tail path)
                    early = enc_frame(OP_TEXT, b"early")
                self.transport.write(resp + early)
            self.open = True
            self.open_t = self.loop.time()
            self.loop.note("peer_open", self.role)
            self._next()
            data = rest
            if not data:
                return
        for fr in self.dec.feed(data):
            self.rx.append((self.loop.time(), self.loop.steps, fr))
            self._react(fr)

    def _react(self, fr):
        cfg = self.cfg
        if fr.opcode == OP_PING and cfg.get("answer_ping", True) and not self.sent_close:
            self._write(enc_frame(OP_PONG, fr.payload, mask=self._mask()), "pong")
        elif fr.opcode == OP_CLOSE and not self.got_close:
            self.got_close = True
            how = cfg.get("answer_close", "echo")
            if self.sent_close:
                # our close crossed theirs or theirs is the reply: the handshake is complete
                self._after_close()
            elif how == "echo":
                self.send_close(fr.close_code if fr.close_code is not None else 1000, "echo")
                self._after_close()
            elif how == "other":
                self.send_close(cfg.get("other_code", 4001), "other")
                self._after_close()
            elif how == "delay":
                self.loop.sim_call_later(cfg.get("close_delay", 10) * TICK, self._delayed_close, fr.close_code)
            elif how == "drop":
                # TCP goes away without a close frame
                self.loop.note("peer_tx", "tcp_close_no_frame")
                self.tcp_acted = True
                self.transport.close()
            # "never": say nothing, keep the connection

    def _delayed_close(self, code):
        self.send_close(code if code is not None else 1000, "echo_late")
        self._after_close()

    def _after_close(self):
        if self.cfg.get("tcp_after_close", "close") == "close" and self.transport is not None:
            self.transport.close()

    def eof_received(self):
        self.eof = True
        return False

    def connection_lost(self, exc):
        self.lost = type(exc).__name__ if exc else "None"

    def pause_writing(self):
        pass

    def resume_writing(self):
        pass

    # -- script
    def _next(self):
        if self._i < len(self.script):
            self.loop.sim_call_later(self.script[self._i][0] * TICK, self._act)
        else:
            self.done = True

    def _act(self):
        d, kind, arg = self.script[self._i]
        self._i += 1
        tr = self.transport
        if tr is None or tr.is_closing():
            self.done = True
            return
        m = self._mask
        if kind == "text":
            self._write(enc_frame(OP_TEXT, b"t" * int(arg), mask=m()), "text")
        elif kind == "binary":
            self._write(enc_frame(OP_BINARY, b"\xfe" * int(arg), mask=m()), "binary")
        elif kind == "frag":
            self._write(enc_frame(OP_TEXT, b"fr", fin=False, mask=m()) + enc_frame(OP_PING, b"mid", mask=m())
                        + enc_frame(OP_CONT, b"ag", mask=m()), "frag")
        elif kind == "ping":
            self._write(enc_frame(OP_PING, b"pp", mask=m()), "ping")
        elif kind == "pong":
            self._write(enc_frame(OP_PONG, b"", mask=m()), "pong_unsolicited")
        elif kind == "close":
            self.send_close(arg)  # arg None -> close frame without a code
        elif kind == "garbage":
            self._write(GARBAGE[arg](m()), "garbage:" + arg)
        elif kind == "partial":
            self._write(enc_frame(OP_TEXT, b"cut-off", mask=m())[:4], "partial")
        elif kind == "tcp_eof":
            self.loop.note("peer_tx", "tcp_close")
            self.tcp_acted = True
            tr.close()
        elif kind == "tcp_reset":
            self.loop.note("peer_tx", "tcp_reset")
            self.tcp_acted = True
            tr.abort()
        elif kind == "half_close":
            self.loop.note("peer_tx", "half_close")
            self.tcp_acted = True
            tr.write_eof()
        else:
            raise AssertionError("unknown peer action " + kind)
        self._next()


# ---------------------------------------------------------------------------
# application actors on a real session


class Side:
    """Everything observed about one real aiohttp session (srv or cli)."""

    def __init__(self, name, cfg, loop):
        self.name = name
        self.cfg = cfg
        self.loop = loop
        self.ws = None
        self.tr = None  # SimTransport of this side
        self.calls: list = []  # Call records
        self.tasks: list = []  # (label, task) of application tasks
        self.handler_task = None  # server: RequestHandler.start task
        self.main_task = None  # client: harness main task
        self.session = None
        self.connect_error = None
        self.inflight = 0  # recorded close/receive/iter calls not yet returned
        self.close_timeout = cfg["close_timeout"]
        self.receive_timeout = cfg.get("receive_timeout")
        self.heartbeat = cfg.get("heartbeat")


class Call:
    __slots__ = ("side", "actor", "op", "arg", "t0", "s0", "t1", "s1", "out", "detail", "closed0", "closed1", "task")

    def __init__(self, side, actor, op, arg, t0, s0, closed0, task):
        self.side, self.actor, self.op, self.arg = side, actor, op, arg
        self.t0, self.s0, self.t1, self.s1 = t0, s0, None, None
        self.out = None  # "ret" | "exc" | "cancel"
        self.detail = None
        self.closed0 = closed0
        self.closed1 = None  # ws.closed when the call ended
        self.task = task


BLOCKING_OPS = ("receive", "receive_t", "iter", "close")


def _aiohttp_frame(e):
    """innermost aiohttp frame of an exception's traceback: (file, function)"""
    fr = None
    tb = e.__traceback__
    while tb is not None:
        fn = tb.tb_frame.f_code.co_filename
        if "/aiohttp/" in fn:
            fr = (fn.rsplit("/", 1)[-1], tb.tb_frame.f_code.co_name)
        tb = tb.tb_next
    return fr


async def do_op(side: Side, actor: int, op: str, arg):
    ws = side.ws
    loop = side.loop
    c = Call(side.name, actor, op, arg, loop.time(), loop.steps, bool(ws.closed), asyncio.current_task())
    side.calls.append(c)
    blocking = op in BLOCKING_OPS
    if blocking:
        side.inflight += 1
    try:
        if op == "receive":
            msg = await ws.receive()
            c.detail = msg.type.name
        elif op == "receive_t":
            msg = await ws.receive(timeout=arg * TICK)
            c.detail = msg.type.name
        elif op == "iter":
            n = 0
            async for _msg in ws:
                n += 1
            c.detail = f"n={n}"
        elif op == "send_str":
            await ws.send_str("s" * int(arg))
        elif op == "send_bytes":
            await ws.send_bytes(b"\x01" * int(arg))
        elif op == "ping":
            await ws.ping(b"hb")
        elif op == "pong":
            await ws.pong(b"")
        elif op == "close":
            r = await ws.close(code=int(arg)) if arg else await ws.close()
            c.detail = str(r)
        elif op == "sleep":
            pass
        else:
            raise AssertionError("unknown op " + op)
        c.out = "ret"
    except asyncio.CancelledError as e:
        c.out = "cancel"
        c.detail = _aiohttp_frame(e)
        raise
    except Exception as e:
        c.out = "exc"
        c.detail = (type(e).__name__, _aiohttp_frame(e), str(e)[:120], tuple(t.__name__ for t in type(e).__mro__))
    finally:
        c.t1, c.s1 = loop.time(), loop.steps
        c.closed1 = bool(ws.closed)
        if blocking:
            side.inflight -= 1


async def actor(side: Side, idx: int, prog: dict):
    try:
        for delay, op, arg in prog["ops"]:
            if delay:
                await asyncio.sleep(delay * TICK)
            await do_op(side, idx, op, arg)
    finally:
        if prog.get("finally_close"):
            # the common `try: ... finally: await ws.close()` application pattern
            await do_op(side, idx, "close", None)
