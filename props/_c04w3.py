"""C04 workload W2, kind "file": web.FileResponse behind a real server while the
served file changes under it (DESIGN.md 9/C04: 'a body whose length aiohttp
declares itself (... files ...) carries exactly that many bytes').

A real AppRunner/TCPSite/RequestHandler answers 1-3 requests of a scripted raw
client on one keep-alive connection with web.FileResponse objects for real
files in a per-run temporary directory.  Every access aiohttp makes to those
files is an event of the *file-access seam*:

    stat   pathlib.Path.stat / lstat of a served path (inside the stat+open job)
    open   pathlib.Path.open of a served path
    fstat  os.stat(fd) of the opened file
    read   every read() on the opened file (chunk loop in the executor, or the
           simulated loop.sendfile)

The fault "another writer" fires right after the k-th event of the j-th
request and changes the file the event referred to: truncated / extended in
place, rewritten in place with other content, replaced by rename (new inode)
or unlinked.  Other dimensions: sendfile available or not, AIOHTTP_NOSENDFILE,
chunk_size, enable_compression(), a pre-compressed .gz sibling, Range / HEAD /
If-None-Match requests, the client not reading for a while, segmentation,
latency, executor early/late (from the engine).

Oracle (framing only; which status a request deserves is C15's subject): the
server's output, cut by the strict response splitter, is one response per
request; a response that declares Content-Length carries exactly that many
bytes before the next response starts - or the server gives the connection up
after the partial body (then the recipient sees an incomplete message, as after
a reset); a Content-Range agrees with the Content-Length; the body bytes are
the bytes of (a version of) the file at the declared offset.
"""
from __future__ import annotations

import atexit
import gzip
import os
import pathlib
import re
import shutil
import tempfile

from ref import chunked as refc
from ref import http1
from sim.world import World

MT_OLD = 1_600_000_000 * 10 ** 9
MT_NEW = MT_OLD + 7 * 10 ** 9
OFF_OLD = 3000
OFF_NEW = 230_000
FSIZES = [0, 1, 20, 120, 1000, 5000, 5000, 70_000, 150_000]
NEW_SIZES = [0, 1, 20, 120, 1000, 5000, 70_000, 160_000]
RANGES = [None, None, None, None, "bytes=100-", "bytes=0-0", "bytes=-7", "bytes=10-19", "bytes=4000-", "bytes=999999-", "bytes=0-"]
HOWS = ["truncate_or_append", "truncate_or_append", "rewrite", "rewrite", "replace", "unlink"]
_TMP_PREFIX = "verif-c04f-"


def _content():
    from props import _c04w2 as W2

    return W2.CONTENT


def version(which: str, size: int, gz: bool) -> bytes:
    """Bytes of a file version.  'old' and 'same' share a prefix (truncate / append); 'other' does not."""
    c = _content()
    off = OFF_NEW if which == "other" else OFF_OLD
    raw = c[off:off + size]
    if gz:
        return gzip.compress(raw, compresslevel=1, mtime=0)
    return raw


# ---------------------------------------------------------------------------
# generation


def gen_file(rng):
    nreq = rng.choice([1, 2, 2, 3])
    size = rng.choice(FSIZES)
    gz = rng.random() < 0.2
    compress = rng.choice([None, "auto", "deflate", "gzip"]) if rng.random() < 0.15 else None
    reqs = []
    for _ in range(nreq):
        ae = ""
        if gz and rng.random() < 0.7:
            ae = "gzip"
        elif compress == "auto" or rng.random() < 0.1:
            ae = rng.choice(["deflate", "gzip, deflate"])
        reqs.append({"method": "HEAD" if rng.random() < 0.08 else "GET", "range": rng.choice(RANGES), "ae": ae,
                     "inm": rng.random() < 0.04})
    chunk = rng.choice([64, 4096, 65536, 262144])
    if chunk == 64 and size > 5000:
        chunk = 4096
    scn = {"kind": "file", "size": size, "gz": rng.choice([10, 300, 3000]) if gz else None, "reqs": reqs,
           "chunk": chunk, "sendfile": rng.choice(["unsupported", "native"]), "nosendfile": rng.random() < 0.25,
           "compress": compress, "pol_c2s": rng.choice(["whole", "small", "mixed"]),
           "pol_s2c": rng.choice(["whole", "mss", "small", "mixed"]), "lat": rng.choice([0, 0, 1, 2]),
           "rd_pause": rng.choice([None, None, [0, 5], [1, 50]]), "change": None}
    if rng.random() < 0.75:
        new_size = rng.choice([s for s in NEW_SIZES if s != size])
        scn["change"] = {"req": rng.randrange(nreq), "after": rng.choice([0, 0, 0, 1, 1, 2, 2, 3, 4, 6]),
                         "how": rng.choice(HOWS), "new_size": new_size}
    return scn


def enum_file_cases():
    """The seam dimension completely for one small configuration: every point of the stat / open / fstat / read
    sequence of the first of two requests x every kind of change x the three ways the body is sent x with and
    without a Range (plus the chunked+deflate fallback)."""
    changes = [("rewrite", 20), ("truncate_or_append", 20), ("truncate_or_append", 160_000), ("rewrite", 70_000),
               ("replace", 20), ("unlink", 0)]
    sends = [("unsupported", False, None), ("native", False, None), ("native", True, None), ("unsupported", False, "deflate")]
    for sendfile, nosendfile, compress in sends:
        for rng_ in (None, "bytes=100-"):
            if compress and rng_:
                continue
            for after in range(5):
                for how, new_size in changes:
                    rq = {"method": "GET", "range": rng_, "ae": "", "inm": False}
                    yield {"kind": "file", "size": 5000, "gz": None, "reqs": [rq, dict(rq)], "chunk": 4096,
                           "sendfile": sendfile, "nosendfile": nosendfile, "compress": compress, "pol_c2s": "whole",
                           "pol_s2c": "whole", "lat": 0, "rd_pause": None,
                           "change": {"req": 0, "after": after, "how": how, "new_size": new_size}}


def shrink_file(scn):
    if scn.get("change") is not None:
        yield dict(scn, change=None)
    reqs = scn["reqs"]
    if len(reqs) > 1:
        for i in range(len(reqs)):
            ch = scn.get("change")
            if ch is not None:
                if ch["req"] == i:
                    continue
                ch = dict(ch, req=ch["req"] - (1 if ch["req"] > i else 0))
            yield dict(scn, reqs=reqs[:i] + reqs[i + 1:], change=ch)
    for i, r in enumerate(reqs):
        for key, simple in (("range", None), ("ae", ""), ("inm", False), ("method", "GET")):
            if r[key] != simple:
                yield dict(scn, reqs=reqs[:i] + [dict(r, **{key: simple})] + reqs[i + 1:])
    for key, simple in (("rd_pause", None), ("lat", 0), ("pol_c2s", "whole"), ("pol_s2c", "whole"), ("compress", None),
                        ("gz", None), ("nosendfile", False), ("sendfile", "unsupported"), ("chunk", 262144)):
        if scn.get(key) != simple:
            yield dict(scn, **{key: simple})
    ch = scn.get("change")
    if scn["size"] > 1:
        for n in (scn["size"] // 2, 120, 20):
            if n < scn["size"] and (ch is None or ch["new_size"] != n):
                yield dict(scn, size=n)
    if ch is not None:
        if ch["new_size"] > 1:
            for n in (ch["new_size"] // 2, 20, 0):
                if n < ch["new_size"] and n != scn["size"]:
                    yield dict(scn, change=dict(ch, new_size=n))
        if ch["after"] > 0:
            yield dict(scn, change=dict(ch, after=ch["after"] - 1))
        if ch["how"] != "truncate_or_append":
            yield dict(scn, change=dict(ch, how="truncate_or_append"))


# ---------------------------------------------------------------------------
# the file-access seam


_DIRS: dict = {}
_KEEP = []


def _cleanup(pid, base):
    if os.getpid() == pid:
        shutil.rmtree(base, ignore_errors=True)


def _sweep(tmp):
    """directories whose owning process is gone (a worker killed at the end of a budget)"""
    try:
        names = os.listdir(tmp)
    except OSError:
        return
    for n in names:
        if not n.startswith(_TMP_PREFIX):
            continue
        parts = n[len(_TMP_PREFIX):].split("-")
        if not parts or not parts[0].isdigit():
            continue
        try:
            os.kill(int(parts[0]), 0)
        except ProcessLookupError:
            shutil.rmtree(os.path.join(tmp, n), ignore_errors=True)
        except OSError:
            pass


def workdir() -> str:
    """The per-process directory for served files (emptied at the end of every run).  Removed by atexit, by the
    multiprocessing finalizer (pool workers skip atexit) and - because check.py leaves through os._exit and kills
    its workers - by a detached reaper that waits for EOF on a pipe only this process holds."""
    pid = os.getpid()
    d = _DIRS.get(pid)
    if d is not None and os.path.isdir(d):
        return d
    tmp = "/tmp" if os.path.isdir("/tmp") and os.access("/tmp", os.W_OK) else tempfile.gettempdir()
    _sweep(tmp)
    base = os.path.realpath(tempfile.mkdtemp(prefix=f"{_TMP_PREFIX}{pid:07d}-", dir=tmp))
    for forbidden in ("/repo/", "/verif/"):
        assert not (base + "/").startswith(forbidden), base
    atexit.register(_cleanup, pid, base)
    try:
        from multiprocessing import util as _mpu

        _KEEP.append(_mpu.Finalize(None, _cleanup, args=(pid, base), exitpriority=10))
    except Exception:
        pass
    try:
        import subprocess

        p = subprocess.Popen(["/bin/sh", "-c", 'read x; rm -rf -- "$0"', base], stdin=subprocess.PIPE,
                             stdout=subprocess.DEVNULL, stderr=subprocess.DEVNULL, start_new_session=True)
        _KEEP.append(p)
    except Exception:
        pass
    _DIRS[pid] = base
    return base


def _empty(base):
    try:
        for n in os.listdir(base):
            try:
                os.unlink(os.path.join(base, n))
            except OSError:
                pass
    except OSError:
        pass


class _OsProxy:
    """what aiohttp.web_fileresponse sees as `os`: the real module with stat() observed"""

    def __init__(self, seam):
        self._seam = seam

    def __getattr__(self, name):
        return getattr(os, name)

    def stat(self, target, *a, **kw):
        st = os.stat(target, *a, **kw)
        seam = self._seam
        if isinstance(target, int):
            path = seam.fds.get(target)
            if path is not None:
                seam.event("fstat", path)
        else:
            p = os.fspath(target)
            if isinstance(p, str) and p.startswith(seam.base):
                seam.event("stat", p)
        return st


class _FileShim:
    """Stands for the BufferedReader returned by Path.open('rb'): every read is a seam event."""

    def __init__(self, real, path, seam):
        self._real = real
        self._path = path
        self._seam = seam

    def seek(self, *a):
        return self._real.seek(*a)

    def tell(self):
        return self._real.tell()

    def fileno(self):
        return self._real.fileno()

    def readable(self):
        return True

    @property
    def closed(self):
        return self._real.closed

    @property
    def name(self):
        return self._real.name

    @property
    def mode(self):
        return self._real.mode

    def read(self, n=-1):
        data = self._real.read(n)
        self._seam.event("read", self._path)
        return data

    _fd = None

    def close(self):
        if self._fd is not None:
            self._seam.fds.pop(self._fd, None)
        self._real.close()

    def __enter__(self):
        return self

    def __exit__(self, *a):
        self.close()

    def __del__(self):
        try:
            self._real.close()
        except Exception:
            pass


class FileSeam:
    def __init__(self, loop, base, scn, state):
        self.loop = loop
        self.base = base
        self.scn = scn
        self.state = state  # {"cur": request record or None, "versions": {path: [..]}, ...}
        self.fds = {}
        self.fired = None
        self._saved = None

    # -- events
    def event(self, kind, path):
        rec = self.state.get("cur")
        self.loop.note("fs", kind + ":" + os.path.basename(path))
        if rec is None:
            return
        k = len(rec["events"])
        rec["events"].append(kind)
        ch = self.scn.get("change")
        if ch is not None and self.fired is None and rec["index"] == ch["req"] and k == ch["after"]:
            self.fire(kind, path, rec, ch)

    def fire(self, kind, path, rec, ch):
        gz = path.endswith(".gz")
        how = ch["how"]
        vs = self.state["versions"].setdefault(path, [])
        cls = "inplace"
        if how == "unlink":
            os.unlink(path)
            cls = "unlinked"
        elif how == "truncate_or_append" and not gz:
            new = version("same", ch["new_size"], False)
            cur = os.stat(path).st_size
            if ch["new_size"] <= cur:
                os.truncate(path, ch["new_size"])
            else:
                with open(path, "ab") as f:
                    f.write(new[cur:])
            os.utime(path, ns=(MT_NEW, MT_NEW))
            vs.append(new)
        elif how == "replace":
            new = version("other", ch["new_size"], gz)
            tmp = path + ".swap"
            with open(tmp, "wb") as f:
                f.write(new)
            os.utime(tmp, ns=(MT_NEW, MT_NEW))
            os.replace(tmp, path)
            vs.append(new)
            cls = "replaced"
        else:
            new = version("other", ch["new_size"], gz)
            with open(path, "wb") as f:
                f.write(new)
            os.utime(path, ns=(MT_NEW, MT_NEW))
            vs.append(new)
        self.fired = {"after": kind, "cls": cls, "req": rec["index"], "path": path}
        rec["changed"] = self.fired
        self.loop.faults["file_changed_after_" + kind] += 1
        self.loop.note("fs_change", f"{how}:{cls}:after_{kind}")

    # -- installation
    def install(self):
        import aiohttp.web_fileresponse as wf

        seam = self
        orig_stat = pathlib.Path.stat
        orig_open = pathlib.Path.open

        def stat(self, *a, **kw):
            st = orig_stat(self, *a, **kw)
            p = str(self)
            if p.startswith(seam.base):
                seam.event("stat", p)
            return st

        def open_(self, mode="r", *a, **kw):
            f = orig_open(self, mode, *a, **kw)
            p = str(self)
            if p.startswith(seam.base) and mode == "rb":
                shim = _FileShim(f, p, seam)
                try:
                    shim._fd = f.fileno()
                    seam.fds[shim._fd] = p
                except OSError:
                    pass
                seam.event("open", p)
                return shim
            return f

        self._saved = (orig_stat, orig_open, wf.os, wf.NOSENDFILE)
        pathlib.Path.stat = stat
        pathlib.Path.open = open_
        wf.os = _OsProxy(self)
        wf.NOSENDFILE = bool(self.scn["nosendfile"])

    def uninstall(self):
        import aiohttp.web_fileresponse as wf

        if self._saved is not None:
            pathlib.Path.stat, pathlib.Path.open, wf.os, wf.NOSENDFILE = self._saved
            self._saved = None


# ---------------------------------------------------------------------------
# run


def _phase(rec, fired):
    ch = rec.get("changed")
    if ch is not None:
        return f"changed_after_{ch['after']}:{ch['cls']}"
    if fired is not None and fired["req"] < rec["index"]:
        return "changed_before_request"
    return "unchanged"


def _match_len(body: bytes, cand: bytes) -> int:
    n = min(len(body), len(cand))
    if body[:n] == cand[:n]:
        return n
    lo, hi = 0, n
    while lo < hi:  # longest common prefix by bisection
        mid = (lo + hi + 1) // 2
        if body[:mid] == cand[:mid]:
            lo = mid
        else:
            hi = mid - 1
    return lo


def _swallow_point(body: bytes, bm: int):
    """Offset <= bm (the number of leading body bytes that are file content) at which a response head starts
    inside what the splitter had to take as body, or None.  (A file byte may happen to equal 'H'.)"""
    for p_ in range(min(bm, len(body) - 1), -1, -1):
        if body[p_:p_ + 7] == b"HTTP/1."[:len(body) - p_]:
            return p_
        if bm - p_ > 8:
            break
    return None


def judge_file_response(V, r, tail, rec, fired, versions, scn, *, last, conn_closed, what):
    """One response (as cut by the strict splitter) against the file versions.  -> "desync" when nothing after
    it can be attributed any more."""
    from props._c04w2 import _is_next_head

    req = rec["req"]
    phase = _phase(rec, fired)
    low = [(a.lower(), b) for a, b in r["headers"]]
    cl = [b for a, b in low if a == b"content-length"]
    ce = [b for a, b in low if a == b"content-encoding"]
    cr = [b for a, b in low if a == b"content-range"]
    status = r["status"]
    if status == 500:
        V.add("no_unexpected_error", f"file_500:{phase}", f"{what}: the server answered 500 (phase {phase}, events {rec['events'][:8]})")
        return None
    bodyless = req["method"] == "HEAD" or status in (204, 304) or status < 200
    if bodyless:
        if tail and not _is_next_head(tail):
            V.add("no_body_for_bodyless_response", f"body_bytes_for_bodyless_response:fileresponse:{status}",
                  f"{what}: {req['method']} / status {status} must not carry a body but {len(tail)} bytes follow its head: {tail[:60]!r}")
            return "desync"
        return None
    body = r["body"]
    # candidate contents and offset
    start = 0
    if status == 206 or cr:
        m = re.fullmatch(rb"bytes (\d+)-(\d+)/(\d+)", cr[0]) if cr else None
        if status == 206 and m is None:
            V.add("content_range_agrees_with_length", "partial_without_content_range", f"{what}: 206 with Content-Range {cr!r}")
        elif m is not None:
            a, b, _t = int(m.group(1)), int(m.group(2)), int(m.group(3))
            start = a
            if cl and not ce and b - a + 1 != int(cl[0]):
                V.add("content_range_agrees_with_length", f"range_length_differs:{phase}",
                      f"{what}: Content-Range {cr[0]!r} spans {b - a + 1} bytes, Content-Length is {cl[0]!r}")
    cands = []
    served_ok = status in (200, 206)
    if served_ok:
        for p in sorted(versions):
            for v in versions[p]:
                cands.append(v[start:])
    inplace_after_open = rec.get("changed") is not None and rec["changed"]["cls"] == "inplace" \
        and rec["changed"]["after"] in ("fstat", "read")

    def best(data):
        bm = -1
        for c in cands:
            m_ = _match_len(data, c)
            if m_ > bm:
                bm = m_
        return bm

    if r["framing"] == "length" and cl:
        declared = int(cl[0])
        if r["complete"]:
            # length framing: the body is the bytes of a file as they are (compression removes the Content-Length)
            bm = best(body) if (served_ok and cands) else len(body)
            sp = _swallow_point(body, bm) if bm < len(body) else None
            if sp is None and bm < len(body) and inplace_after_open:
                # the body may mix two versions of a file rewritten in place while it was read, so the content match
                # ends early; the head of the following response inside the declared length still shows a short body
                # (the files hold random bytes: a chance "HTTP/1." in them is a 2**-56 event per position)
                q_ = body.find(b"HTTP/1.", bm)
                sp = q_ if q_ >= 0 else None
            if sp is not None:
                bm = sp
                V.add("declared_length_is_carried", f"short_body:fileresponse:{phase}",
                      f"{what}: Content-Length {declared} (Content-Range {cr}) but only {bm} bytes of the file were sent; the "
                      f"connection was kept and the next response's first {len(body) - bm} bytes are read as body "
                      f"(events {rec['events'][:8]})")
                return "desync"
            if tail and not _is_next_head(tail):
                V.add("body_within_declared_length", f"beyond_declared_length:fileresponse:{phase}",
                      f"{what}: Content-Length {declared} but {len(tail)} more body bytes follow: {tail[:40]!r}")
                return "desync"
            if bm < len(body) and not inplace_after_open:
                V.add("body_is_supplied_data", f"file_differs:{phase}",
                      f"{what}: body ({len(body)} bytes from offset {start}) is not the content of any version of the "
                      f"file; first difference at {bm}: {body[bm:bm + 24]!r}")
            return None
        # incomplete
        if last and not conn_closed:
            bm = best(body) if (served_ok and cands) else len(body)
            sp = _swallow_point(body, bm) if bm < len(body) else None
            swallowed = sp is not None
            if swallowed:
                bm = sp
            V.add("declared_length_is_carried", f"short_body:fileresponse:{phase}",
                  f"{what}: Content-Length {declared} (Content-Range {cr}) but only {bm if swallowed else len(body)} body bytes "
                  f"were sent and the connection is kept open: the recipient waits for the rest"
                  + (f", and reads the following response(s) ({len(body) - bm} bytes so far) as part of this body" if swallowed else "")
                  + f" (file events of this request: {rec['events'][:8]})")
        return "desync"
    if r["framing"] == "chunked":
        if not r["complete"]:
            if last and not conn_closed:
                V.add("complete_after_eof", f"incomplete:chunked:fileresponse:{phase}",
                      f"{what}: chunked response never terminated though the connection is kept open")
            return "desync"
        data = body
        if ce and scn["compress"]:
            data, finished, unused, err = refc.decode_content(ce[0].decode("latin-1"), body)
            if err is not None or unused or not (finished or not body):
                V.add("compressed_stream", f"bad:fileresponse:{phase}", f"{what}: compressed body err={err} unused={len(unused)} finished={finished}")
                return None
        if served_ok and cands and not inplace_after_open:
            bm = best(data)
            if bm < len(data):
                V.add("body_is_supplied_data", f"file_differs:{phase}",
                      f"{what}: decoded chunked body ({len(data)} bytes) is not the content of any version of the file; first "
                      f"difference at {bm}")
        return None
    return None


def run_file(scn, ch, log):
    from aiohttp import web
    from sim.peers import RawClient
    from props._c04w2 import Viols

    V = Viols()
    probes = {}
    base = workdir()
    _empty(base)
    seam = None
    try:
        path = os.path.join(base, "asset.bin")
        old = version("old", scn["size"], False)
        versions = {path: [old]}
        with open(path, "wb") as f:
            f.write(old)
        os.utime(path, ns=(MT_OLD, MT_OLD))
        if scn["gz"] is not None:
            gzp = path + ".gz"
            gold = version("old", scn["gz"], True)
            versions[gzp] = [gold]
            with open(gzp, "wb") as f:
                f.write(gold)
            os.utime(gzp, ns=(MT_OLD, MT_OLD))
        reqs = scn["reqs"]
        with World(ch, 0, log_events=log) as w:
            loop, net = w.loop, w.net
            net.max_latency_ticks = scn["lat"]
            net.sendfile_mode = scn["sendfile"]
            state = {"cur": None, "versions": versions}
            seam = FileSeam(loop, base, scn, state)
            seam.install()
            seen = []

            async def handler(request):
                i = len(seen)
                rec = {"index": i, "req": reqs[i % len(reqs)], "events": [], "changed": None}
                seen.append(rec)
                state["cur"] = rec
                resp = web.FileResponse(path, chunk_size=scn["chunk"])
                c = scn["compress"]
                if c == "auto":
                    resp.enable_compression()
                elif c in ("gzip", "deflate"):
                    resp.enable_compression(web.ContentCoding(c))
                return resp

            app = web.Application()
            app.router.add_route("*", "/{tail:.*}", handler)

            async def start():
                runner = web.AppRunner(app, access_log=None, shutdown_timeout=1.0)
                await runner.setup()
                await web.TCPSite(runner, "10.0.0.1", 80).start()
                return runner

            runner = loop.run_sim(start(), vt_cap=10).result()
            pieces = []
            for i, rq in enumerate(reqs):
                lines = [f"{rq['method']} /f{i} HTTP/1.1", "Host: h.test"]
                if rq["ae"]:
                    lines.append("Accept-Encoding: " + rq["ae"])
                if rq["range"]:
                    lines.append("Range: " + rq["range"])
                if rq["inm"]:
                    lines.append("If-None-Match: *")
                pieces.append([0 if i == 0 else 2, ("\r\n".join(lines) + "\r\n\r\n").encode()])
            cl = RawClient(loop, pieces, end="keep")
            ctr, str_ = net.connect_raw(("10.0.0.1", 80), cl)
            ctr.out.policy = scn["pol_c2s"]
            str_.out.policy = scn["pol_s2c"]
            if scn["rd_pause"] is not None:
                t0, dur = scn["rd_pause"]

                def hold():
                    net.hold(str_.out)
                    loop.faults["peer_stops_reading"] += 1
                    loop.sim_call_later(dur * 0.001, net.release, str_.out)
                loop.sim_call_later(t0 * 0.001, hold)
            loop.run_sim(None, vt_cap=loop.time() + 20.0, step_cap=loop.steps + 400_000)
            if loop.capped == "steps":
                raise RuntimeError("harness: file scenario ran into the step cap")
            state["cur"] = None
            received = bytes(cl.received)
            conn_closed = bool(cl.eof or cl.lost is not None)
            methods = [rq["method"].encode() for rq in reqs]
            resps, rest = http1.split_responses(received, methods=methods, closed=conn_closed)
            fired = seam.fired
            desynced = False
            for i, r in enumerate(resps):
                if i >= len(seen):
                    V.add("one_response_per_request", "surplus_response:fileresponse",
                          f"response #{i} but only {len(seen)} requests reached the handler")
                    break
                rec = seen[i]
                what = f"FileResponse #{i} to {rec['req']['method']} range={rec['req']['range']} status {r['status']}"
                nxt = resps[i + 1]["start"] if i + 1 < len(resps) else len(received)
                tail = received[r["end"]:nxt] if r["complete"] and r["framing"] != "eof" and "end" in r else b""
                if isinstance(rest, tuple) and rest[0] == "malformed" and i == len(resps) - 1 and r["complete"]:
                    tail = received[r["end"]:]
                out = judge_file_response(V, r, tail, rec, fired, versions, scn, last=i == len(resps) - 1,
                                          conn_closed=conn_closed, what=what)
                probes["file_status_%d" % r["status"]] = 1
                if out == "desync":
                    desynced = True
                    break
            if isinstance(rest, tuple) and rest[0] == "malformed" and not V.items and not desynced:
                V.add("well_formed_responses", "malformed_output:fileresponse",
                      f"server output is not a sequence of well-formed responses: {rest}; "
                      f"{received[max(0, rest[1] - 40):rest[1] + 80]!r}")
            if not V.items and not desynced and not conn_closed and len([r for r in resps if r["complete"]]) < len(reqs):
                ph = _phase(seen[len(resps)], fired) if len(resps) < len(seen) else "not_handled"
                V.add("one_response_per_request", f"missing_response:fileresponse:{ph}",
                      f"{len(reqs)} requests were sent on a connection that is still open but only "
                      f"{len([r for r in resps if r['complete']])} complete responses arrived ({len(seen)} reached the handler)")
            if conn_closed:
                probes["file_conn_closed_by_server"] = 1
            if net.fatal_errors or loop.exc_contexts:
                probes["loop_exception_seen"] = 1  # C05's subject, not judged here
            t2 = loop.run_sim(runner.cleanup(), vt_cap=loop.time() + 100.0)
            if not t2.done():
                V.add("cleanup_returns", "cleanup_blocked", "AppRunner.cleanup() did not return")
            sst = w.stats()
            f = sst["faults"]
            if f.get("pause_writing"):
                probes["writer_paused"] = 1
            if f.get("exec_early") or f.get("exec_late"):
                probes["executor_job"] = 1
            if fired is not None:
                probes["file_changed_after_" + fired["after"] + "_" + fired["cls"]] = 1
            kinds = set()
            for rec in seen:
                kinds.update(rec["events"])
            for k in sorted(kinds):
                probes["file_event_" + k] = 1
            probes["file_responses"] = len(resps)
            nontrivial = bool(fired is not None or f.get("pause_writing") or len(resps) >= 2)
            res = {"violations": V.items, "nontrivial": nontrivial, "sig": sst["sig"], "digest": sst["digest"],
                   "steps": sst["steps"], "vtime": sst["vtime"], "faults": f, "probes": probes,
                   "shape": f"file-{len(reqs)}-{'chg' if scn.get('change') else 'nochg'}"}
            if log:
                res["event_log"] = loop.event_log
                res["debug"] = {"received": received[:800], "rest": rest, "events": [rec["events"][:12] for rec in seen],
                                "fired": fired}
            return res
    finally:
        if seam is not None:
            seam.uninstall()
        _empty(base)


def selftest():
    """the response judge on hand-made streams"""
    from props._c04w2 import Viols

    old = version("old", 50, False)
    new = version("same", 20, False)
    assert old.startswith(new) and version("other", 20, False) != new
    scn = {"compress": None}
    rec = {"index": 0, "req": {"method": "GET", "range": None}, "events": ["stat", "open", "fstat"],
           "changed": {"after": "stat", "cls": "inplace", "req": 0, "path": "p"}}

    def j(stream, versions, nreq=1, closed=False, rec=rec):
        V = Viols()
        resps, rest = http1.split_responses(stream, methods=[b"GET"] * nreq, closed=closed)
        r = resps[0]
        tail = stream[r["end"]:] if r["complete"] else b""
        judge_file_response(V, r, tail, rec, rec["changed"], versions, scn, last=len(resps) == 1,
                            conn_closed=closed, what="t")
        return [(v["invariant"], v["key"]) for v in V.items]

    h = b"HTTP/1.1 200 OK\r\nContent-Length: %d\r\n\r\n"
    vs = {"p": [old, new]}
    assert j(h % 50 + old, vs) == []
    assert j(h % 20 + new, vs) == []
    assert j(h % 50 + new, vs) == [("declared_length_is_carried", "short_body:fileresponse:changed_after_stat:inplace")]
    assert j(h % 50 + new, vs, closed=True) == []
    nxt = h % 60 + bytes(60)
    assert j(h % 50 + new + nxt, vs, nreq=2) == [("declared_length_is_carried", "short_body:fileresponse:changed_after_stat:inplace")]
    assert j(h % 20 + old[:20] + b"zz", vs) == [("body_within_declared_length", "beyond_declared_length:fileresponse:changed_after_stat:inplace")]
    assert j(h % 20 + bytes(20), vs) == [("body_is_supplied_data", "file_differs:changed_after_stat:inplace")]
    p = b"HTTP/1.1 206 Partial Content\r\nContent-Length: 40\r\nContent-Range: bytes 10-49/50\r\n\r\n"
    assert j(p + old[10:], vs) == []
    assert j(p.replace(b"10-49", b"10-48") + old[10:], vs) == [("content_range_agrees_with_length", "range_length_differs:changed_after_stat:inplace")]
