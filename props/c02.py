"""C02 - wire round trip between two aiohttp endpoints.

World CS: a real aiohttp.ClientSession (TCPConnector + SimResolver) talks to a
real aiohttp.web application (AppRunner/TCPSite) through SimNet; 1-6 exchanges
per session so connections are reused.  See DESIGN.md section 9, C02.

Oracle in one paragraph: the record taken inside the web handler (method, path,
query, header fields, cookies, body bytes) must equal the request spec and the
record taken by the client caller (status, reason, header fields, cookies, body
bytes) must equal the response spec, after the documented normalisations only.
Keep-alive agreement is judged on *decisions*: what the server does with its
transport as part of finishing a response (SimNet sees the close() call and who
made it) against the framing/Connection headers it put on the wire and against
the connection the client writes its next request to.

Two sampled extensions (drawn last in gen(), keys absent from every other scenario): (1) one exchange is sent with
expect100=True and the route's expect_handler refuses it with a final 403/417 and no "100 Continue" - the caller must
see exactly that response, and the next request of the session must not be written to that connection while the
announced body is unsent (invariant expect_refused); (2) ClientSession(headers=...) defaults combined with per-request
headers whose names repeat in different letter case, given as list / dict / CIMultiDict / MultiDict - the handler must
see the per-request values of a name (all, in order) or else the session defaults of that name (request_roundtrip,
keys header_merge:* and headers_mapping_view:*).

Two more (same convention): (3) a body given as a file-like object that is neither BytesIO nor a regular file - a raw,
unbuffered byte source (pipe / socket / RawIOBase wrapper) whose read(n) hands out what is available, i.e. fewer than n
bytes although more follows, optionally wrapped in io.BufferedReader - as request body (data=) and as web.Response(body=);
every byte the source yields before EOF must arrive (request_roundtrip / response_roundtrip, keys body:rawio*).
(4) GET with a Range (and sometimes If-Range) header answered by web.FileResponse, with and without
enable_compression(): the status, Content-Range and slice are judged against ref/static.py (RFC 9110 13.1.5, 14) and
the body the caller reads must be exactly the slice that the response's own Content-Range names (response_roundtrip,
keys range:* and body:file:range*).

And (5) a handler that answers without reading the request body, or after a prefix of it (srv_read "ignore" / "prefix:N";
an early 401/413, or a handler with no use for the body), while the rest of the body is still arriving in as many reads as
the client-to-server segmentation makes of it.  The prefix must be the first bytes sent (request_roundtrip, key
body_prefix:*); the server, having promised persistence, has to take the rest of the body off the connection and serve the
next request on it (keepalive_agreement: server_closes_after_promising_keepalive and the other rules, unchanged); the client
may stop sending once the final response is there, but then the request is incomplete and it must not write another one to
that connection (keepalive_agreement, key request_written_after_incomplete_request_body:*).  A client close while request
bytes were still unsent/unflushed is the client abandoning its upload - no disagreement.

And (6) the 100-continue expectation written by the caller as a field line (headers=[("Expect", "100-Continue")], name and
token in several letter cases; the token is case-insensitive, RFC 9110 10.1.1) instead of expect100=True, against routes
with the default expect handler: judged by the unchanged rules - the handler must run and see the field as sent and the
whole body (request_roundtrip / response_roundtrip / exchange_completes).
"""
from __future__ import annotations

import email
import email.policy
import http
import io
import json
import os
import re
import sys
import urllib.parse
import zlib

from ref import http1
from ref import static as ref_static
from sim.net import TICK
from sim.world import World

PROP = "C02"
LEVEL = "exploration"
DESIGN_REF = "9/C02"
BUDGET = {"quick": 55, "thorough": 900}
BATCH = 60
TECHNIQUE = ("deterministic simulation: real aiohttp client and real aiohttp server on one virtual-time loop joined by "
             "an in-memory network; request/response pairs from a grammar; seeded segmentation, latency, read pauses, "
             "executor modes and buffer knobs; spec-equality oracle plus keep-alive agreement judged on observed decisions")
LEVEL_TEXT = (
    "Seeded exploration of request spec x response spec x HTTP version x Connection choices x segmentation of both "
    "directions x read pauses x executor linearisation x buffer knobs with both endpoints real. Every run compares "
    "what the handler and the caller observed with the generated specs and judges connection persistence on the "
    "close()/write events SimNet records. Sampling, not proof."
)
LEVEL_NOTE = (
    "Trusted: the spec->expectation functions in this module (hand-checked vectors in oracle_selftest), "
    "ref/http1.split_responses (cuts the server's wire output; used for well-formedness and for the server's "
    "framing/Connection choice), ref/static.evaluate (RFC 9110 13.1.5/14 range arithmetic: which status/slice a Range "
    "request to a FileResponse may get), stdlib email/urllib/zlib/json as independent decoders, SimNet's TCP model. "
    "Bounds: <=6 exchanges per session, one session and one origin per run, bodies <=256 KiB, no TLS, no proxies, no "
    "redirects followed, no pipelining, handlers read the whole request before answering except in the ~12% of runs "
    "where one handler answers after reading nothing or a prefix of the body. A second batch "
    "(20% of runs) adds one reset/EOF per run and relaxes the oracle to 'nothing wrong is delivered'. When a run "
    "triggers one of the reported defects that puts garbage on a connection, exchanges before the trigger are judged "
    "in full and later ones are not judged. Two white-box reads, neither of which decides a verdict on its own: "
    "StreamResponse.keep_alive (the server's decision when the client's close reached the server first) and the "
    "parser's pending-input flag (only to name the class of a 'blocked' verdict). A refused expectation (final response "
    "from the route's expect_handler, no '100 Continue') is judged on the wire: the head announced a body, fewer bytes "
    "followed, and the next request head went to the same connection; what follows on that connection is not judged."
)
RULE = (
    "Run = 1-6 exchanges of (method, URL shape, headers, cookies, body kind x size around 2 KiB/64 KiB, chunked, "
    "compress, expect100) x (status, reason, headers, Set-Cookie, body kind fixed/text/stream/payload/file/json, "
    "compression forced or negotiated, chunked or declared length, force_close, Connection header, 1xx interim) x "
    "ClientSession(version=1.0|1.1) x segmentation policy per direction and connection x latency x ties x read "
    "pauses on either side x executor mode x read_bufsize/write-buffer knobs x EOF lag x idle-timer settings; ~7% of runs "
    "have one expectation refused by a route expect_handler (raise/return/write x 403/417 x close), ~8% of runs use session "
    "default headers and per-request headers that repeat names in other letter case (list/dict/CIMultiDict/MultiDict); "
    "~10% of runs give one or two bodies (request data= / web.Response(body=)) as a raw file-like source with short reads "
    "(caps 1..100000 per read, bare RawIOBase or inside io.BufferedReader), ~10% send GET with Range (closed / open-ended / "
    "suffix / past-the-end / unsatisfiable, positions around chunk_size and the file end; sometimes If-Range) to a "
    "FileResponse with or without enable_compression(); ~12% have one exchange (mostly not the last) with a body of 300 "
    "bytes..64 KiB whose handler answers after reading 0/1/100/1000 body bytes, with the client-to-server direction cut into "
    "several segments so that the rest of the body arrives in further reads after the response was written; ~8% (HTTP/1.1) "
    "send one or two bodies with an 'Expect: 100-continue' field line spelled by the caller (name and token in several "
    "letter cases) instead of expect100=True; ~10% answer one or two exchanges with a response that announces "
    "Content-Length N (StreamResponse.content_length, or a Content-Length field beside an async-generator / file-like "
    "Payload body) and whose producer yields N bytes (N reached at the end of a write, or crossed inside one) plus one to "
    "three further pieces; ~8% (HTTP/1.1) send one or two bodies (bytes/bytearray/str/BytesIO/async generator/raw file-like) "
    "with a 'Transfer-Encoding: chunked' field line spelled by the caller in headers= (three letter cases), chunked= and "
    "compress= at their defaults; batch "
    "'reset' adds one reset/EOF at a byte offset or loop step. Non-trivial: >=2 exchanges completed and at least one "
    "connection was reused or closed by a decision of either end. Distinct = interleaving signature."
)
COMPONENTS = {
    "real": ["aiohttp.ClientSession/TCPConnector/ClientRequest/ClientResponse", "client_proto.ResponseHandler",
             "http_writer.StreamWriter (Python)", "http_parser (Python)", "payload.*", "formdata/multipart writer",
             "web.Application/AppRunner/TCPSite", "web_protocol.RequestHandler", "web_request/web_response",
             "web_fileresponse (real files in /tmp/verif-c02-files)", "compression_utils (zlib)", "cookiejar",
             "yarl/multidict"],
    "stub": ["network (SimNet)", "DNS (SimResolver)", "threads (simulated executor)", "TLS", "access log disabled",
             "server logger (records what the server could only log)"],
}
ASSUMPTIONS = [
    "TCP stream semantics of SimNet (no loss/reorder inside a direction); FIN may lag the last data segment by a "
    "seeded number of ticks (local wrapper around the client transport's EOF delivery)",
    "handler and caller code are the harness' own and faithful (they read everything, then record); handlers do not "
    "contradict themselves (no body for 204/304, no 'Connection: keep-alive' against the request or force_close())",
    "close() calls are attributed by the calling frame: RequestHandler._process_keepalive = idle timer, transport EOF "
    "path = peer closed first, connector clean-up/shutdown frames = pool timer/session end, anything else = decision",
    "closes caused by keep-alive timers of either end are the inherent HTTP/1.1 race and are not judged; a client "
    "error explained by such a close is counted (faults.race_excused), not reported",
]

ORIGIN_IP = "10.0.0.1"
# (name given to the client, Host value expected at the server without port)
HOSTS = [["h.test", "h.test"], ["h.test", "h.test"], ["H.Test", "h.test"],
         ["bücher.test", "xn--bcher-kva.test"], ["10.0.0.1", "10.0.0.1"]]

SIZES_MID = [2047, 2048, 2049]
SIZES_BIG = [65535, 65536, 65537]
SIZES_HUGE = [100_000, 150_001, 262_144]
SEG = ["whole", "byte", "tiny", "small", "mss", "mixed", "after_cr"]
SEG_CHEAP = ["whole", "whole", "mss", "mixed"]
SEG_BULK = ["whole", "mss", "mixed", "mixed", "tiny"]

_BLOCK = (b"0\r\n\r\n" + bytes(range(256)) + b"\r\n--b\r\n\n\rX-Y: z\r\n\r\n" + b"abcdefghijklmnopqrstuvwxyz" * 3
          + b"\x1f\x8b\x08\x00" + b"%41%zz+ &=;")
_TBLOCK = "aé漢\U0001f600 z\r\n0\r\n\r\nß=&+%"


def bbytes(k: int, n: int) -> bytes:
    off = (k * 37) % len(_BLOCK)
    return (_BLOCK * ((n + off) // len(_BLOCK) + 1))[off:off + n]


def btext(k: int, n: int) -> str:
    off = k % len(_TBLOCK)
    return (_TBLOCK * ((n + off) // len(_TBLOCK) + 1))[off:off + n]


# --------------------------------------------------------------------------- files

FILE_SIZES = [0, 1, 300, 2047, 2048, 2049, 65535, 65536, 65537, 150_001]
FILE_DIR = "/tmp/verif-c02-files"
FILE_MTIME_NS = 1_600_000_000 * 10 ** 9
_files_ok = {"pid": None}


def file_path(size: int) -> str:
    return os.path.join(FILE_DIR, f"f{size}.bin")


def ensure_files():
    """Real files for FileResponse: made once per process, shared content, fixed
    mtime (ETag/Last-Modified are then the same in every process)."""
    if _files_ok["pid"] == os.getpid():
        return
    os.makedirs(FILE_DIR, exist_ok=True)
    for size in FILE_SIZES:
        p = file_path(size)
        want = bbytes(size % 251, size)
        ok = False
        try:
            st = os.stat(p)
            if st.st_size == size and st.st_mtime_ns == FILE_MTIME_NS:
                with open(p, "rb") as f:
                    ok = f.read() == want
        except OSError:
            ok = False
        if not ok:
            tmp = f"{p}.{os.getpid()}.tmp"
            with open(tmp, "wb") as f:
                f.write(want)
            os.utime(tmp, ns=(FILE_MTIME_NS, FILE_MTIME_NS))
            os.replace(tmp, p)
    _files_ok["pid"] = os.getpid()


# --------------------------------------------------------------------------- grammar

METHODS = ["GET", "GET", "GET", "GET", "POST", "POST", "POST", "POST", "PUT", "PUT", "PATCH", "DELETE", "DELETE", "HEAD",
           "OPTIONS", "post", "Get", "M-SEARCH", "REPORT", "GET", "POST"]
SEGMENTS = ["p", "a.b", "x-y_z~", "with space", "été", "漢", "q?r", "h#i", "100%", "a+b", "k=v&w", "semi;c",
            "at@:!$'()*,", "quo\"te", "<t>", "{}|^`", "bs\\x", "long" * 40, ""]
# literal request-target text handed to the client verbatim, with its hand-written decoding
LITERALS = [
    ["/lit/a%20b", "/lit/a b", []],
    ["/lit/%E6%BC%A2?k=%F0%9F%98%80", "/lit/漢", [["k", "\U0001f600"]]],
    ["/lit?x=1&x=2&y=", "/lit", [["x", "1"], ["x", "2"], ["y", ""]]],
    ["/lit?a=b+c&d=e%2Bf", "/lit", [["a", "b c"], ["d", "e+f"]]],
    ["/lit/%41%7e", "/lit/A~", []],
    ["/lit?q=a%26b%3Dc", "/lit", [["q", "a&b=c"]]],
    ["/lit;p=1/seg;q", "/lit;p=1/seg;q", []],
    ["/lit?novalue", "/lit", [["novalue", ""]]],
    ["/", "/", []],
    ["", "/", []],
    ["/lit/%e4?z=%e4", None, None],  # invalid UTF-8 escapes: only the raw target is compared
    ["/lit//double/?a=1;b=2", "/lit//double/", [["a", "1;b=2"]]],
]
QKEYS = ["a", "b b", "ké", "x=y", "amp&", "plus+", "pct%", "empty", "hash#", "sl/ash", "q?"]
HDR_POOL = [
    ["X-A", "1"], ["x-lower", "v"], ["X-MiXeD", "CaSe"], ["X-Dup", "one"], ["X-Dup", "two"], ["X-Empty", ""],
    ["X-Utf8", "päivää 漢"], ["X-Ws", "a  b\tc"], ["X-Colon", "a: b, c; d=\"e\""],
    ["X-Long", "L" * 3000], ["X-Num", "0012"], ["Referer", "http://r.test/?q=%20"], ["X-Dup", "three"],
    ["X-Long2", "m" * 8000], ["X-Ctl-Free", "~!@#$%^&*()_+{}|<>?"], ["Authorization", "Bearer abc.def"],
]
COOKIE_VALS = ["v1", "abc-DEF_0.9~", "with space", "semi;colon", "comma,val", "q\"uote", "eq=als", "", "é",
               "a\\b", "per%cent"]
STATUSES = [200, 200, 200, 200, 201, 202, 203, 204, 206, 299, 301, 304, 400, 404, 418, 500, 503, 205]
REASONS = [None, None, None, "OK", "Custom Reason", "", "Très bien", "x" * 200, "with  two  spaces"]
RESP_KINDS = ["none", "bytes", "bytes", "text", "stream", "stream", "stream", "bio", "agen", "str_payload", "file",
              "file", "json", "bytearray"]
REQ_KINDS = ["none", "none", "bytes", "bytes", "str", "form_url", "form_multi", "json", "agen", "agen", "bio",
             "payload", "bytearray", "dict"]


_HDR_SHORT = [h for h in HDR_POOL if len(h[1]) < 100 and h[0] != "Authorization"]
_HDR_LONG = [h for h in HDR_POOL if len(h[1]) >= 100]


def pick_header(rng):
    return rng.choice(_HDR_LONG) if rng.random() < 0.04 else rng.choice(_HDR_SHORT)


def pick_size(rng, heavy_ok=True):
    r = rng.random()
    if r < 0.48:
        return rng.choice([0, 1, 1, 2, 17, 300])
    if r < 0.82:
        return rng.choice(SIZES_MID)
    if r < 0.975 or not heavy_ok:
        return rng.choice(SIZES_BIG)
    return rng.choice(SIZES_HUGE)


def gen_pieces(rng, n):
    """sizes of the pieces a body of n bytes is produced in (may contain 0)"""
    m = rng.choice([1, 2, 3, 5])
    cuts = sorted(rng.choice([0, 1, n // 2, n, rng.randint(0, n)]) for _ in range(m - 1))
    out, prev = [], 0
    for c in cuts + [n]:
        out.append(c - prev)
        prev = c
    if rng.random() < 0.3:
        out.insert(rng.randrange(len(out) + 1), 0)
    return out


def gen_request(rng, version):
    method = rng.choice(METHODS)
    mode = rng.choice(["build", "build", "literal"])
    req = {"method": method, "url_mode": mode, "fragment": rng.choice([None, None, "frag", "f%20g"])}
    if mode == "build":
        req["segments"] = [rng.choice(SEGMENTS) for _ in range(rng.randint(0, 3))]
        req["query"] = [[rng.choice(QKEYS), rng.choice(["", "1", "v v", "é", "a&b=c", "1+1", "100%", "#", "x" * 300])]
                        for _ in range(rng.choice([0, 0, 1, 2, 4]))]
    else:
        req["literal"] = rng.randrange(len(LITERALS))
    req["params"] = ([[rng.choice(QKEYS), rng.choice(["", "p", "s p", "+", "&", "漢"])] for _ in range(rng.randint(1, 2))]
                     if rng.random() < 0.3 else None)
    hs = [list(pick_header(rng)) for _ in range(rng.choice([0, 1, 2, 4, 8]))]
    r = rng.random()
    if r < 0.10:
        hs.append(["Connection", "close"])
    elif r < 0.17:
        hs.append(["Connection", rng.choice(["keep-alive", "Keep-Alive", "keep-alive, x-foo"])])
    r = rng.random()
    if r < 0.08:
        hs.append(["Accept-Encoding", rng.choice(["gzip", "identity", "br", "deflate;q=0.5, gzip", "GZIP"])])
    if rng.random() < 0.06:
        hs.append(["User-Agent", "c02-agent/1.0"])
    if rng.random() < 0.04:
        hs.append(["Accept", "text/x-c02"])
    req["headers"] = hs
    req["skip_auto"] = rng.choice([None] * 8 + [["User-Agent"], ["Accept-Encoding"], ["Content-Type"], ["Accept", "user-agent"]])
    req["cookies"] = ({f"rc{j}": rng.choice(COOKIE_VALS) for j in range(rng.randint(1, 3))} if rng.random() < 0.3 else None)
    kind = rng.choice(REQ_KINDS)
    if method.upper() == "HEAD" and rng.random() < 0.93:
        kind = "none"
    if method.upper() in ("GET", "OPTIONS", "DELETE") and rng.random() < 0.6:
        kind = "none"
    body = {"kind": kind, "k": rng.randrange(251)}
    if kind in ("bytes", "bytearray", "str", "agen", "bio", "payload", "json"):
        body["size"] = pick_size(rng)
    if kind == "agen":
        body["pieces"] = gen_pieces(rng, body["size"])
    if kind == "payload":
        body["ptype"] = rng.choice(["bytes", "string", "bytesio"])
        body["ctype"] = rng.choice([None, "application/x-c02", "text/x-c02; charset=utf-8"])
    if kind in ("form_url", "form_multi", "dict"):
        nf = rng.randint(1, 4)
        body["fields"] = [[rng.choice(["f", "f", "g g", "g g", "amp&", "amp&", "eq=", "eq=", "né"]) + str(j),
                           rng.choice(["", "v", "two words", "é漢", "a&b=c+d%", "x" * pick_size(rng, False)])]
                          for j in range(nf)]
        if kind == "dict":
            # dict keys are unique
            seen = set()
            body["fields"] = [f for f in body["fields"] if not (f[0] in seen or seen.add(f[0]))]
        if kind == "form_multi":
            body["file"] = {"name": "upl", "filename": rng.choice(["a.bin", "sp ace.txt", "é.dat"]),
                            "size": pick_size(rng, False), "ctype": rng.choice([None, "application/x-up"])}
    if kind == "form_url" and rng.random() < 0.2:
        body["charset"] = "utf-8"
    req["body"] = body
    has_body = kind != "none"
    req["chunked"] = (True if rng.random() < 0.2 else None) if has_body or rng.random() < 0.04 else None
    if req["chunked"] is None and rng.random() < 0.012:
        req["chunked"] = False
    req["compress"] = rng.choice(["deflate", "gzip", True]) if has_body and req["chunked"] is None and rng.random() < 0.2 else None
    # (HTTP/1.0 + expect100 blocks for ever - a reported finding - so it is sampled rarely)
    req["expect100"] = bool(has_body and rng.random() < (0.15 if version == "1.1" else 0.02))
    req["srv_read"] = rng.choice(["read", "read", "iter_any", "iter_chunked:1000", "readany_loop"])
    req["json_api"] = kind == "json"
    return req


def gen_response(rng, version, req):
    status = rng.choice(STATUSES)
    kind = rng.choice(RESP_KINDS)
    if status in (204, 304) and kind == "stream":
        kind = "bytes"  # a correct handler does not write a body for these
    if status == 206 and kind == "file":
        status = 200  # FileResponse sets 206 itself for Range requests; passing it is handler misuse
    resp = {"status": status, "reason": rng.choice(REASONS),
            "headers": [list(pick_header(rng)) for _ in range(rng.choice([0, 0, 1, 2, 5]))],
            "set_cookies": ([[f"sc{rng.randrange(3)}", rng.choice(["v", "abc-DEF_0.9~", "1"])]] if rng.random() < 0.2 else [])}
    body = {"kind": kind, "k": rng.randrange(251)}
    if kind == "file":
        body["size"] = rng.choice(FILE_SIZES)
        body["chunk_size"] = rng.choice([262144, 65536, 4096, 8191])
    elif kind != "none":
        body["size"] = pick_size(rng)
    if kind in ("stream", "agen"):
        body["pieces"] = gen_pieces(rng, body["size"])
        body["delay"] = rng.choice([0, 0, 0, 1, 3])
    if kind == "stream":
        body["declare_len"] = rng.random() < 0.35
        body["explicit_eof"] = rng.random() < 0.5
        body["eof_data"] = rng.random() < 0.2  # last piece passed to write_eof(data)
    resp["body"] = body
    ch = rng.random() < 0.2 and version == "1.1" and kind != "file"
    if kind == "stream" and body["declare_len"]:
        ch = False
    resp["chunked"] = ch
    resp["compress"] = rng.choice(["auto", "auto", "gzip", "deflate", "identity"]) if rng.random() < (0.25 if kind != "none" else 0.05) else None
    resp["force_close"] = rng.random() < 0.12
    r = rng.random()
    resp["conn_hdr"] = "close" if r < 0.06 else ("keep-alive" if r < 0.10 else None)
    resp["interim"] = rng.choice([102, 103]) if version == "1.1" and rng.random() < 0.08 else None
    resp["handler_delay"] = rng.choice([0, 0, 0, 1, 4])
    resp["cli_read"] = rng.choice(["read", "read", "iter_any", "iter_chunked:777", "readany_loop"])
    return resp


def gen(rng, tier, index):
    version = "1.0" if rng.random() < 0.3 else "1.1"
    host = rng.choice(HOSTS)
    port = rng.choice([80, 80, 8080])
    nex = rng.choice([1, 2, 2, 3, 3, 4, 5, 6])
    exchanges = []
    for _ in range(nex):
        rq = gen_request(rng, version)
        exchanges.append({"req": rq, "resp": gen_response(rng, version, rq),
                          "gap_ms": rng.choice([0] * 12 + [1, 5, 200, 20000])})
    batch = "reset" if rng.random() < 0.2 else "main"
    # fine-grained segmentation costs one loop step per few bytes: keep it for runs whose streams are short
    biggest = max([ex[side]["body"].get("size", 0) for ex in exchanges for side in ("req", "resp")]
                  + [ex["req"]["body"].get("file", {}).get("size", 0) for ex in exchanges])
    tiny_buf = 1 if biggest < 65535 else 512  # a 1-byte read buffer makes aiohttp decode bulk data byte by byte
    if biggest >= 65535:
        seg = SEG_BULK
    elif rng.random() < 0.35:
        seg = SEG_CHEAP
    else:
        seg = SEG
    pauses = []
    for _ in range(rng.choice([0, 0, 0, 1, 2])):
        pauses.append({"conn": rng.randrange(1, 4), "dir": rng.choice(["c2s", "s2c"]),
                       "t0": rng.choice([0, 1, 3]), "dur": rng.choice([2, 10, 100])})
    wb = [None, None, None, [0, 0], [1, 0], [4096, 1024], [65536, 16384], [300000, 1000]]
    scn = {
        "batch": batch, "version": version, "host": host, "port": port, "exchanges": exchanges,
        "client": {"read_bufsize": rng.choice([65536, 65536, tiny_buf, 64, 4096, 1 << 20]),
                   "force_close": rng.random() < 0.06, "ka": rng.choice([15.0, 15.0, 15.0, 0.05]),
                   "auto_decompress": rng.random() >= 0.12, "wbuf": rng.choice(wb), "dummy_jar": rng.random() < 0.3},
        "server": {"keepalive_timeout": rng.choice([75, 75, 75, 75, 0.05, 0.002, 3]),
                   "read_bufsize": rng.choice([65536, 65536, tiny_buf, 64, 4096]), "wbuf": rng.choice(wb),
                   "tcp_keepalive": rng.random() < 0.8},
        "net": {"lat": rng.choice([0, 1, 3]), "pol_c2s": [rng.choice(seg) for _ in range(3)],
                "pol_s2c": [rng.choice(seg) for _ in range(3)], "eof_lag": rng.choice([0, 3, 3, 8]),
                "sendfile": rng.choice(["unsupported", "native"])},
        "pauses": pauses,
        "reset": None,
    }
    if batch == "reset":
        r = rng.random()
        if r < 0.4:
            scn["reset"] = {"conn": rng.randrange(1, 3), "dir": "c2s", "at": rng.choice([1, 20, 100, 300, 2048, 3000, 70000]),
                            "kind": rng.choice(["reset", "eof", "peer_reset"])}
        elif r < 0.8:
            scn["reset"] = {"conn": rng.randrange(1, 3), "dir": "s2c", "at": rng.choice([1, 17, 100, 200, 300, 2048, 3000, 70000]),
                            "kind": rng.choice(["reset", "eof", "peer_reset"])}
        else:
            scn["reset"] = {"conn": rng.randrange(1, 3), "dir": "step", "at": rng.randrange(5, 400), "kind": rng.choice(["reset", "eof"])}
    # Sampled extensions.  They are drawn after everything else, so the base scenario of a (seed, index) is the same
    # with and without them, and a scenario that does not carry their keys runs exactly as before.
    if rng.random() < P_EXPECT_REFUSE:
        add_expect_refusal(rng, scn)
    if rng.random() < P_HEADER_MIX:
        add_header_mix(rng, scn)
    if rng.random() < P_RAWIO:
        add_rawio(rng, scn)
    if rng.random() < P_FILE_RANGE:
        add_file_range(rng, scn)
    if rng.random() < P_EARLY_ANSWER:
        add_early_answer(rng, scn)
    if rng.random() < P_EXPECT_SPELLED:
        add_expect_spelled(rng, scn)
    if rng.random() < P_OVERRUN:
        add_overrun(rng, scn)
    if rng.random() < P_CALLER_TE:
        add_caller_te(rng, scn)
    if rng.random() < P_SREADER:
        add_sreader(rng, scn)
    return scn


# ---- extension 1: a route expect_handler that refuses (final response, no "100 Continue")
P_EXPECT_REFUSE = 0.10   # applies to HTTP/1.1 sessions only (70 % of them): ~7 % of all scenarios
REFUSE_STATUS = [403, 417]
REFUSE_HOW = ["raise", "return", "write"]


def add_expect_refusal(rng, scn):
    """One exchange of the session (preferably not the last one) is sent with expect100=True and a body, and the
    route's expect_handler answers it with a final 403/417 instead of '100 Continue'."""
    if scn["version"] != "1.1":
        return
    exs = scn["exchanges"]
    i = rng.randrange(len(exs) - 1) if len(exs) > 1 and rng.random() < 0.85 else len(exs) - 1
    rq = exs[i]["req"]
    if rq["method"].upper() == "HEAD":
        rq["method"] = "POST"
    if rq["body"]["kind"] == "none":
        rq["body"] = {"kind": "bytes", "k": rng.randrange(251), "size": rng.choice([1, 17, 300, 2047, 2049])}
        rq["json_api"] = False
    if rq["chunked"] is False:
        rq["chunked"] = None
    rq["expect100"] = True
    rq["expect_refuse"] = {"how": rng.choice(REFUSE_HOW), "status": rng.choice(REFUSE_STATUS),
                           "close": rng.random() < 0.2}
    if rng.random() < 0.5:
        exs[i]["gap_ms"] = rng.choice([0, 0, 1, 5])


def is_refused(scn, rq):
    """the oracle's premise: this request carries 'Expect: 100-continue' on HTTP/1.1 and the route's expect_handler
    is scripted to refuse it"""
    return bool(rq.get("expect_refuse")) and bool(rq["expect100"]) and scn["version"] == "1.1"


def refusal_body(i):
    return f"refused {i} é".encode("utf-8")


# ---- extension 2: ClientSession(headers=...) defaults x per-request headers, same names in different letter case
P_HEADER_MIX = 0.08
SESSION_HDR_POOL = [["X-Dup", "s-one"], ["x-dup", "s-two"], ["X-Sess", "s-sess"], ["x-a", "s-a"], ["X-MIXED", "s-mixed"],
                    ["X-Sess", "s-sess2"], ["x-lower", "s-lower"], ["User-Agent", "c02-session/1.0"], ["X-Only-Session", "s"]]
MIX_HDR_POOL = [["X-Dup", "r-one"], ["x-dup", "r-two"], ["X-DUP", "r-three"], ["x-sess", "r-sess"], ["X-SESS", "r-sess2"],
                ["X-A", "r-a"], ["x-a", "r-a2"], ["x-mixed", "r-mixed"], ["X-Lower", "r-lower"], ["x-new", "r-new"],
                ["X-New", "r-new2"]]
SESSION_HDR_FORMS = ["list", "dict", "cimultidict"]
REQ_HDR_FORMS = ["list", "list", "cimultidict", "multidict"]


def add_header_mix(rng, scn):
    pairs = [list(rng.choice(SESSION_HDR_POOL)) for _ in range(rng.choice([1, 2, 3, 4]))]
    form = rng.choice(SESSION_HDR_FORMS)
    seen = set()
    # a dict cannot repeat a key; User-Agent is a singleton field (sending it twice is the caller's error)
    pairs = [p for p in pairs if not ((form == "dict" or p[0] == "User-Agent") and (p[0] in seen or seen.add(p[0])))]
    scn["session_headers"] = {"form": form, "pairs": pairs}
    for ex in scn["exchanges"]:
        if rng.random() < 0.75:
            rq = ex["req"]
            for _ in range(rng.choice([1, 2, 2, 3, 4])):
                rq["headers"].insert(rng.randrange(len(rq["headers"]) + 1), list(rng.choice(MIX_HDR_POOL)))
            rq["headers_form"] = rng.choice(REQ_HDR_FORMS)


# ---- extension 3: bodies given as a raw file-like byte source whose read(n) returns less than n before EOF
P_RAWIO = 0.10
# how many bytes the source has "available" at each successive read() (cycled); a read returns min(asked, cap, rest)
RAWIO_CAPS = [[1], [7], [100], [1000, 1], [1024, 3900, 4], [2048], [2049, 2047], [65535], [65536, 1], [1, 65536], [100000],
              [1 << 20]]
RAWIO_WRAP = [None, None, None, "buffered"]


class ShortReader(io.RawIOBase):
    """A raw, unbuffered, unseekable byte source (what io.FileIO on a pipe/FIFO/character device, or
    socket.makefile('rb', buffering=0), is to its reader): read(n) returns the bytes that are available now - at
    least one, at most n - and b'' only at the end of the data (io.RawIOBase contract)."""

    def __init__(self, data, caps, on_short=None):
        super().__init__()
        self._data, self._pos, self._caps, self._j, self._on_short = data, 0, caps, 0, on_short

    def readable(self):
        return True

    def readinto(self, b):
        rest = len(self._data) - self._pos
        if rest <= 0 or len(b) == 0:
            return 0
        cap = max(1, self._caps[self._j % len(self._caps)])
        self._j += 1
        n = min(len(b), cap, rest)
        b[:n] = self._data[self._pos:self._pos + n]
        self._pos += n
        if n < len(b) and n < rest and self._on_short is not None:
            self._on_short()
        return n


def make_rawio(body, data, on_short=None):
    raw = ShortReader(data, body["caps"], on_short)
    return io.BufferedReader(raw, buffer_size=512) if body.get("wrap") == "buffered" else raw


def _scn_biggest(scn):
    exs = scn["exchanges"]
    return max([ex[side]["body"].get("size", 0) for ex in exs for side in ("req", "resp")]
               + [ex["req"]["body"].get("file", {}).get("size", 0) for ex in exs])


def _ext_targets(rng, scn):
    """one or two exchanges of the session that no other extension has claimed"""
    free = [i for i, ex in enumerate(scn["exchanges"]) if not ex["req"].get("expect_refuse")]
    rng.shuffle(free)
    return sorted(free[:rng.choice([1, 1, 2])])


def add_rawio(rng, scn):
    heavy = _scn_biggest(scn) >= 65535  # (the segmentation/buffer knobs of the run were chosen for its largest body)
    for i in _ext_targets(rng, scn):
        ex = scn["exchanges"][i]
        side = rng.choice(["req", "req", "resp", "resp", "both"])
        for sd in (("req", "resp") if side == "both" else (side,)):
            size = pick_size(rng, heavy)
            if not heavy and size >= 65535:
                size = rng.choice([300] + SIZES_MID)
            # (every read is an executor job: keep a body to at most ~150 of them)
            caps = [c for c in RAWIO_CAPS if size * len(c) <= 150 * sum(c)]
            body = {"kind": "rawio", "k": rng.randrange(251), "size": size, "caps": list(rng.choice(caps)),
                    "wrap": rng.choice(RAWIO_WRAP)}
            if sd == "req":
                rq = ex["req"]
                if rq["method"].upper() == "HEAD":
                    rq["method"] = "POST"
                rq["body"] = body
                rq["json_api"] = False
            else:
                rs = ex["resp"]
                rs["body"] = body


# ---- extension 4: GET + Range (If-Range) answered by web.FileResponse, with and without enable_compression()
P_FILE_RANGE = 0.10
FILE_MTIME_S = 1_600_000_000
FILE_CHUNK_SIZES = [262144, 65536, 4096, 8191]


def gen_range_value(rng, size, chunk):
    """a valid single byte-range-spec (RFC 9110 14.1.1) positioned around the start, the read size and the end of a
    representation of `size` bytes"""
    anchors = sorted({0, 1, size // 3, max(0, size - 2), size - 1, min(size - 1, chunk - 1), min(size - 1, chunk),
                      min(size - 1, 2 * chunk)})
    r = rng.random()
    if r < 0.55:
        a = rng.choice(anchors)
        b = a + rng.choice([0, 0, 1, 99, 99, chunk - 2, chunk - 1, chunk, 2 * chunk - 1, size])  # past the end: clamped by the server
        return f"bytes={a}-{b}"
    if r < 0.68:
        return f"bytes={rng.choice(anchors)}-"
    if r < 0.83:
        return f"bytes=-{rng.choice([1, 2, 100, chunk, max(1, size - 1), size, size + 5])}"
    if r < 0.92:
        a = size + rng.choice([0, 1, 1000])  # unsatisfiable
        return rng.choice([f"bytes={a}-", f"bytes={a}-{a + 10}"])
    return f"bytes=0-{size - 1}"


def add_file_range(rng, scn):
    heavy = _scn_biggest(scn) >= 65535
    for i in _ext_targets(rng, scn):
        ex = scn["exchanges"][i]
        rq, rs = ex["req"], ex["resp"]
        if rq["method"].upper() != "GET":
            rq["method"] = "GET"   # range handling is defined for GET only (RFC 9110 14.2)
        rs["status"], rs["reason"] = 200, None   # ... and only where the answer without Range would be 200
        b = rs["body"]
        if b["kind"] != "file" or b["size"] == 0:
            sizes = [s_ for s_ in FILE_SIZES if s_ > 0 and (heavy or s_ < 65535)]
            rs["body"] = b = {"kind": "file", "k": b["k"], "size": rng.choice(sizes), "chunk_size": rng.choice(FILE_CHUNK_SIZES)}
            rs["chunked"] = False
        if rng.random() < 0.5:
            rs["compress"] = rng.choice(["auto", "gzip", "deflate"])
        hs = rq["headers"]
        hs.insert(rng.randrange(len(hs) + 1), [rng.choice(["Range", "Range", "range"]), gen_range_value(rng, b["size"], b["chunk_size"])])
        if rng.random() < 0.2:
            # a date validator: the Last-Modified value itself (condition true) or an older one (false: Range is ignored)
            hs.append(["If-Range", ref_static.http_date(FILE_MTIME_S - rng.choice([0, 0, 1, 86400]))])


# ---- extension 5: a handler that answers without reading (all of) the request body
P_EARLY_ANSWER = 0.12
EARLY_MODES = ["ignore", "ignore", "ignore", "prefix:1", "prefix:100", "prefix:1000"]
EARLY_SEG = ["mss", "small", "tiny", "mixed"]
EARLY_SEG_BULK = ["mss", "mixed", "tiny"]


def add_early_answer(rng, scn):
    """One exchange of the session (preferably not the last one) carries a body of some hundred bytes or more and its
    handler answers without reading it, or after reading a prefix only (an early 401/413, or a handler that has no use
    for the body).  The rest of the body is then still on its way - in as many reads as the segmentation of the
    client-to-server direction makes of it - when the response is written."""
    exs = scn["exchanges"]
    free = [i for i, ex in enumerate(exs) if not ex["req"].get("expect_refuse")]
    if not free:
        return
    inner = [i for i in free if i < len(exs) - 1]
    i = rng.choice(inner) if inner and rng.random() < 0.85 else rng.choice(free)
    heavy = _scn_biggest(scn) >= 65535  # (the segmentation/buffer knobs of the run were chosen for its largest body)
    rq = exs[i]["req"]
    if rq["method"].upper() == "HEAD":
        rq["method"] = "POST"
    b = rq["body"]
    if b.get("size", 0) < 300:
        kind = rng.choice(["bytes", "bytes", "bio", "str", "agen", "bytearray"])
        size = rng.choice([300, 2047, 2049, 2049] + (SIZES_BIG if heavy else []))
        b = {"kind": kind, "k": rng.randrange(251), "size": size}
        if kind == "agen":
            b["pieces"] = gen_pieces(rng, size)
        rq["body"] = b
        rq["json_api"] = False
        if rq["chunked"] is False:
            rq["chunked"] = None
    rq["srv_read"] = rng.choice(EARLY_MODES)
    pol = scn["net"]["pol_c2s"]
    for j in range(len(pol)):
        if pol[j] == "whole" and rng.random() < 0.7:
            pol[j] = rng.choice(EARLY_SEG_BULK if heavy else EARLY_SEG)


def early_mode(rq):
    """None: the handler reads the whole body (every scenario without extension 5).  Else the number of body bytes the
    handler reads before it answers (0 = none)."""
    m = rq["srv_read"]
    if m == "ignore":
        return 0
    if m.startswith("prefix:"):
        return int(m[7:])
    return None


# ---- extension 6: the caller spells the expectation itself (headers={"Expect": "100-Continue"}) instead of expect100=True
P_EXPECT_SPELLED = 0.12   # applies to HTTP/1.1 sessions only (70 % of them): ~8 % of all scenarios
EXPECT_NAMES = ["Expect", "Expect", "expect", "EXPECT"]
# the expectation token is case-insensitive (RFC 9110 10.1.1), and so is its reading by aiohttp's own client
EXPECT_VALUES = ["100-continue", "100-Continue", "100-Continue", "100-CONTINUE", "100-cOnTiNuE"]


def add_expect_spelled(rng, scn):
    """One or two exchanges of an HTTP/1.1 session carry a body and an 'Expect' field line given through headers= (in
    one of several letter cases of name and token) instead of expect100=True.  It is the same request: the client holds
    the body back until '100 Continue', the server's default expect handler sends it, the handler sees head and body."""
    if scn["version"] != "1.1":
        return
    for i in _ext_targets(rng, scn):
        rq = scn["exchanges"][i]["req"]
        if early_mode(rq) is not None:
            continue
        if rq["method"].upper() == "HEAD":
            rq["method"] = "POST"
        if rq["body"]["kind"] == "none":
            rq["body"] = {"kind": "bytes", "k": rng.randrange(251), "size": rng.choice([1, 17, 300, 2047, 2049])}
            rq["json_api"] = False
        if rq["chunked"] is False:
            rq["chunked"] = None
        rq["expect100"] = False
        hs = rq["headers"] = [h for h in rq["headers"] if h[0].lower() != "expect"]
        hs.insert(rng.randrange(len(hs) + 1), [rng.choice(EXPECT_NAMES), rng.choice(EXPECT_VALUES)])


def asks_continue(rq):
    """does this request carry the 100-continue expectation - through expect100=True or through a field line the
    caller wrote (any letter case of the token)?"""
    return bool(rq["expect100"]) or any(n.lower() == "expect" and v.strip().lower() == "100-continue" for n, v in rq["headers"])


# ---- extension 7: a response whose producer yields more bytes than the Content-Length it declared
P_OVERRUN = 0.10
OVERRUN_KINDS = ["stream", "stream", "stream", "agen", "agen", "rawio"]
OVERRUN_SIZES = [0, 0, 1, 5, 17, 300, 2047, 2048, 2049]
SURPLUS_SIZES = [1, 1, 2, 6, 17, 300, 2049]
SURPLUS_FLAVOURS = ["bytes", "bytes", "text", "crlf", "response"]
_SURPLUS_BLOCKS = {"text": b"surplus ", "crlf": b"\r\nX-Surplus: 1\r\n\r\n",
                   "response": b"HTTP/1.1 200 OK\r\nContent-Length: 2\r\nX-Surplus: 1\r\n\r\nhi"}


def add_overrun(rng, scn):
    """One or two exchanges are answered by a response that announces a Content-Length of N (StreamResponse with
    content_length=N, or web.Response with a Content-Length field and an async-generator / file-like Payload body) and
    whose producer goes on after N bytes: N is reached at the end of one write (or crossed inside one) and one to three
    further pieces follow.  The message the handler returned is the announced one - head, N body bytes -, so the caller
    must read exactly the first N bytes and nothing else may appear on the connection (the writer drops the surplus)."""
    heavy = _scn_biggest(scn) >= 65535  # (the segmentation/buffer knobs of the run were chosen for its largest body)
    for i in _ext_targets(rng, scn):
        ex = scn["exchanges"][i]
        rq, rs = ex["req"], ex["resp"]
        if rq["method"].upper() == "HEAD":
            rq["method"] = "GET" if rq["body"]["kind"] == "none" else "POST"
        if rs["status"] in (204, 304):
            rs["status"] = 200   # (a body-less status has no body length to announce)
        kind = rng.choice(OVERRUN_KINDS)
        size = rng.choice(OVERRUN_SIZES + (SIZES_BIG if heavy else []))
        b = {"kind": kind, "k": rng.randrange(251), "size": size}
        if kind in ("stream", "agen"):
            b["pieces"] = gen_pieces(rng, size)
            b["delay"] = rng.choice([0, 0, 0, 1, 3])
        if kind == "stream":
            b["declare_len"] = True
            b["explicit_eof"] = rng.random() < 0.5
            b["eof_data"] = rng.random() < 0.2
        if kind == "rawio":
            b["caps"] = list(rng.choice([[1], [7], [100], [1000, 1], [2048], [2049, 2047]] if size <= 300 else
                                        [[100], [1000, 1], [1024, 3900, 4], [2048], [2049, 2047], [65535]]))
            b["wrap"] = rng.choice(RAWIO_WRAP)
        b["surplus"] = [rng.choice(SURPLUS_SIZES) for _ in range(rng.choice([1, 2, 2, 3]))]
        b["surplus_joined"] = rng.random() < 0.3   # the write that reaches N also carries the first surplus piece
        b["surplus_flavour"] = rng.choice(SURPLUS_FLAVOURS)
        rs["body"] = b
        rs["chunked"] = False
        rs["compress"] = None   # (a content-coding replaces the announced length by the coded body's own framing)
        if rng.random() < 0.5:
            ex["gap_ms"] = rng.choice([0, 0, 1, 5])   # the next request follows while the connection is still warm


def surplus_bytes(body):
    """what the producer yields after the announced body (b'' without extension 7)"""
    n = sum(body.get("surplus") or [])
    if not n:
        return b""
    blk = _SURPLUS_BLOCKS.get(body.get("surplus_flavour"))
    if blk is None:
        return bbytes((body["k"] + 101) % 251, n)
    return (blk * (n // len(blk) + 1))[:n]


def producer_pieces(body, data):
    """the pieces a stream/agen producer yields: the announced body in its pieces, then the surplus in its pieces"""
    pieces = split_pieces(data, body.get("pieces") or [len(data)])
    extra = split_pieces(surplus_bytes(body), body.get("surplus") or [])
    if extra and body.get("surplus_joined") and pieces:
        pieces[-1] = pieces[-1] + extra.pop(0)
    return pieces + extra


# ---- extension 8: the caller spells the framing field itself (headers={"Transfer-Encoding": "chunked"}), chunked= at default
P_CALLER_TE = 0.12   # applies to HTTP/1.1 sessions only (70 % of them): ~8 % of all scenarios
CALLER_TE_NAMES = ["Transfer-Encoding", "Transfer-Encoding", "transfer-encoding", "TRANSFER-ENCODING"]
CALLER_TE_KINDS = ["bytes", "bytes", "bytearray", "str", "bio"]  # bodies of known size: with an unsized body aiohttp
# refuses the combination (ValueError before any byte is written) - a request the API does not express


def add_caller_te(rng, scn):
    """One or two exchanges of an HTTP/1.1 session carry a body (bytes / str / file-like / async generator) and a
    'Transfer-Encoding: chunked' field line given through headers= (name in one of three letter cases) while chunked=
    and compress= are left at their defaults.  The head the handler sees must carry that field once, no Content-Length
    beside it (RFC 9112 6.2), and the bytes behind the head must be the body in chunked framing."""
    if scn["version"] != "1.1":
        return
    for i in _ext_targets(rng, scn):
        rq = scn["exchanges"][i]["req"]
        if early_mode(rq) is not None or asks_continue(rq):
            continue
        if rq["method"].upper() == "HEAD":
            rq["method"] = "POST"
        b = rq["body"]
        if b["kind"] not in ("bytes", "bytearray", "str", "bio") or b.get("size", 0) == 0:
            kind = rng.choice(CALLER_TE_KINDS)
            b = {"kind": kind, "k": rng.randrange(251), "size": rng.choice([1, 3, 17, 300, 2047, 2049])}
            if kind == "agen":
                b["pieces"] = gen_pieces(rng, b["size"])
            rq["body"] = b
            rq["json_api"] = False
        rq["chunked"] = None
        rq["compress"] = None
        hs = rq["headers"] = [h for h in rq["headers"] if h[0].lower() not in ("transfer-encoding", "content-length")]
        hs.insert(rng.randrange(len(hs) + 1), [rng.choice(CALLER_TE_NAMES), "chunked"])


def caller_te(rq):
    """did the caller write a Transfer-Encoding field line in headers= (extension 8)?"""
    return any(n.lower() == "transfer-encoding" for n, _ in rq["headers"])


# ---- extension 9: a StreamReader given as body (relaying one message's body stream as the body of another)
P_SREADER = 0.10
# the reader's buffer limit (its low-water mark; high-water = 2 x limit): what read_bufsize is to a message's stream
SREADER_LIMITS = [1, 8, 64, 64, 1024, 4096, 65536]
SREADER_LF = ["block", "block", "none", "none", "rich"]
SREADER_FEED = ["before", "task", "task"]


def sreader_bytes(body):
    """the relayed bytes: the ordinary block pattern (line feeds a few hundred bytes apart), the same without any LF
    (binary / compressed / base64-less data), or with an LF every few bytes (text with short lines)"""
    data = bbytes(body["k"], body["size"])
    lf = body.get("lf", "block")
    if lf == "none":
        return data.replace(b"\n", b"N")
    if lf == "rich":
        return data.replace(b"\n", b"N").replace(b"a", b"\n").replace(b"\x07", b"\n").replace(b"\x80", b"\n\n")
    return data


def add_sreader(rng, scn):
    """One or two exchanges carry an aiohttp.StreamReader as body - data=<StreamReader> on the client,
    web.Response(body=<StreamReader>) in the handler (the registered StreamReaderPayload kind: what a proxy does with
    request.content / resp.content).  The reader is filled before it is handed over or by a producer task while the
    message is being written, in pieces, with sizes below, at and far above its buffer marks."""
    heavy = _scn_biggest(scn) >= 65535
    free = [i for i, ex in enumerate(scn["exchanges"])
            if not ex["req"].get("expect_refuse") and early_mode(ex["req"]) is None and not caller_te(ex["req"])
            and not ex["resp"]["body"].get("surplus") and file_range_expect(ex["req"], ex["resp"]) is None]
    rng.shuffle(free)
    for i in sorted(free[:rng.choice([1, 1, 2])]):
        ex = scn["exchanges"][i]
        side = rng.choice(["req", "req", "resp", "resp", "both"])
        for sd in (("req", "resp") if side == "both" else (side,)):
            size = pick_size(rng, heavy)
            if not heavy and size >= 65535:
                size = rng.choice([300] + SIZES_MID)
            body = {"kind": "sreader", "k": rng.randrange(251), "size": size, "pieces": gen_pieces(rng, size),
                    "delay": rng.choice([0, 0, 1, 3]), "limit": rng.choice(SREADER_LIMITS), "lf": rng.choice(SREADER_LF),
                    "feed": rng.choice(SREADER_FEED)}
            if sd == "req":
                rq = ex["req"]
                if rq["method"].upper() == "HEAD":
                    rq["method"] = "POST"
                rq["body"] = body
                rq["json_api"] = False
            else:
                ex["resp"]["body"] = body


def chunked_complete(data):
    """does this byte string hold a complete chunked body (RFC 9112 7.1: chunks, last-chunk, trailer section, CRLF)?"""
    pos, n = 0, len(data)
    while True:
        e = data.find(b"\r\n", pos)
        if e < 0:
            return False
        try:
            size = int(bytes(data[pos:e]).split(b";", 1)[0].strip() or b"x", 16)
        except ValueError:
            return False
        pos = e + 2
        if size == 0:
            # trailer section: field lines up to the empty line
            while True:
                e = data.find(b"\r\n", pos)
                if e < 0:
                    return False
                if e == pos:
                    return True
                pos = e + 2
        pos += size + 2
        if pos > n:
            return False


def request_body_unsent(head_groups, body):
    """(announced body not completely on the wire?, framing) from a request head's fields and the bytes written after it"""
    if "transfer-encoding" in head_groups:
        return not chunked_complete(body), "chunked"
    declared = head_groups.get("content-length", [""])[0]
    return bool(declared.isdigit() and len(body) < int(declared)), "content_length"


def file_range_expect(rq, rs):
    """None: no Range request to a FileResponse.  'unjudged': outside what RFC 9110 14.2 defines (method other than GET,
    or a response that would not be 200 without Range) or not a single Range field line.  Else ref_static.Expect: the
    acceptable outcomes (full / partial[start:end] / unsat) for this request against the file."""
    if rs["body"]["kind"] != "file":
        return None
    vals = [v for n, v in rq["headers"] if n.lower() == "range"]
    if not vals:
        return None
    if len(vals) > 1 or rq["method"].upper() != "GET" or rs["status"] != 200 \
            or sum(1 for n, _ in rq["headers"] if n.lower() == "if-range") > 1:
        return "unjudged"
    size = rs["body"]["size"]
    return ref_static.evaluate("GET", [tuple(h) for h in rq["headers"]], size, FILE_MTIME_S, f"{FILE_MTIME_NS:x}-{size:x}")


_CONTENT_RANGE = re.compile(r"bytes (\d+)-(\d+)/(\d+)")


def expected_request_fields(scn, i, rq):
    """-> (per-request pairs, session pairs, {lower name: [values]} the handler must see for the caller's names).
    Documented/tested semantics of ClientSession(headers=) + request(headers=): field names are case-insensitive; a name
    given per request replaces every session default of that name; several per-request values of one name are all
    sent, in the order given; a default whose name is not given per request is sent as it is."""
    req_pairs = [("X-Ex", str(i))] + [tuple(h) for h in rq["headers"]]
    sess_pairs = [tuple(h) for h in (scn.get("session_headers") or {}).get("pairs", [])]
    spec = hdr_groups(req_pairs)
    for name, vals in hdr_groups(sess_pairs).items():
        spec.setdefault(name, vals)
    return req_pairs, sess_pairs, spec


def header_merge_class(name, req_pairs, sess_pairs):
    """which of the new header situations a (lower-case) field name is in; None = none of them"""
    spellings = {n for n, _ in req_pairs if n.lower() == name}
    in_sess = any(n.lower() == name for n, _ in sess_pairs)
    if len(spellings) > 1:
        return "request_names_differ_in_case"
    if spellings and in_sess:
        return "request_replaces_session_default"
    if in_sess:
        return "session_default_only"
    return None


def _is_subseq(a, b):
    it = iter(b)
    return all(x in it for x in a)


def header_symptom(want, got):
    got = got or []
    if len(got) < len(want) and _is_subseq(got, want):
        return "values_lost"
    if len(got) > len(want) and _is_subseq(want, got):
        return "values_added"
    return "values_differ"


# --------------------------------------------------------------------------- shrink

_DEF_CLIENT = {"read_bufsize": 65536, "force_close": False, "ka": 15.0, "auto_decompress": True, "wbuf": None,
               "dummy_jar": False}
_DEF_SERVER = {"keepalive_timeout": 75, "read_bufsize": 65536, "wbuf": None, "tcp_keepalive": True}
_DEF_REQ = {"fragment": None, "params": None, "headers": [], "skip_auto": None, "cookies": None, "chunked": None,
            "compress": None, "expect100": False, "srv_read": "read"}
_DEF_RESP = {"reason": None, "headers": [], "set_cookies": [], "chunked": False, "compress": None, "force_close": False,
             "conn_hdr": None, "interim": None, "handler_delay": 0, "cli_read": "read", "status": 200}


def _with_ex(scn, i, ex):
    return dict(scn, exchanges=scn["exchanges"][:i] + [ex] + scn["exchanges"][i + 1:])


def shrink(scn):
    exs = scn["exchanges"]
    if len(exs) > 1:
        for i in range(len(exs)):
            yield dict(scn, exchanges=exs[:i] + exs[i + 1:])
    if scn["pauses"]:
        yield dict(scn, pauses=[])
    net = scn["net"]
    for k in ("pol_c2s", "pol_s2c"):
        if any(p != "whole" for p in net[k]):
            yield dict(scn, net=dict(net, **{k: ["whole"] * 3}))
    if net["lat"]:
        yield dict(scn, net=dict(net, lat=0))
    if net["sendfile"] != "unsupported":
        yield dict(scn, net=dict(net, sendfile="unsupported"))
    for k, v in _DEF_CLIENT.items():
        if scn["client"][k] != v:
            yield dict(scn, client=dict(scn["client"], **{k: v}))
    for k, v in _DEF_SERVER.items():
        if scn["server"][k] != v:
            yield dict(scn, server=dict(scn["server"], **{k: v}))
    if scn["host"] != HOSTS[0]:
        yield dict(scn, host=HOSTS[0])
    if scn["port"] != 80:
        yield dict(scn, port=80)
    sh = scn.get("session_headers")
    if sh:
        yield {k: v for k, v in scn.items() if k != "session_headers"}
        if sh["form"] != "list":
            yield dict(scn, session_headers=dict(sh, form="list"))
        if len(sh["pairs"]) > 1:
            for j in range(len(sh["pairs"])):
                yield dict(scn, session_headers=dict(sh, pairs=sh["pairs"][:j] + sh["pairs"][j + 1:]))
    for i, ex in enumerate(exs):
        if ex["gap_ms"]:
            yield _with_ex(scn, i, dict(ex, gap_ms=0))
        rq, rs = ex["req"], ex["resp"]
        xr = rq.get("expect_refuse")
        if xr:
            yield _with_ex(scn, i, dict(ex, req={k: v for k, v in rq.items() if k != "expect_refuse"}))
            for k, v in (("how", "raise"), ("status", 403), ("close", False)):
                if xr[k] != v:
                    yield _with_ex(scn, i, dict(ex, req=dict(rq, expect_refuse=dict(xr, **{k: v}))))
        if rq.get("headers_form") not in (None, "list"):
            yield _with_ex(scn, i, dict(ex, req={k: v for k, v in rq.items() if k != "headers_form"}))
        for k, v in _DEF_REQ.items():
            if rq[k] != v:
                yield _with_ex(scn, i, dict(ex, req=dict(rq, **{k: v})))
        if rq["srv_read"].startswith("prefix:"):
            yield _with_ex(scn, i, dict(ex, req=dict(rq, srv_read="ignore")))
        for j, h in enumerate(rq["headers"]):
            if h[0].lower() == "expect":
                rest = rq["headers"][:j] + rq["headers"][j + 1:]
                # the plain API for the same request, then the plainest spelling of name and token
                yield _with_ex(scn, i, dict(ex, req=dict(rq, headers=rest, expect100=True)))
                yield _with_ex(scn, i, dict(ex, req=dict(rq, headers=rest)))
                for simpler in (["Expect", "100-continue"], ["Expect", h[1]], [h[0], "100-continue"], ["Expect", "100-Continue"]):
                    if h != simpler:
                        yield _with_ex(scn, i, dict(ex, req=dict(rq, headers=rq["headers"][:j] + [simpler] + rq["headers"][j + 1:])))
        for j, h in enumerate(rq["headers"]):
            if h[0].lower() == "transfer-encoding":
                rest = rq["headers"][:j] + rq["headers"][j + 1:]
                # the plain API for the same request (chunked=True), the request without the field, the plainest spelling
                yield _with_ex(scn, i, dict(ex, req=dict(rq, headers=rest, chunked=True)))
                yield _with_ex(scn, i, dict(ex, req=dict(rq, headers=rest)))
                if h[0] != "Transfer-Encoding":
                    yield _with_ex(scn, i, dict(ex, req=dict(rq, headers=rq["headers"][:j] + [["Transfer-Encoding", h[1]]] + rq["headers"][j + 1:])))
                if rq["body"]["kind"] not in ("bytes", "none"):
                    yield _with_ex(scn, i, dict(ex, req=dict(rq, body={"kind": "bytes", "k": rq["body"]["k"], "size": rq["body"].get("size", 3)})))
        if len(rq["headers"]) > 1:
            for j in range(len(rq["headers"])):
                yield _with_ex(scn, i, dict(ex, req=dict(rq, headers=rq["headers"][:j] + rq["headers"][j + 1:])))
        if rq["url_mode"] != "build" or rq.get("segments") or rq.get("query"):
            yield _with_ex(scn, i, dict(ex, req=dict(rq, url_mode="build", segments=[], query=[])))
        if rq["body"]["kind"] != "none":
            yield _with_ex(scn, i, dict(ex, req=dict({k: v for k, v in rq.items() if k != "expect_refuse"},
                                                    body={"kind": "none", "k": 0}, chunked=None, compress=None,
                                                    expect100=False, json_api=False)))
        for k, v in _DEF_RESP.items():
            if rs[k] != v:
                yield _with_ex(scn, i, dict(ex, resp=dict(rs, **{k: v})))
        if rs["body"]["kind"] not in ("none", "bytes"):
            yield _with_ex(scn, i, dict(ex, resp=dict(rs, body={"kind": "bytes", "k": 0, "size": rs["body"].get("size", 1)})))
        for side, spec in (("req", rq), ("resp", rs)):
            b = spec["body"]
            sz = b.get("size")
            if sz:
                for smaller in (0, 1, 17, 2048):
                    if smaller < sz:
                        nb = dict(b, size=smaller)
                        if "pieces" in nb:
                            nb["pieces"] = [smaller]
                        yield _with_ex(scn, i, dict(ex, **{side: dict(spec, body=nb)}))
            if b.get("pieces") and len(b["pieces"]) > 1:
                yield _with_ex(scn, i, dict(ex, **{side: dict(spec, body=dict(b, pieces=[sum(b["pieces"])]))}))
            if b["kind"] == "sreader":
                for k_, v_ in (("feed", "before"), ("delay", 0), ("lf", "none"), ("limit", 65536), ("limit", 1024), ("limit", 64)):
                    if b[k_] != v_ and not (k_ == "limit" and b[k_] <= v_):
                        yield _with_ex(scn, i, dict(ex, **{side: dict(spec, body=dict(b, **{k_: v_}))}))
            if b["kind"] == "rawio":
                if b.get("wrap"):
                    yield _with_ex(scn, i, dict(ex, **{side: dict(spec, body=dict(b, wrap=None))}))
                if b["caps"] != [1 << 20]:
                    yield _with_ex(scn, i, dict(ex, **{side: dict(spec, body=dict(b, caps=[1 << 20]))}))
                    if len(b["caps"]) > 1:
                        yield _with_ex(scn, i, dict(ex, **{side: dict(spec, body=dict(b, caps=b["caps"][:1]))}))
            if side == "resp" and b.get("surplus"):
                # the same response without its surplus, then the plainest surplus: one piece of one ordinary byte
                yield _with_ex(scn, i, dict(ex, resp=dict(spec, body={k: v for k, v in b.items() if not k.startswith("surplus")})))
                if b["surplus"] != [1]:
                    yield _with_ex(scn, i, dict(ex, resp=dict(spec, body=dict(b, surplus=[1]))))
                    if len(b["surplus"]) > 1:
                        yield _with_ex(scn, i, dict(ex, resp=dict(spec, body=dict(b, surplus=b["surplus"][:1]))))
                if b.get("surplus_joined"):
                    yield _with_ex(scn, i, dict(ex, resp=dict(spec, body=dict(b, surplus_joined=False))))
                if b.get("surplus_flavour") != "text":
                    yield _with_ex(scn, i, dict(ex, resp=dict(spec, body=dict(b, surplus_flavour="text"))))
                if b["kind"] == "stream" and (b.get("eof_data") or not b.get("explicit_eof")):
                    yield _with_ex(scn, i, dict(ex, resp=dict(spec, body=dict(b, eof_data=False, explicit_eof=True))))
            if b["kind"] == "file" and b.get("chunk_size") != 262144:
                yield _with_ex(scn, i, dict(ex, **{side: dict(spec, body=dict(b, chunk_size=262144))}))
        if rs["body"]["kind"] == "file":
            # a Range request: try the plainest range that keeps the failure (first byte only, first 100 bytes)
            for j, h in enumerate(rq["headers"]):
                if h[0].lower() == "range":
                    for simpler in ("bytes=0-0", "bytes=0-99"):
                        if h[1] != simpler and rs["body"]["size"] > 100:
                            yield _with_ex(scn, i, dict(ex, req=dict(rq, headers=rq["headers"][:j] + [[h[0], simpler]] + rq["headers"][j + 1:])))


# --------------------------------------------------------------------------- expectations (the oracle's model)

def reason_default(status: int) -> str:
    try:
        return http.HTTPStatus(status).phrase
    except ValueError:
        return ""


def build_target(req):
    """-> (url text handed to the client without scheme/host, expected decoded path or None,
    expected decoded query pairs or None)"""
    if req["url_mode"] == "literal":
        lit, epath, equery = LITERALS[req["literal"]]
        return lit, epath, (None if equery is None else [tuple(x) for x in equery])
    return None, "/" + "/".join(req["segments"]), [tuple(x) for x in req["query"]]


def split_pieces(data, sizes):
    out, pos = [], 0
    for n in sizes:
        out.append(data[pos:pos + n])
        pos += n
    if pos < len(data):
        out.append(data[pos:])
    return out


def req_body_bytes(body):
    """Raw bytes the handler must read for the byte-exact kinds; None where the
    representation is chosen by aiohttp (forms) and is decoded independently."""
    kind = body["kind"]
    if kind == "none":
        return b""
    if kind in ("bytes", "bytearray", "agen", "bio", "rawio"):
        return bbytes(body["k"], body["size"])
    if kind == "sreader":
        return sreader_bytes(body)
    if kind == "str":
        return btext(body["k"], body["size"]).encode("utf-8")
    if kind == "payload":
        if body["ptype"] == "string":
            return btext(body["k"], body["size"]).encode("utf-8")
        return bbytes(body["k"], body["size"])
    if kind == "json":
        return json.dumps(json_obj(body)).encode("utf-8")
    return None


def json_obj(body):
    return {"a": [1, 2.5, {"b": "é漢"}], "n": None, "t": True, "s": btext(body["k"], body["size"])}


def req_default_ctype(req):
    """Content-Type the client adds on its own (documented defaults per body kind)."""
    kind = req["body"]["kind"]
    if kind == "none":
        return "application/octet-stream" if req["method"].upper() in ("POST", "PUT", "PATCH") else None
    if kind in ("bytes", "bytearray", "agen", "bio", "rawio", "sreader"):
        return "application/octet-stream"
    if kind == "str":
        return "text/plain; charset=utf-8"
    if kind == "json":
        return "application/json"
    if kind in ("form_url", "dict"):
        return "application/x-www-form-urlencoded"  # FormData adds "; charset=" only for non-UTF-8 charsets
    if kind == "form_multi":
        return "multipart/form-data; boundary="
    if kind == "payload":
        ct = req["body"]["ctype"]
        if ct is not None:
            return ct
        return "text/plain; charset=utf-8" if req["body"]["ptype"] == "string" else "application/octet-stream"
    raise AssertionError(kind)


def resp_body_bytes(body):
    kind = body["kind"]
    if kind == "none":
        return b""
    if kind == "file":
        return bbytes(body["size"] % 251, body["size"])
    if kind in ("text", "str_payload"):
        return btext(body["k"], body["size"]).encode("utf-8")
    if kind == "json":
        return json.dumps(json_obj(body)).encode("utf-8")
    if kind == "sreader":
        return sreader_bytes(body)
    return bbytes(body["k"], body["size"])


def hdr_groups(pairs):
    """[(name, value)] -> {lower name: [values in order]}"""
    out = {}
    for n, v in pairs:
        out.setdefault(n.lower(), []).append(v)
    return out


AUTO_REQ = {"host", "user-agent", "accept", "accept-encoding", "content-type", "content-length", "transfer-encoding",
            "connection", "expect", "cookie", "content-encoding", "x-ex"}
AUTO_RESP = {"content-type", "content-length", "transfer-encoding", "date", "server", "connection", "content-encoding",
             "set-cookie"}
AUTO_RESP_FILE = {"last-modified", "etag", "accept-ranges"}


def conn_tokens(values):
    out = set()
    for v in values:
        for t in v.split(","):
            t = t.strip(" \t").lower()
            if t:
                out.add(t)
    return out


def persistent_by_headers(version, conn_values):
    """RFC 9112 9.3: does a message of this version with these Connection values ask for persistence?"""
    toks = conn_tokens(conn_values)
    if "close" in toks:
        return False
    if version >= (1, 1):
        return True
    return "keep-alive" in toks


def parse_multipart(ctype: str, body: bytes):
    msg = email.message_from_bytes(b"Content-Type: " + ctype.encode("utf-8") + b"\r\nMIME-Version: 1.0\r\n\r\n" + body,
                                   policy=email.policy.HTTP)
    if not msg.is_multipart():
        return None
    out = []
    for part in msg.iter_parts():
        cd = part.get("Content-Disposition")
        name = part.get_param("name", header="content-disposition")
        fn = part.get_filename()
        out.append({"name": name, "filename": fn, "ctype": part.get_content_type() if part.get("Content-Type") else None,
                    "data": part.get_payload(decode=True), "cd": str(cd)})
    return out


def oracle_selftest():
    assert bbytes(3, 0) == b"" and len(bbytes(250, 65537)) == 65537 and bbytes(1, 5) != bbytes(2, 5)
    assert b"HTTP/" not in _BLOCK * 2
    assert len(btext(4, 2049)) == 2049 and len(btext(4, 2049).encode()) > 2049
    assert reason_default(200) == "OK" and reason_default(299) == "" and reason_default(418) == "I'm a Teapot"
    assert persistent_by_headers((1, 1), []) and not persistent_by_headers((1, 0), [])
    assert persistent_by_headers((1, 0), ["Keep-Alive"]) and not persistent_by_headers((1, 1), ["x, Close"])
    assert hdr_groups([("A", "1"), ("a", "2"), ("B", "")]) == {"a": ["1", "2"], "b": [""]}
    assert split_pieces(b"abcdef", [0, 2, 0, 4]) == [b"", b"ab", b"", b"cdef"]
    # session defaults x per-request headers: documented merge (tests/test_client_session.py::test_merge_headers*)
    scn_ = {"version": "1.1", "session_headers": {"form": "list", "pairs": [["X-Dup", "s1"], ["x-dup", "s2"], ["X-Sess", "a"], ["h2", "d"]]}}
    rp, sp, spec_ = expected_request_fields(scn_, 3, {"headers": [["x-sess", "b"], ["X-New", "1"], ["x-new", "2"], ["X-NEW", "3"]]})
    assert spec_ == {"x-ex": ["3"], "x-sess": ["b"], "x-new": ["1", "2", "3"], "x-dup": ["s1", "s2"], "h2": ["d"]}, spec_
    assert header_merge_class("x-new", rp, sp) == "request_names_differ_in_case"
    assert header_merge_class("x-sess", rp, sp) == "request_replaces_session_default"
    assert header_merge_class("x-dup", rp, sp) == "session_default_only" and header_merge_class("x-ex", rp, sp) is None
    assert expected_request_fields({"version": "1.1"}, 0, {"headers": [["A", "1"], ["A", "2"]]})[2] == {"x-ex": ["0"], "a": ["1", "2"]}
    assert header_symptom(["1", "2", "3"], ["3"]) == "values_lost" and header_symptom(["1"], None) == "values_lost"
    assert header_symptom(["1"], ["1", "1"]) == "values_added" and header_symptom(["1", "2"], ["2", "1"]) == "values_differ"
    assert is_refused({"version": "1.1"}, {"expect_refuse": {"how": "raise"}, "expect100": True})
    assert not is_refused({"version": "1.0"}, {"expect_refuse": {"how": "raise"}, "expect100": True})
    assert not is_refused({"version": "1.1"}, {"expect_refuse": {"how": "raise"}, "expect100": False})
    assert not is_refused({"version": "1.1"}, {"expect100": True})
    # resent rawio bodies: one read's worth missing from the middle (not the front, not the tail)
    e_ = bytes(range(200)) * 3
    assert _one_piece_missing(e_[:100] + e_[150:], e_, {"caps": [50], "wrap": None}) == (100, 50)
    assert _one_piece_missing(e_[:100] + e_[150:], e_, {"caps": [49], "wrap": None}) is None
    assert _one_piece_missing(e_[:100] + e_[150:], e_, {"caps": [1], "wrap": "buffered"}) == (100, 50)
    assert _one_piece_missing(e_[50:], e_, {"caps": [100], "wrap": None}) is None       # the front: front_lost_...
    assert _one_piece_missing(e_[:550], e_, {"caps": [100], "wrap": None}) is None      # the tail: plain body:rawio
    assert _one_piece_missing(e_, e_, {"caps": [100], "wrap": None}) is None
    assert _one_piece_missing(e_[:100] + e_[150:300] + e_[350:], e_, {"caps": [100], "wrap": None}) is None  # two pieces
    assert _one_piece_missing(e_[:100] + b"x" + e_[151:], e_, {"caps": [100], "wrap": None}) is None
    # early answers: how much the handler reads; when a request body is completely on the wire
    assert early_mode({"srv_read": "ignore"}) == 0 and early_mode({"srv_read": "prefix:100"}) == 100
    assert early_mode({"srv_read": "read"}) is None and early_mode({"srv_read": "iter_chunked:1000"}) is None
    assert chunked_complete(b"3\r\nabc\r\n0\r\n\r\n") and chunked_complete(b"0\r\n\r\n") and chunked_complete(b"1;x=y\r\na\r\n0\r\nT: v\r\n\r\n")
    assert not chunked_complete(b"") and not chunked_complete(b"3\r\nabc\r\n") and not chunked_complete(b"3\r\nabc\r\n0\r\n")
    assert not chunked_complete(b"5\r\n0\r\n\r\n") and not chunked_complete(b"5\r\n0\r\n\r\n\r\n") and chunked_complete(b"5\r\n0\r\n\r\n\r\n0\r\n\r\n")
    assert request_body_unsent({"content-length": ["5"]}, b"abc") == (True, "content_length")
    assert request_body_unsent({"content-length": ["3"]}, b"abc") == (False, "content_length")
    assert request_body_unsent({"transfer-encoding": ["chunked"]}, b"3\r\nabc\r\n") == (True, "chunked")
    assert request_body_unsent({}, b"") == (False, "content_length")
    # the short-read source: RawIOBase contract (at least one byte, at most what is available, b"" only at the end)
    sr = ShortReader(b"abcdef", [2, 1])
    assert [sr.read(4), sr.read(4), sr.read(1), sr.read(65536), sr.read(9), sr.read(9), sr.read(9)] == [b"ab", b"c", b"d", b"e", b"f", b"", b""]
    assert ShortReader(b"abcdef", [4]).readall() == b"abcdef" and ShortReader(b"", [1]).read(5) == b""
    assert make_rawio({"caps": [1], "wrap": "buffered"}, b"abcdef").read(5) == b"abcde"
    hits = []
    ShortReader(b"abc", [5], lambda: hits.append(1)).read(3)
    ShortReader(b"abc", [2], lambda: hits.append(2)).read(3)
    assert hits == [2]
    # Range requests to a FileResponse: RFC 9110 14.1.2 arithmetic comes from ref/static.py (own self-test there)
    f300 = {"status": 200, "body": {"kind": "file", "size": 300, "chunk_size": 4096}}
    rqr = lambda *hs, m="GET": {"method": m, "headers": [list(h) for h in hs]}
    e_ = file_range_expect(rqr(("Range", "bytes=100-199")), f300)
    assert [(o.kind, o.start, o.end) for o in e_.outcomes] == [("partial", 100, 200)], e_
    e_ = file_range_expect(rqr(("X-A", "1"), ("range", "bytes=-1000")), f300)
    assert [(o.kind, o.start, o.end) for o in e_.outcomes] == [("partial", 0, 300)], e_
    e_ = file_range_expect(rqr(("Range", "bytes=250-9999")), f300)
    assert [(o.kind, o.start, o.end) for o in e_.outcomes] == [("partial", 250, 300)], e_
    assert [o.kind for o in file_range_expect(rqr(("Range", "bytes=300-")), f300).outcomes] == ["unsat"]
    assert ref_static.http_date(FILE_MTIME_S) == "Sun, 13 Sep 2020 12:26:40 GMT" and FILE_MTIME_S * 10 ** 9 == FILE_MTIME_NS
    e_ = file_range_expect(rqr(("Range", "bytes=0-0"), ("If-Range", "Sun, 13 Sep 2020 12:26:40 GMT")), f300)
    assert [(o.kind, o.start, o.end) for o in e_.outcomes] == [("partial", 0, 1)], e_
    e_ = file_range_expect(rqr(("Range", "bytes=0-0"), ("If-Range", "Sun, 13 Sep 2020 12:26:39 GMT")), f300)
    assert [o.kind for o in e_.outcomes] == ["full"], e_
    assert file_range_expect(rqr(("X-A", "1")), f300) is None and file_range_expect(rqr(("Range", "bytes=0-0"), m="POST"), f300) == "unjudged"
    assert file_range_expect(rqr(("Range", "bytes=0-0")), {"status": 200, "body": {"kind": "bytes", "size": 3}}) is None
    assert file_range_expect(rqr(("Range", "bytes=0-0")), dict(f300, status=404)) == "unjudged"
    # multipart reference decoder against a hand-written message
    body = (b"--BB\r\nContent-Type: text/plain; charset=utf-8\r\nContent-Disposition: form-data; name=\"f0\"\r\n\r\nv v\r\n"
            b"--BB\r\nContent-Type: application/octet-stream\r\nContent-Disposition: form-data; name=\"upl\"; filename=\"a.bin\"\r\n\r\n"
            b"\x00\r\n\xff\r\n--BB--\r\n")
    parts = parse_multipart("multipart/form-data; boundary=BB", body)
    assert [(p["name"], p["filename"], p["data"]) for p in parts] == [("f0", None, b"v v"), ("upl", "a.bin", b"\x00\r\n\xff")], parts
    # the literal table is what yarl documents: decoding of path and query
    import sim.seams  # noqa: F401  (puts the tree under test on sys.path)
    from yarl import URL
    for lit, epath, equery in LITERALS:
        if epath is None:
            continue
        u = URL("http://h.test" + lit)
        assert u.path == epath, (lit, u.path, epath)
        assert [list(x) for x in u.query.items()] == equery, (lit, list(u.query.items()), equery)
    for seg in SEGMENTS:
        u = URL.build(scheme="http", host="h.test", path="/" + seg)
        assert u.path == "/" + seg, (seg, u.path)
    u = URL.build(scheme="http", host="h.test", path="/").with_query([(k, "1+1 &=%#é") for k in QKEYS])
    assert [k for k, _ in u.query.items()] == QKEYS and all(v == "1+1 &=%#é" for v in u.query.values())
    # split_responses: framing classes this module relies on
    rs, rest = http1.split_responses(b"HTTP/1.0 200 OK\r\nA: b\r\n\r\nxyz", methods=[b"GET"], closed=True)
    assert rs[0]["framing"] == "eof" and rs[0]["body"] == b"xyz"
    rs, rest = http1.split_responses(b"HTTP/1.1 200 OK\r\nContent-Length: 2\r\n\r\nxyHTTP/1.1 204 No Content\r\n\r\n",
                                     methods=[b"GET", b"GET"], closed=False)
    assert [r["framing"] for r in rs] == ["length", "none"] and rest == "clean"


# --------------------------------------------------------------------------- the run

_REQ_HEAD = re.compile(rb"\A([!#$%&'*+\-.^_`|~0-9A-Za-z]+) (\S+) HTTP/1\.([01])\r\n")
_XEX = re.compile(rb"\r\nX-Ex: (\d+)\r\n")
_CLOSE_FRAMES_TIMER = {"_process_keepalive"}
_CLOSE_FRAMES_PEER = {"_deliver_eof", "_force_close", "connection_lost"}
_CLOSE_FRAMES_SHUTDOWN = {"shutdown", "_close_immediately", "cleanup", "close_clients"}
_CLOSE_FRAMES_POOL = {"_cleanup", "_cleanup_closed"}


def _close_cause(tr):
    names = []
    f = sys._getframe(2)
    for _ in range(12):
        if f is None:
            break
        names.append(f.f_code.co_name)
        f = f.f_back
    s = set(names)
    if s & _CLOSE_FRAMES_PEER or tr.eof_received:
        return "peer"
    if s & _CLOSE_FRAMES_TIMER:
        return "timer"
    if s & _CLOSE_FRAMES_POOL:
        return "pool_timer"
    if s & _CLOSE_FRAMES_SHUTDOWN:
        return "shutdown"
    if "_get" in s:
        return "stale_on_get"
    return "decision"


def run(scn, ch, log=False):
    import asyncio

    viols = []

    def violate(inv, key, msg):
        if not any(v["invariant"] == inv and v["key"] == key for v in viols):
            viols.append({"invariant": inv, "key": key, "message": msg})

    ensure_files()
    main_batch = scn["batch"] == "main"
    with World(ch, 0, log_events=log) as w:
        import aiohttp
        from aiohttp import payload as aio_payload
        from aiohttp import web
        from aiohttp.http import SERVER_SOFTWARE
        from aiohttp.web_response import ContentCoding
        from multidict import CIMultiDict, MultiDict
        from sim.net import SimResolver
        from yarl import URL

        loop, net = w.loop, w.net
        net.max_latency_ticks = scn["net"]["lat"]
        net.wire = []
        net.sendfile_mode = scn["net"]["sendfile"]
        host_given, host_expect = scn["host"]
        port = scn["port"]
        for name in {host_given, host_expect, host_given.lower()}:
            net.dns[name] = [ORIGIN_IP]
        exchanges = scn["exchanges"]
        version_t = (1, 0) if scn["version"] == "1.0" else (1, 1)
        conns = {}      # sim_conn -> info
        seen = []       # handler records
        results = []    # caller records
        state = {"serving": True, "seq": 0, "short_reads": 0}

        def count_short_read():
            state["short_reads"] += 1

        # ------------------------------------------------------------------ network hooks
        def on_connect(ctr, str_):
            n = ctr.get_extra_info("sim_conn")
            info = {"n": n, "ctr": ctr, "str": str_, "s_close": None, "c_close": None, "handled": [], "finished": 0,
                    "opened_step": loop.steps, "opened_t": loop.time(), "killed": False}
            conns[n] = info
            idx = min(n - 1, 2)
            ctr.out.policy = scn["net"]["pol_c2s"][idx]
            str_.out.policy = scn["net"]["pol_s2c"][idx]
            if scn["client"]["wbuf"] is not None:
                ctr.set_write_buffer_limits(*scn["client"]["wbuf"])
            if scn["server"]["wbuf"] is not None:
                str_.set_write_buffer_limits(*scn["server"]["wbuf"])

            s_orig, c_orig = str_.close, ctr.close

            def s_close():
                if not str_._closing and info["s_close"] is None:
                    cause = _close_cause(str_) if state["serving"] else "shutdown"
                    info["s_close"] = {"step": loop.steps, "t": loop.time(), "cause": cause, "after": info["finished"],
                                       "started": len(info["handled"])}
                    loop.note("s_close", f"s{n}:{cause}")
                s_orig()

            def c_close():
                if not ctr._closing and info["c_close"] is None:
                    cause = _close_cause(ctr) if state["serving"] else "shutdown"
                    state["seq"] += 1
                    info["c_close"] = {"step": loop.steps, "t": loop.time(), "cause": cause, "seq": state["seq"],
                                       "unflushed": len(ctr.out.buf)}
                    loop.note("c_close", f"c{n}:{cause}")
                c_orig()

            str_.close = s_close
            ctr.close = c_close

            # White-box note, used only to name the class of an exchange that failed or blocked anyway: was a cancelled
            # drain future sitting on the client protocol when a request head was written to this connection?
            w_orig = ctr.write

            def c_write(data):
                if _REQ_HEAD.match(data) is not None:
                    dw = getattr(ctr.protocol, "_drain_waiter", None)
                    if dw is not None and dw.cancelled():
                        he_ = data.find(b"\r\n\r\n")
                        mx_ = _XEX.search(data, 0, he_ + 4 if he_ >= 0 else len(data))
                        if mx_ is not None:
                            state.setdefault("stale_drain", set()).add(int(mx_.group(1)))
                            loop.note("stale_drain_waiter", f"c{n}:ex{int(mx_.group(1))}")
                w_orig(data)

            ctr.write = c_write

            # FIN may arrive later than the last data segment (DESIGN 9/C02: "with the peer's EOF still in flight")
            eof_orig = ctr._deliver_eof
            lagged = {"done": False}

            def deliver_eof():
                if lagged["done"] or ctr._closed or ctr.eof_received:
                    return eof_orig() if lagged.get("fire") else None
                lagged["done"] = True
                lag = ch.draw("eof_lag", 0, scn["net"]["eof_lag"]) if scn["net"]["eof_lag"] else 0
                if lag == 0:
                    lagged["fire"] = True
                    return eof_orig()
                loop.faults["eof_lag"] += 1

                def fire():
                    lagged["fire"] = True
                    eof_orig()
                loop.sim_call_later(lag * TICK, fire)

            ctr._deliver_eof = deliver_eof

            # when the client's end of this connection was lost (whatever the cause); observation only
            lost_orig = ctr._call_connection_lost

            def call_connection_lost(exc):
                info.setdefault("c_lost", loop.steps)
                lost_orig(exc)

            ctr._call_connection_lost = call_connection_lost

            for p in scn["pauses"]:
                if p["conn"] == n:
                    pipe = ctr.out if p["dir"] == "c2s" else str_.out

                    def hold(pipe=pipe, p=p):
                        if pipe.src._closed or pipe.dst._closed:
                            return
                        net.hold(pipe)
                        loop.faults["rd_pause_" + ("server" if p["dir"] == "c2s" else "client")] += 1
                        loop.sim_call_later(p["dur"] * TICK, net.release, pipe)
                    loop.sim_call_later(p["t0"] * TICK, hold)
            rst = scn["reset"]
            if rst is not None and rst["conn"] == n:
                if rst["dir"] == "c2s":
                    ctr.out.kill_at, ctr.out.kill_kind = rst["at"], rst["kind"]
                elif rst["dir"] == "s2c":
                    str_.out.kill_at, str_.out.kill_kind = rst["at"], rst["kind"]
                else:
                    def do_kill(kind=rst["kind"]):
                        if not ctr._closed:
                            loop.faults["kill_step_" + kind] += 1
                            info["killed"] = True
                            net.kill(ctr, kind)
                    loop.at_step.setdefault(loop.steps + rst["at"], []).append(do_kill)

        net.on_connect = on_connect

        # ------------------------------------------------------------------ server
        async def read_request_body(request, mode):
            kind, _, arg = mode.partition(":")
            if kind == "read":
                return await request.read()
            buf = bytearray()
            if kind == "iter_any":
                async for chunk in request.content.iter_any():
                    buf += chunk
            elif kind == "iter_chunked":
                async for chunk in request.content.iter_chunked(int(arg)):
                    buf += chunk
            else:
                while True:
                    chunk = await request.content.readany()
                    if not chunk:
                        break
                    buf += chunk
            return bytes(buf)

        class FeedGate:
            """Stands in for the connection a StreamReader belongs to (the reader only tells it to stop / go on
            delivering): the producer task below waits while the reader holds it paused."""
            connected = True

            def __init__(self):
                self.paused, self.waiter = False, None

            def pause_reading(self):
                self.paused = True
                state["sreader_paused"] = state.get("sreader_paused", 0) + 1

            def resume_reading(self, resume_parser=True):
                self.paused = False
                w_, self.waiter = self.waiter, None
                if w_ is not None and not w_.done():
                    w_.set_result(None)

        def make_sreader(b, data):
            gate = FeedGate()
            reader = aiohttp.StreamReader(gate, b["limit"], loop=loop)
            pieces = split_pieces(data, b["pieces"])
            state["sreader_made"] = state.get("sreader_made", 0) + 1
            if len(data) > 2 * b["limit"]:
                state["sreader_over_high_water"] = state.get("sreader_over_high_water", 0) + 1
            loop.note("sreader", f"{len(data)}:limit{b['limit']}:{b['lf']}:{b['feed']}")
            if b["feed"] == "before":
                for p in pieces:
                    reader.feed_data(p)
                reader.feed_eof()
                return reader

            async def feeder():
                for p in pieces:
                    await asyncio.sleep(b["delay"] * TICK)
                    while gate.paused:
                        gate.waiter = loop.create_future()
                        await gate.waiter
                    reader.feed_data(p)
                reader.feed_eof()

            state.setdefault("sreader_tasks", []).append(loop.create_task(feeder()))
            return reader

        async def agen_pieces(pieces, delay):
            for p in pieces:
                if delay:
                    await asyncio.sleep(delay * TICK)
                yield p

        async def handler(request):
            n = request.transport.get_extra_info("sim_conn") if request.transport is not None else None
            rec = {"conn": n, "method": request.method, "raw_path": request.raw_path, "version": tuple(request.version),
                   "headers": [(k.decode("utf-8", "surrogateescape"), v.decode("utf-8", "surrogateescape")) for k, v in request.raw_headers],
                   "combined": [(k, v) for k, v in request.headers.items()], "ex": None, "body": None, "done": False,
                   "path": None, "query": None, "cookies": None, "step": loop.steps, "finished": False}
            seen.append(rec)
            if n in conns:
                conns[n]["handled"].append(rec)
            try:
                return await handle(request, rec)
            finally:
                rec["finished"] = True
                rec["finished_step"] = loop.steps
                if rec.get("early"):
                    rec["body_eof_at_return"] = request.content.is_eof()
                if n in conns:
                    conns[n]["finished"] += 1

        async def expect_handler(request):
            """Route-level Expect handler written after the example in docs/web_advanced.rst ("Expect Header"): return
            for other versions, 417 for an unknown expectation, a final response (raised HTTPException or returned
            StreamResponse) when the request is refused, else write '100 Continue' and return None."""
            if request.version != aiohttp.HttpVersion11:
                return None
            if request.headers.get("Expect", "").lower() != "100-continue":
                raise web.HTTPExpectationFailed(text="Unknown Expect")
            xex = request.headers.get("X-Ex", "")
            i = int(xex) if xex.isdigit() and int(xex) < len(exchanges) else None
            xr = exchanges[i]["req"].get("expect_refuse") if i is not None else None
            if not xr:
                request.transport.write(b"HTTP/1.1 100 Continue\r\n\r\n")
                return None
            n = request.transport.get_extra_info("sim_conn") if request.transport is not None else None
            rec = {"conn": n, "method": request.method, "raw_path": request.raw_path, "version": tuple(request.version),
                   "headers": [(k.decode("utf-8", "surrogateescape"), v.decode("utf-8", "surrogateescape")) for k, v in request.raw_headers],
                   "combined": [(k, v) for k, v in request.headers.items()], "ex": i, "body": None, "done": False,
                   "path": None, "query": None, "cookies": dict(request.cookies), "step": loop.steps, "finished": False,
                   "refused": True}
            try:
                rec["path"] = request.path
                rec["query"] = list(request.query.items())
            except ValueError as e:
                rec["path_error"] = repr(e)
            seen.append(rec)
            if n in conns:
                conns[n]["handled"].append(rec)
            state["last_ex"] = i
            loop.note("expect_refused", f"ex{i}:{xr['how']}:{xr['status']}")
            try:
                hdrs_ = {"X-Refused": str(i)}
                text = refusal_body(i).decode("utf-8")
                if xr["how"] == "raise":
                    if xr["close"]:
                        hdrs_["Connection"] = "close"
                        rec["conn_hdr"] = "close"
                    cls = web.HTTPForbidden if xr["status"] == 403 else web.HTTPExpectationFailed
                    raise cls(text=text, headers=hdrs_)
                resp = web.Response(status=xr["status"], text=text, headers=hdrs_)
                if xr["close"]:
                    resp.force_close()
                rec["resp_obj"] = resp
                if xr["how"] == "write":
                    await resp.prepare(request)
                    await resp.write_eof()
                return resp
            finally:
                rec["finished"] = True
                if n in conns:
                    conns[n]["finished"] += 1

        async def handle(request, rec):
            xex = request.headers.get("X-Ex", "")
            if not xex.isdigit() or int(xex) >= len(exchanges):
                rec["body"] = await request.read()
                return web.Response(status=500, text="c02: exchange id lost")
            i = int(xex)
            rec["ex"] = i
            state["last_ex"] = i
            rq, rs = exchanges[i]["req"], exchanges[i]["resp"]
            try:
                rec["path"] = request.path
                rec["query"] = list(request.query.items())
            except ValueError as e:  # undecodable escapes in literal targets
                rec["path_error"] = repr(e)
            rec["cookies"] = dict(request.cookies)
            early = early_mode(rq)
            if early is None:
                rec["body"] = await read_request_body(request, rq["srv_read"])
                rec["done"] = True
            else:
                # answers without reading the rest of the body ("done" stays False: there is no whole body to compare)
                rec["early"] = True
                loop.note("early_answer", f"ex{i}:{early}")
                buf = bytearray()
                while len(buf) < early:
                    chunk = await request.content.read(early - len(buf))
                    if not chunk:
                        break
                    buf += chunk
                rec["prefix"] = bytes(buf)
            if rs["handler_delay"]:
                await asyncio.sleep(rs["handler_delay"] * TICK)
            if rs["interim"] and request.version >= (1, 1) and request.transport is not None:
                request.transport.write(b"HTTP/1.1 %d Interim\r\nX-Interim: %d\r\n\r\n" % (rs["interim"], i))
            b = rs["body"]
            kind = b["kind"]
            hdrs_ = [("X-Resp", str(i))] + [tuple(h) for h in rs["headers"]]
            if rs["conn_hdr"] == "close" or (rs["conn_hdr"] == "keep-alive" and request.keep_alive and not rs["force_close"]):
                hdrs_.append(("Connection", rs["conn_hdr"]))
                rec["conn_hdr"] = rs["conn_hdr"]
            data = resp_body_bytes(b)
            if b.get("surplus") and kind != "stream":
                # extension 7: the handler announces the length itself; the Payload it passes yields more than that
                hdrs_.append(("Content-Length", str(len(data))))
            kw = {"status": rs["status"], "reason": rs["reason"], "headers": hdrs_}
            if kind == "stream":
                resp = web.StreamResponse(**kw)
                if b["declare_len"]:
                    resp.content_length = len(data)
            elif kind == "none":
                resp = web.Response(**kw)
            elif kind == "bytes":
                resp = web.Response(body=data, **kw)
            elif kind == "bytearray":
                resp = web.Response(body=bytearray(data), **kw)
            elif kind == "text":
                resp = web.Response(text=btext(b["k"], b["size"]), **kw)
            elif kind == "bio":
                resp = web.Response(body=io.BytesIO(data), **kw)
            elif kind == "rawio":
                resp = web.Response(body=make_rawio(b, data + surplus_bytes(b), count_short_read), **kw)
            elif kind == "agen":
                resp = web.Response(body=agen_pieces(producer_pieces(b, data), b["delay"]), **kw)
            elif kind == "sreader":
                resp = web.Response(body=make_sreader(b, data), **kw)
            elif kind == "str_payload":
                resp = web.Response(body=aio_payload.StringPayload(btext(b["k"], b["size"])), **kw)
            elif kind == "file":
                resp = web.FileResponse(file_path(b["size"]), chunk_size=b["chunk_size"], **kw)
            elif kind == "json":
                resp = web.json_response(json_obj(b), **kw)
            else:
                raise AssertionError(kind)
            for name, val in rs["set_cookies"]:
                resp.set_cookie(name, val, path="/")
            if rs["chunked"]:
                resp.enable_chunked_encoding()
            if rs["compress"]:
                force = {"auto": None, "gzip": ContentCoding.gzip, "deflate": ContentCoding.deflate,
                         "identity": ContentCoding.identity}[rs["compress"]]
                resp.enable_compression(force)
            if rs["force_close"]:
                resp.force_close()
            rec["resp_obj"] = resp
            if b.get("surplus"):
                rec["overrun"] = True
                loop.note("overrun", f"ex{i}:{kind}:{len(data)}+{sum(b['surplus'])}")
            if kind == "stream":
                await resp.prepare(request)
                pieces = producer_pieces(b, data)
                last = b""
                if b["eof_data"] and b["explicit_eof"] and pieces:
                    last = pieces.pop()
                for p in pieces:
                    await resp.write(p)
                    if b["delay"]:
                        await asyncio.sleep(b["delay"] * TICK)
                if b["explicit_eof"]:
                    await resp.write_eof(last)
            return resp

        server_errors = []

        class SrvLog:
            """stands in for logging.Logger('aiohttp.server'): records what the server could only log"""

            def exception(self, msg, *a, exc_info=None, **kw):
                e = exc_info if isinstance(exc_info, BaseException) else sys.exc_info()[1]
                if isinstance(e, ConnectionError):
                    return
                server_errors.append((str(msg)[:60], _root_cause(e) if e is not None else None, repr(e)[:200], state.get("last_ex")))
                loop.note("srv_exc", str(msg)[:40])

            def error(self, msg, *a, **kw):
                self.exception(msg, *a, **kw)

            def warning(self, msg, *a, **kw):
                pass

            info = debug = warning

            def isEnabledFor(self, level):
                return False

        async def start_server():
            app = web.Application(client_max_size=8 * 1024 * 1024)
            if any(ex["req"].get("expect_refuse") for ex in exchanges):
                app.router.add_route("*", "/{tail:.*}", handler, expect_handler=expect_handler)
            else:
                app.router.add_route("*", "/{tail:.*}", handler)
            skw = scn["server"]
            runner = web.AppRunner(app, access_log=None, logger=SrvLog(), shutdown_timeout=1.0, keepalive_timeout=skw["keepalive_timeout"],
                                   read_bufsize=skw["read_bufsize"], tcp_keepalive=skw["tcp_keepalive"])
            await runner.setup()
            site = web.TCPSite(runner, ORIGIN_IP, port)
            await site.start()
            return runner

        # ------------------------------------------------------------------ client
        def make_data(rq):
            b = rq["body"]
            kind = b["kind"]
            if kind == "none":
                return None
            if kind == "bytes":
                return bbytes(b["k"], b["size"])
            if kind == "bytearray":
                return bytearray(bbytes(b["k"], b["size"]))
            if kind == "str":
                return btext(b["k"], b["size"])
            if kind == "bio":
                return io.BytesIO(bbytes(b["k"], b["size"]))
            if kind == "rawio":
                return make_rawio(b, bbytes(b["k"], b["size"]), count_short_read)
            if kind == "agen":
                return agen_pieces(split_pieces(bbytes(b["k"], b["size"]), b["pieces"]), 0)
            if kind == "sreader":
                return make_sreader(b, sreader_bytes(b))
            if kind == "payload":
                kw = {"content_type": b["ctype"]} if b["ctype"] else {}
                if b["ptype"] == "string":
                    return aio_payload.StringPayload(btext(b["k"], b["size"]), **kw)
                if b["ptype"] == "bytesio":
                    return aio_payload.BytesIOPayload(io.BytesIO(bbytes(b["k"], b["size"])), **kw)
                return aio_payload.BytesPayload(bbytes(b["k"], b["size"]), **kw)
            if kind == "dict":
                return {k: v for k, v in b["fields"]}
            if kind in ("form_url", "form_multi"):
                fd = aiohttp.FormData(charset=b.get("charset"))
                for k, v in b["fields"]:
                    fd.add_field(k, v)
                if kind == "form_multi":
                    f = b["file"]
                    fd.add_field(f["name"], io.BytesIO(bbytes(b["k"], f["size"])), filename=f["filename"],
                                 content_type=f["ctype"])
                return fd
            raise AssertionError(kind)

        async def read_response_body(resp, mode):
            kind, _, arg = mode.partition(":")
            if kind == "read":
                return await resp.read()
            buf = bytearray()
            if kind == "iter_any":
                async for chunk in resp.content.iter_any():
                    buf += chunk
            elif kind == "iter_chunked":
                async for chunk in resp.content.iter_chunked(int(arg)):
                    buf += chunk
            else:
                while True:
                    chunk = await resp.content.readany()
                    if not chunk:
                        break
                    buf += chunk
            return bytes(buf)

        async def workload():
            ckw = scn["client"]
            connector = aiohttp.TCPConnector(resolver=SimResolver(net), force_close=ckw["force_close"],
                                             **({} if ckw["force_close"] else {"keepalive_timeout": ckw["ka"]}))
            jar = aiohttp.DummyCookieJar() if ckw["dummy_jar"] else aiohttp.CookieJar(unsafe=True)
            ver = aiohttp.HttpVersion10 if scn["version"] == "1.0" else aiohttp.HttpVersion11
            sess_kw = {}
            sh = scn.get("session_headers")
            if sh:
                sp = [tuple(h) for h in sh["pairs"]]
                sess_kw["headers"] = dict(sp) if sh["form"] == "dict" else (CIMultiDict(sp) if sh["form"] == "cimultidict" else sp)
            async with aiohttp.ClientSession(connector=connector, version=ver, read_bufsize=ckw["read_bufsize"],
                                             cookie_jar=jar, auto_decompress=ckw["auto_decompress"],
                                             timeout=aiohttp.ClientTimeout(total=None), **sess_kw) as session:
                for i, ex in enumerate(exchanges):
                    rq = ex["req"]
                    lit, _, _ = build_target(rq)
                    base = f"http://{host_given}" + ("" if port == 80 else f":{port}")
                    if lit is not None:
                        url = base + lit + ("#" + rq["fragment"] if rq["fragment"] else "")
                    else:
                        url = URL.build(scheme="http", host=host_given, port=port, path="/" + "/".join(rq["segments"]))
                        if rq["query"]:
                            url = url.with_query([tuple(x) for x in rq["query"]])
                        if rq["fragment"]:
                            url = url.with_fragment(rq["fragment"])
                    kw = {"headers": [("X-Ex", str(i))] + [tuple(h) for h in rq["headers"]], "allow_redirects": False}
                    if rq.get("headers_form") == "cimultidict":
                        kw["headers"] = CIMultiDict(kw["headers"])
                    elif rq.get("headers_form") == "multidict":
                        kw["headers"] = MultiDict(kw["headers"])
                    if rq["params"] is not None:
                        kw["params"] = [tuple(x) for x in rq["params"]]
                    if rq["cookies"] is not None:
                        kw["cookies"] = rq["cookies"]
                    if rq["skip_auto"] is not None:
                        kw["skip_auto_headers"] = rq["skip_auto"]
                    if rq["json_api"]:
                        kw["json"] = json_obj(rq["body"])
                    else:
                        data = make_data(rq)
                        if data is not None:
                            kw["data"] = data
                    if rq["chunked"] is not None:
                        kw["chunked"] = rq["chunked"]
                    if rq["compress"] is not None:
                        kw["compress"] = rq["compress"]
                    if rq["expect100"]:
                        kw["expect100"] = True
                    state["seq"] += 1
                    rec = {"i": i, "error": None, "start_step": loop.steps, "start_t": loop.time(), "status": None,
                           "body": None, "done": False, "start_seq": state["seq"]}
                    results.append(rec)
                    try:
                        async with session.request(rq["method"], url, **kw) as resp:
                            rec["status"] = resp.status
                            rec["reason"] = resp.reason
                            rec["version"] = tuple(resp.version)
                            rec["headers"] = [(k.decode("utf-8", "surrogateescape"), v.decode("utf-8", "surrogateescape")) for k, v in resp.raw_headers]
                            rec["combined"] = [(k, v) for k, v in resp.headers.items()]
                            rec["cookies"] = {k: m.value for k, m in resp.cookies.items()}
                            rec["head_t"] = loop.time()
                            rec["body"] = await read_response_body(resp, ex["resp"]["cli_read"])
                        rec["done"] = True
                    except asyncio.CancelledError:
                        raise
                    except Exception as e:
                        rec["error"] = type(e).__name__
                        rec["error_msg"] = repr(e)[:300]
                        rec["error_cause"] = _root_cause(e)
                        if log:
                            import traceback
                            rec["error_tb"] = "".join(traceback.format_exception(type(e), e, e.__traceback__))[-3000:]
                    rec["end_step"] = loop.steps
                    rec["end_t"] = loop.time()
                    if ex["gap_ms"]:
                        await asyncio.sleep(ex["gap_ms"] * TICK)
            return True

        # ------------------------------------------------------------------ go
        t = loop.run_sim(start_server(), vt_cap=loop.time() + 10)
        runner = t.result()
        horizon = 400.0 + sum(ex["gap_ms"] for ex in exchanges) * TICK
        wt = loop.run_sim(workload(), vt_cap=loop.time() + horizon, step_cap=loop.steps + 600_000)
        step_capped = loop.capped == "steps"
        blocked = not wt.done()
        end_t = loop.time()
        if wt.done() and not wt.cancelled() and wt.exception() is not None:
            raise wt.exception()  # harness error: the workload itself must not fail
        # let in-flight EOFs/closes settle (no idle timers: 0 virtual seconds)
        loop.run_sim(None, vt_cap=loop.time(), step_cap=loop.steps + 50_000)
        state["serving"] = False

        # ------------------------------------------------------------------ wire: which request went where
        fault_fired = any(k.startswith("kill_") for k in loop.faults)

        def any_fault_early():
            return fault_fired or any(c["killed"] for c in conns.values())

        writes = {}   # conn -> [(step, ex)]
        s_out = {}    # conn -> bytearray
        req_lines = {}  # ex -> [raw target bytes]
        for step, name, kind, data in net.wire:
            if kind != "w":
                continue
            n = int(name[1:])
            if name[0] == "s":
                s_out.setdefault(n, bytearray()).extend(data)
                continue
            m = _REQ_HEAD.match(data)
            if m is None:
                continue
            head_end = data.find(b"\r\n\r\n")
            mx = _XEX.search(data, 0, head_end + 4 if head_end >= 0 else len(data))
            if mx is None:
                continue
            i = int(mx.group(1))
            writes.setdefault(n, []).append((step, i))
            req_lines.setdefault(i, []).append((n, m.group(1), m.group(2), m.group(3), data[:head_end] if head_end >= 0 else data))

        # what the client wrote for each request: head, then body bytes until the next head on that connection
        c_stream = {}
        for step, name, kind, data in net.wire:
            if kind == "w" and name[0] == "c":
                c_stream.setdefault(int(name[1:]), []).append(data)
        # A known-defect trigger makes everything after it on the session unreliable (garbage on a connection, a
        # connection torn down); exchanges before it are still judged in full.
        poison = {"from": len(exchanges)}

        def poisoned(i_):
            poison["from"] = min(poison["from"], i_)

        head_body_dropped = set()
        reuse_after_refusal = set()  # refused exchanges after which the client went on using the connection
        reuse_conns = set()          # ... and the connections this happened on: what follows on them is garbage in, garbage out
        all_segs = []
        for n, chunks in sorted(c_stream.items()):
            cur = None
            for data in chunks:
                m = _REQ_HEAD.match(data)
                he = data.find(b"\r\n\r\n")
                mx = _XEX.search(data, 0, he + 4) if m is not None and he >= 0 else None
                if mx is not None:
                    cur = {"head": data[:he + 4], "ex": int(mx.group(1)), "body": bytearray(data[he + 4:]), "conn": n,
                           "next": None}
                    if all_segs and all_segs[-1]["conn"] == n:
                        all_segs[-1]["next"] = cur
                    all_segs.append(cur)
                elif cur is not None:
                    cur["body"] += data
        last_seg = {}
        for sg in all_segs:
            last_seg[sg["ex"]] = sg  # an idempotent request may be written twice (retry after a lost connection)
        for sg in sorted(all_segs, key=lambda g: g["ex"]):
            if sg["ex"] > poison["from"] or sg["ex"] >= poison.get("incl", len(exchanges)):
                continue  # follows a known-defect trigger: its fate proves nothing
            rq = exchanges[sg["ex"]]["req"]
            lines = sg["head"].split(b"\r\n")[1:]
            hd = hdr_groups([tuple(x.decode("latin-1").split(": ", 1)) for x in lines if b": " in x])
            done = sg["ex"] < len(results) and results[sg["ex"]]["done"]
            if rq["chunked"] is False:
                ck = "chunked=False"
            elif rq["chunked"] and rq["body"]["kind"] == "none":
                ck = "chunked=True+no_data"
            else:
                ck = _req_class(rq)
            declared = hd.get("content-length", [""])[0]
            nbody = len(sg["body"])
            # An expectation that was refused: the client may leave the body unsent (RFC 9110 10.1.1), but then the
            # message it started is incomplete and the connection cannot carry another request (RFC 9112 6.3, 9.3: the
            # server - here lingering - takes whatever comes next as the announced body).
            refused_sg = is_refused(scn, rq) and any(r.get("refused") and r["ex"] == sg["ex"] and r["conn"] == sg["conn"] for r in seen)
            if refused_sg:
                if "transfer-encoding" in hd:
                    unsent, fr_ = not bytes(sg["body"]).endswith(b"0\r\n\r\n"), "chunked"
                else:
                    unsent, fr_ = declared.isdigit() and nbody < int(declared), "content_length"
                sg["refused_unsent"] = bool(unsent)
                nx = sg["next"]
                if unsent and nx is not None:
                    # (holds with injected faults too: no fault makes a client continue on a connection in this state)
                    j = nx["ex"]
                    rj = results[j] if j < len(results) else None
                    hj = [r for r in seen if r["ex"] == j and not r.get("refused")]
                    if rj is None:
                        fate = "no caller record"
                    elif rj["done"]:
                        fate = (f"its caller got status {rj['status']} (handler was to send {exchanges[j]['resp']['status']}) after "
                                f"{rj['end_t'] - rj['start_t']:.1f} virtual s")
                    elif rj["error"]:
                        fate = f"its caller got {rj['error']} after {rj['end_t'] - rj['start_t']:.1f} virtual s"
                    else:
                        fate = "its caller is still waiting"
                    fate += (f"; the handler saw it {len(hj)} time(s)"
                             + (f" as (connection, method) {[(r['conn'], r['method']) for r in hj]}, sent method {exchanges[j]['req']['method'].upper()!r}" if hj else ""))
                    poisoned(j)
                    poison["incl"] = min(poison.get("incl", len(exchanges)), j)  # exchange j itself is already a victim
                    reuse_after_refusal.add((sg["ex"], fr_))
                    reuse_conns.add(sg["conn"])
                    violate("expect_refused", f"next_request_written_after_unsent_body:{fr_}",
                            f"exchange {sg['ex']} ({rq['method']} body={rq['body']['kind']} chunked={rq['chunked']!r} expect100=True) was "
                            f"answered {results[sg['ex']]['status'] if sg['ex'] < len(results) else None} by the route's expect_handler "
                            f"without '100 Continue'; the client had written the head (framing {fr_}, "
                            f"{'Content-Length ' + declared if fr_ == 'content_length' else 'Transfer-Encoding chunked'}) and {nbody} body bytes, "
                            f"did not close connection {sg['conn']} and wrote the head of exchange {j} to it, which the server "
                            f"takes as the missing body; exchange {j}: {fate}")
            # An early answer (the handler did not read the whole body): once the final response is there the client may
            # stop sending (RFC 9112 9.3 / 9.6: then it has to close the connection), so fewer bytes than announced are
            # no framing error; but the incomplete message ends the connection's use - whatever is written next would
            # be taken by the server as the rest of that body.
            early_sg = early_mode(rq) is not None and not refused_sg
            if early_sg:
                unsent, fr_ = request_body_unsent(hd, sg["body"])
                sg["early_unsent"] = bool(unsent)
                nx = sg["next"]
                if unsent and nx is not None and not any_fault_early():
                    j = nx["ex"]
                    poisoned(j)
                    poison["incl"] = min(poison.get("incl", len(exchanges)), j)
                    reuse_conns.add(sg["conn"])
                    violate("keepalive_agreement", f"request_written_after_incomplete_request_body:{fr_}",
                            f"exchange {sg['ex']} ({rq['method']} body={rq['body']['kind']} chunked={rq['chunked']!r} compress={rq['compress']!r} "
                            f"expect100={rq['expect100']}) was answered {results[sg['ex']]['status'] if sg['ex'] < len(results) else None} "
                            f"by a handler that read {early_mode(rq)} body bytes; the client had written the head (framing {fr_}, "
                            f"{'Content-Length ' + declared if fr_ == 'content_length' else 'Transfer-Encoding chunked'}) and {nbody} "
                            f"bytes after it - not a complete body -, did not close connection {sg['conn']} and wrote the head of "
                            f"exchange {j} to it, which the server takes as the rest of that body")
            if "content-length" in hd and "transfer-encoding" not in hd and rq["compress"] is None and declared.isdigit() \
                    and (nbody > int(declared) or (done and not any_fault_early() and last_seg[sg["ex"]] is sg and nbody != int(declared)
                                                   and not refused_sg and not early_sg)):
                poisoned(sg["ex"])
                violate("request_framing", f"content_length_vs_bytes_written:{ck}",
                        f"exchange {sg['ex']} ({rq['method']} body={rq['body']['kind']} chunked={rq['chunked']!r}): request head declares "
                        f"Content-Length {hd['content-length']!r} without Transfer-Encoding but the client wrote {nbody} body "
                        f"bytes: {_short(bytes(sg['body'][:60]))}")
            te_cls = "te_spelled_by_caller:" + ("sized_body" if rq["body"]["kind"] in ("bytes", "bytearray", "str", "bio") else rq["body"]["kind"]) \
                if caller_te(rq) else ck
            if "transfer-encoding" in hd and "content-length" in hd:
                # RFC 9112 6.2: a sender MUST NOT send Content-Length in a message that contains Transfer-Encoding (the
                # receiver lets Transfer-Encoding win, 6.3, or rejects the message)
                poisoned(sg["ex"])
                violate("request_framing", f"content_length_beside_transfer_encoding:{te_cls}",
                        f"exchange {sg['ex']} ({rq['method']} body={rq['body']['kind']} chunked={rq['chunked']!r} compress={rq['compress']!r}; "
                        f"caller's headers= {[h for h in rq['headers'] if h[0].lower() in ('transfer-encoding', 'content-length')]}): the "
                        f"request head carries Transfer-Encoding {hd['transfer-encoding']!r} AND Content-Length {hd['content-length']!r}; "
                        f"{nbody} bytes follow the head: {_short(bytes(sg['body'][:60]))}"
                        + ("" if chunked_complete(bytes(sg["body"])) else " - not chunked framing, which the Transfer-Encoding field announces")
                        + f"; the caller got {results[sg['ex']]['status'] if sg['ex'] < len(results) else None}")
            elif "transfer-encoding" in hd and done and not any_fault_early() and last_seg[sg["ex"]] is sg and not refused_sg \
                    and not early_sg and not chunked_complete(bytes(sg["body"])):
                poisoned(sg["ex"])
                violate("request_framing", f"transfer_encoding_chunked_vs_bytes_written:{te_cls}",
                        f"exchange {sg['ex']} ({rq['method']} body={rq['body']['kind']} chunked={rq['chunked']!r}): request head announces "
                        f"Transfer-Encoding {hd['transfer-encoding']!r} but the {nbody} bytes the client wrote behind it are not a "
                        f"complete chunked body: {_short(bytes(sg['body'][:60]))}")
            if rq["method"].upper() == "HEAD" and (hd.get("content-length", ["0"]) != ["0"] or "transfer-encoding" in hd):
                # a HEAD request that carries body framing: the server must consume the body like any other
                # (C02-F5 / C01-F1, repaired in the repository; the connection is no longer treated as poisoned)
                head_body_dropped.add(sg["ex"])
            if "content-length" not in hd and "transfer-encoding" not in hd and sg["body"]:
                poisoned(sg["ex"])
                violate("request_framing", f"body_bytes_without_framing_header:{ck}",
                        f"exchange {sg['ex']} ({rq['method']} body={rq['body']['kind']} chunked={rq['chunked']!r}): request head has neither "
                        f"Content-Length nor Transfer-Encoding but the client wrote {nbody} bytes after it: "
                        f"{_short(bytes(sg['body'][:60]))}")

        # ------------------------------------------------------------------ round trip: request side
        def check_request(rec):
            i = rec["ex"]
            rq = exchanges[i]["req"]
            tag = f"exchange {i} ({rq['method']} body={rq['body']['kind']} v{scn['version']})"
            exp_method = rq["method"].upper()
            if rec["method"] != exp_method:
                violate("request_roundtrip", "method", f"{tag}: handler saw method {rec['method']!r}, sent {exp_method!r}")
            if rec["version"] != version_t:
                violate("request_roundtrip", "version", f"{tag}: handler saw HTTP version {rec['version']}, session uses {version_t}")
            _, epath, equery = build_target(rq)
            if rq["params"] is not None and equery is not None:
                equery = equery + [tuple(x) for x in rq["params"]]
            if epath is not None and "path_error" not in rec:
                if rec["path"] != epath:
                    violate("request_roundtrip", "path", f"{tag}: handler saw path {rec['path']!r}, expected {epath!r}")
                if [tuple(x) for x in rec["query"]] != equery:
                    violate("request_roundtrip", "query", f"{tag}: handler saw query {rec['query']!r}, expected {equery!r}")
            elif epath is not None:
                violate("request_roundtrip", "path_undecodable", f"{tag}: {rec['path_error']}")
            # the raw target the handler reports is the one on the wire, without fragment
            for n, _m, target, _v, _h in req_lines.get(i, []):
                if n == rec["conn"]:
                    if rec["raw_path"].encode("utf-8", "surrogateescape") != target:
                        violate("request_roundtrip", "raw_target",
                                f"{tag}: handler raw_path {rec['raw_path']!r} differs from the request-target on the wire {target!r}")
                    if b"#" in target:
                        violate("request_roundtrip", "fragment_sent", f"{tag}: fragment sent on the wire: {target!r}")
            got = hdr_groups(rec["headers"])
            req_pairs, sess_pairs, spec = expected_request_fields(scn, i, rq)
            skip = {s.lower() for s in (rq["skip_auto"] or [])}
            for name, vals in spec.items():
                if name == "cookie":
                    continue
                if got.get(name) != vals:
                    mcls = header_merge_class(name, req_pairs, sess_pairs)
                    if mcls is not None:
                        # one of the session-default / letter-case situations: its own class of failure
                        violate("request_roundtrip", f"header_merge:{mcls}:{header_symptom(vals, got.get(name))}",
                                f"{tag}: session defaults {_short(sess_pairs)} ({(scn.get('session_headers') or {}).get('form')}), "
                                f"per-request headers {_short([p for p in req_pairs if p[0].lower() == name])} "
                                f"({rq.get('headers_form') or 'list'}): field {name!r} must arrive as {_short(vals)} but the handler "
                                f"saw {_short(got.get(name))}")
                        continue
                    violate("request_roundtrip", "header_value:" + (name if name in AUTO_REQ else "custom"),
                            f"{tag}: header {name!r} sent {_short(vals)} but handler saw {_short(got.get(name))}")
            for name in got:
                if name not in spec and name not in AUTO_REQ:
                    violate("request_roundtrip", "header_unexpected", f"{tag}: handler saw header {name!r}={_short(got[name])} that was never sent")
            _check_combined(violate, "request_roundtrip", tag, got, rec["combined"])
            body = rq["body"]
            has_data = body["kind"] != "none"
            # auto headers: documented defaults only
            if "host" not in spec:
                eh = host_expect + ("" if port == 80 else f":{port}")
                if got.get("host") != [eh]:
                    violate("request_roundtrip", "auto_header:host", f"{tag}: Host {got.get('host')!r}, expected {[eh]!r}")
            for name, default in (("user-agent", SERVER_SOFTWARE), ("accept", "*/*"), ("accept-encoding", None)):
                if name in spec:
                    continue
                if name in skip:
                    if name in got:
                        violate("request_roundtrip", "auto_header:skipped_but_sent", f"{tag}: {name} in skip_auto_headers but sent: {got[name]!r}")
                elif name not in got or len(got[name]) != 1 or (default is not None and got[name] != [default]) or not got[name][0]:
                    violate("request_roundtrip", "auto_header:" + name, f"{tag}: auto header {name} is {got.get(name)!r}")
            if "expect" not in spec and ("expect" in got) != bool(rq["expect100"]):
                violate("request_roundtrip", "auto_header:expect", f"{tag}: Expect {got.get('expect')!r} with expect100={rq['expect100']}")
            if "content-type" not in spec:
                ect = req_default_ctype(rq)
                gct = got.get("content-type")
                if "content-type" in skip:
                    if gct is not None:
                        violate("request_roundtrip", "auto_header:skipped_but_sent", f"{tag}: Content-Type skipped but sent {gct!r}")
                elif ect is None:
                    if gct is not None:
                        violate("request_roundtrip", "auto_header:content-type", f"{tag}: unexpected Content-Type {gct!r}")
                elif gct is None or len(gct) != 1 or not (gct[0] == ect or (ect.endswith("boundary=") and gct[0].startswith(ect))):
                    violate("request_roundtrip", "auto_header:content-type", f"{tag}: Content-Type {gct!r}, expected {ect!r}")
            exp_ce = None
            if rq["compress"] and has_data:
                exp_ce = "deflate" if rq["compress"] is True else rq["compress"]
            # compress= with empty bytes/str: the client skips the coding ("if not data"), but a retried request is
            # rebuilt from the Payload object and then carries it; nothing documents either, both are accepted
            if "content-encoding" not in spec and got.get("content-encoding") != ([exp_ce] if exp_ce else None) \
                    and not (_falsy_data(body) and got.get("content-encoding") is None):
                violate("request_roundtrip", "auto_header:content-encoding",
                        f"{tag}: Content-Encoding {got.get('content-encoding')!r}, expected {exp_ce!r} (compress={rq['compress']!r})")
            te, cl = got.get("transfer-encoding"), got.get("content-length")
            if te is not None and (te != ["chunked"] or cl is not None):
                violate("request_roundtrip", "framing_headers", f"{tag}: Transfer-Encoding {te!r} with Content-Length {cl!r}")
            # cookies
            exp_cookies = dict(rq["cookies"] or {})
            if not scn["client"]["dummy_jar"]:
                for j in range(i):
                    rj = results[j] if j < len(results) else None
                    if rj is not None and rj["status"] is not None and not is_refused(scn, exchanges[j]["req"]):
                        for name, val in exchanges[j]["resp"]["set_cookies"]:
                            exp_cookies.setdefault(name, val) if name in (rq["cookies"] or {}) else exp_cookies.__setitem__(name, val)
            if "cookie" not in spec:
                if rec["cookies"] != exp_cookies:
                    violate("request_roundtrip", "cookies", f"{tag}: handler saw cookies {rec['cookies']!r}, expected {exp_cookies!r}; "
                            f"Cookie header {got.get('cookie')!r}")
            if rec.get("prefix") is not None:
                # the handler answered after reading only the first bytes of the body: those must be the first bytes sent
                want_n = early_mode(rq)
                exp_ = req_body_bytes(body)
                if exp_ is not None and rec["prefix"] != exp_[:want_n]:
                    violate("request_roundtrip", "body_prefix:" + body["kind"],
                            f"{tag}: handler asked for the first {want_n} body bytes and read {len(rec['prefix'])}, expected "
                            f"{len(exp_[:want_n])}; {_diff(rec['prefix'], exp_[:want_n])}; chunked={rq['chunked']!r} "
                            f"compress={rq['compress']!r} expect100={rq['expect100']}")
            if not rec["done"]:
                return
            # body
            raw = rec["body"]
            if cl is not None and te is None and got.get("content-encoding") is None and cl != [str(len(raw))]:
                violate("request_roundtrip", "content_length_vs_body", f"{tag}: Content-Length {cl!r} but handler read {len(raw)} bytes")
            exp = req_body_bytes(body)
            kind = body["kind"]
            if exp is not None:
                r_ = results[i] if i < len(results) else None
                if raw != exp and kind == "rawio" and len(raw) < len(exp) and exp.endswith(raw) and r_ is not None and any(
                        n_ != rec["conn"] and o_.get("c_lost") is not None and r_["start_step"] <= o_["c_lost"] <= rec["step"]
                        for n_, o_ in conns.items()):
                    # its own class: the client lost the connection it was sending this request on, sent the request
                    # again on another one, and the copy that arrived lacks the front of the body - the bytes the first
                    # attempt had taken from the (unseekable) source
                    violate("request_roundtrip", "body:rawio:front_lost_when_resent_after_connection_loss",
                            f"{tag}: the connection first used was lost during the exchange (step "
                            f"{[o_['c_lost'] for n_, o_ in sorted(conns.items()) if n_ != rec['conn'] and o_.get('c_lost') is not None and r_['start_step'] <= o_['c_lost'] <= rec['step']]}), the "
                            f"client sent the request again on connection {rec['conn']} and the handler read {len(raw)} bytes, the last "
                            f"{len(raw)} of the {len(exp)} the source yields: the front was consumed by the first attempt and the "
                            f"caller got no error; source read caps {body['caps']} wrap={body.get('wrap')} chunked={rq['chunked']!r} "
                            f"compress={rq['compress']!r}")
                elif raw != exp and kind == "rawio" and r_ is not None and _one_piece_missing(raw, exp, body) is not None and any(
                        n_ != rec["conn"] and o_.get("c_lost") is not None and r_["start_step"] <= o_["c_lost"] <= rec["step"]
                        for n_, o_ in conns.items()):
                    # the same circumstances (connection lost during the exchange, request sent again on another one from
                    # the same unseekable source), but the read job orphaned by the first attempt ran after some reads
                    # of the second attempt: what it took - one read's worth - is missing from the middle of the body
                    a_, l_ = _one_piece_missing(raw, exp, body)
                    violate("request_roundtrip", "body:rawio:piece_lost_when_resent_after_connection_loss",
                            f"{tag}: the connection first used was lost during the exchange (step "
                            f"{[o_['c_lost'] for n_, o_ in sorted(conns.items()) if n_ != rec['conn'] and o_.get('c_lost') is not None and r_['start_step'] <= o_['c_lost'] <= rec['step']]}), the "
                            f"client sent the request again on connection {rec['conn']} and the handler read {len(raw)} of the {len(exp)} "
                            f"bytes the source yields: bytes [{a_}:{a_ + l_}] (one read of the source, taken by the read job the first "
                            f"attempt left behind) are missing between otherwise intact data and the caller got no error; source read "
                            f"caps {body['caps']} wrap={body.get('wrap')} chunked={rq['chunked']!r} compress={rq['compress']!r}")
                elif raw != exp:
                    violate("request_roundtrip", "body:" + kind, f"{tag}: handler read {len(raw)} bytes, expected {len(exp)}; {_diff(raw, exp)}; "
                            f"chunked={rq['chunked']!r} compress={rq['compress']!r} expect100={rq['expect100']}"
                            + (f"; source read caps {body['caps']} wrap={body.get('wrap')}" if kind == "rawio" else ""))
            elif kind in ("form_url", "dict"):
                try:
                    pairs = urllib.parse.parse_qsl(raw.decode("ascii"), keep_blank_values=True, strict_parsing=bool(raw),
                                                   encoding="utf-8", errors="strict")
                except (ValueError, UnicodeError) as e:
                    pairs = repr(e)
                if pairs != [tuple(f) for f in body["fields"]]:
                    violate("request_roundtrip", "body:" + kind, f"{tag}: urlencoded body decodes to {_short(pairs)}, fields sent {_short(body['fields'])}")
            elif kind == "form_multi" and "content-type" in skip and "content-type" not in spec:
                pass  # the caller suppressed the header that carries the boundary
            elif kind == "form_multi":
                ct = (got.get("content-type") or [""])[0]
                parts = parse_multipart(ct, raw) if ct.startswith("multipart/form-data") else None
                want = [(k, None, v.encode("utf-8")) for k, v in body["fields"]]
                f = body["file"]
                want.append((f["name"], f["filename"], bbytes(body["k"], f["size"])))
                have = None if parts is None else [(p["name"], p["filename"] and urllib.parse.unquote(p["filename"]), p["data"]) for p in parts]
                if have != want:
                    violate("request_roundtrip", "body:form_multi",
                            f"{tag}: multipart body decodes to {_short(have)}, expected {_short(want)} (Content-Type {ct!r})")
                elif f["ctype"] and parts[-1]["ctype"] != f["ctype"]:
                    violate("request_roundtrip", "body:form_multi_ctype", f"{tag}: file part type {parts[-1]['ctype']!r}, expected {f['ctype']!r}")

        # ------------------------------------------------------------------ round trip: response side
        def check_response(res, req_accept_enc):
            i = res["i"]
            ex = exchanges[i]
            rq, rs = ex["req"], ex["resp"]
            b = rs["body"]
            tag = (f"exchange {i} ({rq['method']} -> {rs['status']} body={b['kind']} chunked={rs['chunked']} "
                   f"compress={rs['compress']} v{scn['version']})")
            # A Range request answered by FileResponse: the handler's response stands for the file; which part of it is
            # selected (status, Content-Range, slice) is decided by RFC 9110 13.1.5/14 (ref/static.py)
            rexp = file_range_expect(rq, rs)
            if rexp == "unjudged":
                return
            exp_status, exp_slice = rs["status"], None
            if rexp is not None:
                state["range_judged"] = state.get("range_judged", 0) + 1
                fsize = b["size"]
                okinds = {o.kind for o in rexp.outcomes}
                rvals = [v for n_, v in rq["headers"] if n_.lower() in ("range", "if-range")]
                crs = hdr_groups(res["headers"]).get("content-range")
                rtag = (f"{tag}: Range/If-Range {rvals!r} on a {fsize}-byte file (chunk_size {b['chunk_size']}; case "
                        f"{rexp.cls}, acceptable {rexp.outcomes})")
                st_ = res["status"]
                if st_ == 200 and "full" in okinds:
                    exp_slice = (0, fsize)
                    if crs is not None:
                        violate("response_roundtrip", "range:content_range_on_200", f"{rtag}: 200 with Content-Range {crs!r}")
                elif st_ == 206 and "partial" in okinds:
                    m_ = _CONTENT_RANGE.fullmatch(crs[0]) if crs is not None and len(crs) == 1 else None
                    if m_ is None or int(m_.group(3)) != fsize or not int(m_.group(1)) <= int(m_.group(2)) < fsize:
                        violate("response_roundtrip", f"range:content_range_invalid:{rexp.key_cls}",
                                f"{rtag}: 206 with Content-Range {crs!r}, which is not a range of that file")
                        return
                    exp_slice = (int(m_.group(1)), int(m_.group(2)) + 1)
                    if not any(o.kind == "partial" and (o.start, o.end) == exp_slice for o in rexp.outcomes):
                        violate("response_roundtrip", f"range:wrong_slice:{rexp.key_cls}",
                                f"{rtag}: 206 with Content-Range {crs!r}, not the range that was asked for")
                        return
                    state["range_206"] = state.get("range_206", 0) + 1
                elif st_ == 416 and "unsat" in okinds:
                    if crs is not None and crs != [f"bytes */{fsize}"]:
                        violate("response_roundtrip", "range:content_range_on_416", f"{rtag}: 416 with Content-Range {crs!r}")
                else:
                    violate("response_roundtrip", f"range:status:{st_}_for_{rexp.key_cls}",
                            f"{rtag}: caller saw status {st_} {res.get('reason')!r}; body head {_short(res.get('body'))}")
                    return
                exp_status = st_
            if res["status"] != exp_status:
                violate("response_roundtrip", f"status:{res['status']}_for_{_status_class(rs['status'], b, rq, rs)}",
                        f"{tag}: caller saw status {res['status']} {res.get('reason')!r}, handler returned {rs['status']}; "
                        f"body head {_short(res.get('body'))}")
                return
            ereason = rs["reason"] if rs["reason"] is not None and exp_status == rs["status"] else reason_default(exp_status)
            if res["reason"] != ereason.strip():
                violate("response_roundtrip", "reason", f"{tag}: caller saw reason {res['reason']!r}, expected {ereason!r}")
            if res["version"] != version_t:
                violate("response_roundtrip", "version", f"{tag}: response version {res['version']}, session uses {version_t}")
            got = hdr_groups(res["headers"])
            spec_pairs = [("X-Resp", str(i))] + [tuple(h) for h in rs["headers"]]
            applied = next((r.get("conn_hdr") for r in reversed(handled_ex.get(i, [])) if r.get("conn_hdr")), None)
            if applied:
                spec_pairs.append(("Connection", applied))
            spec = hdr_groups(spec_pairs)
            for name, vals in spec.items():
                if got.get(name) != vals:
                    violate("response_roundtrip", "header_value:" + (name if name in AUTO_RESP else "custom"),
                            f"{tag}: header {name!r} set to {_short(vals)} but caller saw {_short(got.get(name))}")
            _check_combined(violate, "response_roundtrip", tag, got, res["combined"])
            allowed = AUTO_RESP | (AUTO_RESP_FILE if b["kind"] == "file" else set()) | ({"content-range"} if rexp is not None else set())
            for name in got:
                if name not in spec and name not in allowed:
                    violate("response_roundtrip", "header_unexpected", f"{tag}: caller saw header {name!r}={_short(got[name])} the handler never set")
            want_cookies = {}
            for name, val in rs["set_cookies"]:
                want_cookies[name] = val
            if res["cookies"] != want_cookies:
                violate("response_roundtrip", "cookies", f"{tag}: caller saw cookies {res['cookies']!r}, handler set {want_cookies!r}")
            bodyless = rq["method"].upper() == "HEAD" or exp_status in (204, 304)
            body = res["body"]
            ce = got.get("content-encoding")
            exp = b"" if bodyless else resp_body_bytes(b)
            if rexp is not None and not bodyless:
                if exp_slice is None:
                    return  # 416: the representation of the error is the server's own; nothing of the file may be judged
                exp = exp[exp_slice[0]:exp_slice[1]]
            # which content-coding may the server have applied
            if rs["compress"] is None or rs["compress"] == "identity":
                if ce is not None and "content-encoding" not in spec:
                    violate("response_roundtrip", "content_encoding_unasked", f"{tag}: Content-Encoding {ce!r} without enable_compression")
            elif ce is not None and "content-encoding" not in spec:
                if len(ce) != 1 or ce[0] not in ("gzip", "deflate"):
                    violate("response_roundtrip", "content_encoding_value", f"{tag}: Content-Encoding {ce!r}")
                elif rs["compress"] in ("gzip", "deflate") and ce[0] != rs["compress"]:
                    violate("response_roundtrip", "content_encoding_value", f"{tag}: forced {rs['compress']} but Content-Encoding {ce!r}")
                elif rs["compress"] == "auto" and ce[0] not in (req_accept_enc or "").lower():
                    violate("response_roundtrip", "content_encoding_not_accepted",
                            f"{tag}: Content-Encoding {ce!r} not offered in Accept-Encoding {req_accept_enc!r}")
            if ce and not bodyless and not scn["client"]["auto_decompress"] and "content-encoding" not in spec and body:
                # caller asked for the raw representation: decode it independently
                try:
                    body = zlib.decompress(body, 16 + zlib.MAX_WBITS) if ce[0] == "gzip" else _inflate(body)
                except zlib.error as e:
                    if any_fault and "content-length" not in got and "transfer-encoding" not in got:
                        # close-delimited and cut by the injected fault: decode what is there
                        d_ = zlib.decompressobj(16 + zlib.MAX_WBITS if ce[0] == "gzip" else zlib.MAX_WBITS)
                        try:
                            body = d_.decompress(body)
                        except zlib.error:
                            body = b""
                    else:
                        violate("response_roundtrip", "body_undecodable", f"{tag}: raw {ce[0]} body does not decode: {e}")
                        return
            # a close-delimited body cut by an injected clean EOF cannot be told from a complete one (inherent to the
            # framing, RFC 9112 6.3-8): a prefix is then all that can be asked for
            cut_ok = (any_fault and scn["reset"] is not None and scn["reset"]["kind"] == "eof"
                      and "content-length" not in got and "transfer-encoding" not in got and exp.startswith(body))
            reset_cut = (any_fault and scn["reset"] is not None and scn["reset"]["kind"] in ("reset", "peer_reset")
                         and "content-length" not in got and "transfer-encoding" not in got and exp.startswith(body) and body != exp)
            if reset_cut:
                violate("response_roundtrip", "close_delimited_body_cut_by_reset_reported_complete",
                        f"{tag}: the connection was reset (connection_lost(ConnectionResetError)) after {len(body)} of {len(exp)} body "
                        f"bytes of a close-delimited response, yet the caller got the truncated body without any error")
            elif body != exp and not cut_ok:
                violate("response_roundtrip", "body:" + ("bodyless" if bodyless else b["kind"]) + (":range" if rexp is not None else "")
                        + (":compressed" if ce else ""),
                        f"{tag}: caller read {len(body)} bytes, expected {len(exp)}; {_diff(body, exp)}; "
                        f"Content-Encoding={ce!r} Content-Length={got.get('content-length')!r} TE={got.get('transfer-encoding')!r}"
                        + (f"; Range/If-Range {[v for n_, v in rq['headers'] if n_.lower() in ('range', 'if-range')]!r}, "
                           f"Content-Range {got.get('content-range')!r}, chunk_size {b['chunk_size']}" if rexp is not None else "")
                        + (f"; source read caps {b['caps']} wrap={b.get('wrap')}" if b["kind"] == "rawio" else ""))
            cl = got.get("content-length")
            if cl is not None and not bodyless and not ce and cl != [str(len(exp))]:
                violate("response_roundtrip", "content_length_vs_body", f"{tag}: Content-Length {cl!r}, body has {len(exp)} bytes")

        # ------------------------------------------------------------------ round trip: a refused expectation
        def check_refusal(res, recs):
            """(a) of the refused-expectation rule: the caller sees exactly the final response the route's
            expect_handler gave, and the route handler never ran for this request."""
            i = res["i"]
            rq = exchanges[i]["req"]
            xr = rq["expect_refuse"]
            tag = f"exchange {i} ({rq['method']} body={rq['body']['kind']} expect100 refused by {xr['how']} {xr['status']} close={xr['close']})"
            if any(not r.get("refused") for r in recs):
                violate("expect_refused", "route_handler_ran_after_refusal", f"{tag}: the route handler ran although the expect_handler "
                        f"answered the request itself")
            if res["status"] != xr["status"]:
                violate("expect_refused", f"refusal_response:status:{res['status']}_for_{xr['status']}",
                        f"{tag}: caller saw status {res['status']} {res.get('reason')!r}; body head {_short(res.get('body'))}")
                return
            if res["reason"] != reason_default(xr["status"]):
                violate("expect_refused", "refusal_response:reason", f"{tag}: caller saw reason {res['reason']!r}")
            if res["version"] != version_t:
                violate("expect_refused", "refusal_response:version", f"{tag}: response version {res['version']}")
            got = hdr_groups(res["headers"])
            spec = {"x-refused": [str(i)]}
            if xr["close"]:
                spec["connection"] = ["close"]
            for name, vals in spec.items():
                if got.get(name) != vals:
                    violate("expect_refused", "refusal_response:header_value:" + name,
                            f"{tag}: header {name!r} set to {vals!r} but caller saw {_short(got.get(name))}")
            _check_combined(violate, "expect_refused", tag, got, res["combined"])
            for name in got:
                if name not in spec and name not in AUTO_RESP:
                    violate("expect_refused", "refusal_response:header_unexpected", f"{tag}: caller saw header {name!r}={_short(got[name])}")
            if got.get("content-type") != ["text/plain; charset=utf-8"]:
                violate("expect_refused", "refusal_response:content_type", f"{tag}: Content-Type {got.get('content-type')!r}")
            if res["cookies"]:
                violate("expect_refused", "refusal_response:cookies", f"{tag}: caller saw cookies {res['cookies']!r}")
            exp = b"" if rq["method"].upper() == "HEAD" else refusal_body(i)
            if res["body"] != exp:
                violate("expect_refused", "refusal_response:body", f"{tag}: caller read {len(res['body'])} bytes, expected {len(exp)}; "
                        f"{_diff(res['body'], exp)}")

        # ------------------------------------------------------------------ judge
        any_fault = fault_fired or any(c["killed"] for c in conns.values())
        timer_closed = {n for n, c in conns.items() if c["s_close"] and c["s_close"]["cause"] == "timer"}
        # server wire output per connection, cut independently
        wire_resps = {}
        for n in sorted(conns):
            c = conns[n]
            methods = [r["method"].upper().encode("latin-1") for r in c["handled"]]
            closed = c["str"]._closed or c["str"]._closing
            rsps, rest = http1.split_responses(bytes(s_out.get(n, b"")), methods=methods, closed=closed)
            wire_resps[n] = (rsps, rest)
            finals = [r for r in rsps if not r.get("interim")]
            if any_fault or n in reuse_conns:
                continue
            if isinstance(rest, tuple) and rest[0] == "malformed" or (rest == "partial" and not blocked and c["finished"] == len(c["handled"])
                                                                      and not (rsps and rsps[-1]["framing"] == "eof")):
                # stray bytes: do they follow a response that must not have a body?
                done_r = [r for r in rsps if r["complete"]]
                kf = len([r for r in done_r if not r.get("interim")]) - 1
                cls = None
                if done_r and done_r[-1]["framing"] == "none" and 0 <= kf < len(c["handled"]) and c["handled"][kf]["ex"] is not None:
                    hrec = c["handled"][kf]
                    rs_ = exchanges[hrec["ex"]]["resp"]
                    why = "HEAD" if hrec["method"] == "HEAD" else str(done_r[-1]["status"])
                    ce_ = any(a.lower() == b"content-encoding" for a, _ in done_r[-1]["headers"])
                    if rs_["body"]["kind"] == "stream" and resp_body_bytes(rs_["body"]):
                        cls = f"{why}:stream_write"
                    elif ce_ and rs_["compress"]:
                        cls = f"{why}:compress_trailer"
                    else:
                        cls = f"{why}:other"
                over = None
                if cls is None and done_r and done_r[-1]["framing"] == "length" and 0 <= kf < len(c["handled"]) \
                        and c["handled"][kf]["ex"] is not None and c["handled"][kf].get("overrun"):
                    over = c["handled"][kf]
                if over is not None:
                    # stray bytes behind a complete response whose producer yielded more than the length it announced
                    ob_ = exchanges[over["ex"]]["resp"]["body"]
                    violate("wire_well_formed", f"bytes_after_declared_content_length:{ob_['kind']}",
                            f"connection {n}: the response to exchange {over['ex']} ({over['method']} -> {done_r[-1]['status']}, handler "
                            f"body={ob_['kind']}) announces Content-Length {done_r[-1].get('declared', len(done_r[-1]['body']))}; its producer "
                            f"yielded pieces {[len(x) for x in producer_pieces(ob_, resp_body_bytes(ob_))]} (eof_data={ob_.get('eof_data')}), "
                            f"{sum(ob_['surplus'])} bytes more than announced, and bytes follow the complete message on the wire, where "
                            f"the client reads them as the start of the next response ({rest}): "
                            f"{bytes(s_out.get(n, b''))[done_r[-1]['end']:done_r[-1]['end'] + 60]!r}")
                elif cls is not None:
                    poisoned(hrec["ex"])
                    violate("wire_well_formed", f"body_bytes_after_bodyless_response:{cls}",
                            f"connection {n}: the response to exchange {hrec['ex']} ({hrec['method']} -> {done_r[-1]['status']}, handler "
                            f"body={rs_['body']['kind']} compress={rs_['compress']}) must not have a body, yet bytes follow its header block "
                            f"on the wire and are read by the client as the start of the next response: "
                            f"{bytes(s_out.get(n, b''))[done_r[-1]['end']:done_r[-1]['end'] + 40]!r}")
                else:
                    violate("wire_well_formed", "server_output_malformed",
                            f"connection {n}: server output is not a sequence of well-formed responses: {rest}; "
                            f"tail {bytes(s_out.get(n, b''))[-80:]!r}")
            elif sum(1 for r in finals if r["complete"]) > len(c["handled"]) and not server_errors \
                    and all(r["ex"] is not None and r["ex"] < poison["from"] for r in c["handled"]) \
                    and not any(e_ >= poison["from"] for _, e_ in writes.get(n, [])):
                # every request that reached a handler (or the expect handler) on this connection was answered once,
                # and the server wrote more final responses than that
                fc_ = [r for r in finals if r["complete"]]
                violate("wire_well_formed", "more_responses_than_requests",
                        f"connection {n}: {len(c['handled'])} request(s) were handled (exchanges {[r['ex'] for r in c['handled']]}) but the "
                        f"server output holds {len(fc_)} complete final responses (status {[r['status'] for r in fc_]}); the "
                        f"extra one starts {bytes(s_out.get(n, b''))[fc_[len(c['handled'])]['start']:fc_[len(c['handled'])]['start'] + 60]!r}"
                        + ("; a handler on this connection yielded more body bytes than the Content-Length it announced"
                           if any(r.get("overrun") for r in c["handled"]) else ""))
            c["finals"] = finals

        for i_ in sorted(head_body_dropped):
            recs_ = [r for r in seen if r["ex"] == i_ and r["done"]]
            if exchanges[i_]["req"]["body"].get("size", 0) > 0 and any(not r["body"] for r in recs_) and i_ <= poison["from"]:
                rq_ = exchanges[i_]["req"]
                violate("request_roundtrip", "head_request_body_dropped",
                        f"exchange {i_}: HEAD request sent with a {rq_['body']['kind']} body (framed by "
                        f"{'Transfer-Encoding: chunked' if rq_['chunked'] or rq_['body']['kind'] == 'agen' else 'Content-Length'}); the handler "
                        f"read {[len(r['body']) for r in recs_]} bytes and the body bytes were parsed as the next request on the connection")
        for rec in seen:
            if rec["ex"] is None:
                if not any_fault and poison["from"] == len(exchanges) and not server_errors:
                    violate("request_roundtrip", "exchange_id_lost",
                            f"handler got a request without a usable X-Ex header: {rec['method']} {rec['raw_path']!r} {_short(rec['headers'])}")
                continue
            if any_fault and not rec["done"] or rec["ex"] >= poison["from"]:
                continue
            check_request(rec)
        handled_ex = {}
        for rec in seen:
            if rec["ex"] is not None:
                handled_ex.setdefault(rec["ex"], []).append(rec)

        def excused_by_timer(i):
            """failure of exchange i explained by the inherent idle-timer race"""
            for n, wl in writes.items():
                if any(e == i for _, e in wl):
                    sc, cc = conns[n]["s_close"], conns[n]["c_close"]
                    if sc and sc["cause"] == "timer":
                        return True
            # the head may still have been buffered (body being compressed / awaited) when the idle timer's FIN arrived
            r_ = results[i]
            for n, c_ in conns.items():
                sc, cc = c_["s_close"], c_["c_close"]
                if sc and sc["cause"] == "timer" and cc and cc["cause"] == "peer" \
                        and r_["start_step"] <= cc["step"] <= r_.get("end_step", loop.steps):
                    return True
            return False

        if not any_fault:
            for msg_, cause_, rep_, ex_ in server_errors:
                if ex_ is None or ex_ >= poison["from"]:
                    continue
                if cause_.startswith("TransferEncodingError@") and any(f_ == "chunked" for _, f_ in reuse_after_refusal):
                    # the server, discarding the chunked body it was announced (lingering), reads the next request's
                    # head as a chunk size: the consequence of expect_refused/next_request_written_after_unsent_body
                    # (last_ex is session-wide, so the exchange logged with it may be another connection's)
                    continue
                poisoned(ex_)
                violate("server_exception", f"{cause_}", f"the server could only log an exception instead of answering: {msg_}: {rep_} (root {cause_})")
        def stale_drain_msg(i_, res_):
            rq_ = exchanges[i_]["req"]
            return (f"exchange {i_} ({rq_['method']} body={rq_['body']['kind']} chunked={rq_['chunked']!r} compress={rq_['compress']!r} "
                    f"expect100={rq_['expect100']} v{scn['version']}) "
                    + (f"failed without any fault: {res_.get('error_msg')} root cause {res_.get('error_cause')}" if res_["error"] else
                       f"still blocked after {horizon:.0f} virtual seconds without any fault")
                    + "; its head was written to a reused connection whose client protocol still held a *cancelled* drain future "
                      "(left by the previous request's writer, cancelled in drain() when its early answer completed) while the "
                      "transport was write-paused: the new request's writer awaits that future and is 'cancelled' by it")

        f4_seen = False
        for res in results:
            i = res["i"]
            rq, rs = exchanges[i]["req"], exchanges[i]["resp"]
            if i >= poison["from"]:
                continue
            if res["done"]:
                recs = handled_ex.get(i, [])
                ae = None
                if recs:
                    ae = ", ".join(hdr_groups(recs[-1]["headers"]).get("accept-encoding", []))
                if not recs and not any_fault:
                    violate("response_roundtrip", "response_without_handler", f"exchange {i}: caller got {res['status']} but no handler ran for it")
                    continue
                if is_refused(scn, rq):
                    check_refusal(res, recs)
                    continue
                check_response(res, ae)
            elif main_batch and not any_fault:
                if res["error"] is None:
                    continue  # blocked: judged below
                if excused_by_timer(i):
                    loop.faults["race_excused"] += 1
                    continue
                if i in state.get("stale_drain", ()):
                    poisoned(i)
                    violate("exchange_completes", "request_writer_cancelled_by_stale_drain_waiter", stale_drain_msg(i, res))
                    continue
                violate("exchange_completes", f"client_error:{res['error']}<-{res.get('error_cause')}"
                        + (f":te_spelled_by_caller:{'sized_body' if rq['body']['kind'] in ('bytes', 'bytearray', 'str', 'bio') else rq['body']['kind']}"
                           if caller_te(rq) else ""),
                        f"exchange {i} ({rq['method']} body={rq['body']['kind']} chunked={rq['chunked']!r} compress={rq['compress']!r} "
                        f"expect100={rq['expect100']} v{scn['version']} -> {rs['status']} {rs['body']['kind']}) failed without any fault: "
                        f"{res.get('error_msg')} root cause {res.get('error_cause')}")

        # ------------------------------------------------------------------ keep-alive agreement (fault-free runs only)
        if not any_fault:
            order = {}  # exchange -> position of its first head write in the session
            for n, wl in writes.items():
                for step, i in wl:
                    order.setdefault(i, (step, n))
            for n in sorted(conns):
                c = conns[n]
                finals = c.get("finals", [])
                handled = c["handled"]
                sc = c["s_close"]
                wl = writes.get(n, [])
                if any(e >= poison["from"] for _, e in wl):
                    continue  # garbage from a known-defect trigger reached this connection: its closes prove nothing
                for k, rsp in enumerate(finals):
                    if k >= len(handled) or handled[k]["ex"] is None or not rsp["complete"] and rsp["framing"] != "eof":
                        continue
                    hrec = handled[k]
                    i = hrec["ex"]
                    if i >= poison["from"]:
                        continue
                    rq, rs = exchanges[i]["req"], exchanges[i]["resp"]
                    last_on_conn = k == len(handled) - 1
                    req_conn = hdr_groups(hrec["headers"]).get("connection", [])
                    resp_conn = [v.decode("latin-1") for a, v in rsp["headers"] if a.lower() == b"connection"]
                    req_keep = persistent_by_headers(hrec["version"], req_conn)
                    resp_keep = persistent_by_headers(rsp["version"], resp_conn) and rsp["framing"] != "eof"
                    s_decided_close = bool(sc and sc["cause"] == "decision" and sc["after"] == k + 1)
                    s_any_close = sc is not None and sc["cause"] != "peer" and last_on_conn
                    desc = (f"exchange {i} on connection {n}: {rq['method']} HTTP/{scn['version']} request Connection={req_conn!r}; "
                            f"response {rsp['status']} framing={rsp['framing']} Connection={resp_conn!r} "
                            + (f"(expect_handler refusal: {rq.get('expect_refuse')})" if hrec.get("refused") else
                               f"(handler: body={rs['body']['kind']} force_close={rs['force_close']} chunked={rs['chunked']})"))
                    # R4: a close-delimited response is ended only by closing
                    if rsp["framing"] == "eof" and not s_decided_close:
                        f4_seen = True
                        violate("keepalive_agreement", f"close_delimited_response_server_keeps_open:HTTP/{rsp['version'][0]}.{rsp['version'][1]}",
                                f"{desc}: the response has neither Content-Length nor chunked framing, so the client must wait for "
                                f"EOF, but the server did not close as part of finishing it "
                                f"(server close: {sc and sc['cause']} at t={sc and round(sc['t'], 3)})")
                        continue
                    # R6: when the client's close reached the server before the server acted, the server's decision is
                    # read from the response object (StreamResponse.keep_alive is what RequestHandler.start() obeys)
                    ro = hrec.get("resp_obj")
                    if sc and sc["cause"] == "peer" and sc["after"] == k + 1 and ro is not None and ro.keep_alive is True \
                            and not persistent_by_headers(rsp["version"], resp_conn) and req_keep and not hrec.get("conn_hdr"):
                        violate("keepalive_agreement", f"server_decided_keep_but_its_headers_signal_close:HTTP/{rsp['version'][0]}.{rsp['version'][1]}",
                                f"{desc}: the request asked for a persistent connection and the server decided to keep it "
                                f"(response.keep_alive is True, no close of its own), but the response headers it sent tell the client the "
                                f"connection is not persistent, so the client closed it")
                    # A refused expectation leaves the request incomplete unless the client sends the body all the same:
                    # the client may (must, if it leaves the body unsent) close, and the server may give up waiting for
                    # the body (lingering close).  Neither is a disagreement; what is forbidden there is judged by
                    # expect_refused/next_request_written_after_unsent_body and by R1.
                    refused_here = bool(hrec.get("refused"))
                    # R3: server closes although its own headers promise persistence
                    if s_decided_close and req_keep and resp_keep and not refused_here:
                        violate("keepalive_agreement", "server_closes_after_promising_keepalive",
                                f"{desc}: both header sets ask for a persistent connection but the server closed its transport "
                                f"as part of finishing this response")
                    # R1: the client writes on a connection the server chose to close
                    if s_decided_close:
                        later = [(st, e) for st, e in wl if order.get(e, (0, 0))[0] > order.get(i, (0, 0))[0] and e != i]
                        if later:
                            violate("keepalive_agreement", "request_written_to_connection_server_chose_to_close",
                                    f"{desc}: the server closed after this response (its decision), yet the client wrote "
                                    f"exchange {later[0][1]} to the same connection at step {later[0][0]}")
                    # R2: both sides chose keep-alive, nothing closed, yet the client abandons the connection
                    # An early answer that overtook the request body: the client stops sending and has to close (judged
                    # above: request_written_after_incomplete_request_body); that close is no disagreement.
                    # So is a close made while the client's transport still held request bytes the server had not
                    # received: from the client's side the upload was still going on when the final response completed,
                    # and it may abandon it by closing (RFC 9112 9.3: either end MAY close at any time; 9.6).
                    early_unsent = any(sg_["ex"] == i and sg_["conn"] == n and sg_.get("early_unsent") for sg_ in all_segs) \
                        or bool(hrec.get("early") and c["c_close"] and c["c_close"]["unflushed"] > 0)
                    if req_keep and resp_keep and not s_any_close and last_on_conn and not blocked and not refused_here \
                            and not early_unsent:
                        nxt = i + 1
                        cc = c["c_close"]
                        nxt_start = results[nxt]["start_seq"] if nxt < len(results) else None
                        # a close made while the *next* exchange is already under way belongs to that exchange
                        own_close = cc is not None and cc["cause"] == "decision" and (nxt_start is None or cc["seq"] < nxt_start)
                        moved = None
                        if nxt < len(exchanges) and nxt in order and order[nxt][1] != n:
                            res_i = results[i] if i < len(results) else None
                            idle = exchanges[i]["gap_ms"] * TICK
                            # (the pool may hold another idle connection - e.g. one left by C02-F13 - and hand that one
                            # out first: only a connection opened for the next exchange shows that this one was not reusable)
                            fresh = not any(order[e_][1] == order[nxt][1] for e_ in order if e_ < nxt)
                            if idle < min(scn["client"]["ka"], scn["server"]["keepalive_timeout"]) * 0.5 and res_i and res_i["done"] and fresh:
                                moved = order[nxt][1]
                        if (own_close or moved) and not scn["client"]["force_close"] and not (cc and cc["cause"] in ("pool_timer", "stale_on_get", "peer")):
                            cls = "head" if rq["method"].upper() == "HEAD" else f"{rsp['status'] // 100}xx"
                            fr = rsp["framing"] if rsp["framing"] != "none" else (
                                "no_length" if not any(a.lower() in (b"content-length", b"transfer-encoding") for a, _ in rsp["headers"]) else "declared")
                            if own_close and hrec.get("early"):
                                # its own class: the whole request body had left the client's transport (nothing
                                # unflushed) when the early answer completed, and the client closed all the same
                                key_ = "client_abandons_persistent_connection:early_answer:request_body_already_flushed"
                            elif own_close:
                                key_ = f"client_abandons_persistent_connection:{cls}:{fr}"
                            else:
                                # not closed, merely not back in the pool when the next request was issued
                                # (an early answer completes while the request's writer task is still pending, the same
                                # deferred release as with expect100: C02-F13)
                                key_ = ("connection_not_reusable_when_response_completed:"
                                        + ("expect100" if asks_continue(rq) else "early_answer" if hrec.get("early") else _req_class(rq)))
                            violate("keepalive_agreement", key_,
                                    f"{desc}: both ends chose keep-alive by their headers, the server kept the connection open and no "
                                    f"fault or idle timer fired, but the client "
                                    + ("closed it" if own_close else "had not returned it to its pool when it issued the next request")
                                    + (f" and opened connection {moved} for exchange {nxt}" if moved else "")
                                    + f" (client close cause: {cc and cc['cause']})"
                                    + (f"; the handler answered after reading {early_mode(rq)} body bytes; the client had written the "
                                       f"complete request body and its transport had flushed it (0 bytes pending) when it closed"
                                       if hrec.get("early") else ""))

        # ------------------------------------------------------------------ liveness, stray exceptions
        if blocked and not step_capped and not any_fault:
            pend = next((r for r in results if not r["done"] and r["error"] is None), None)
            if pend is not None and not f4_seen and pend["i"] < poison["from"]:
                rq, rs = exchanges[pend["i"]]["req"], exchanges[pend["i"]]["resp"]
                cls = f"expect100:HTTP/{scn['version']}" if asks_continue(rq) else _req_class(rq)
                # white-box classification only (the verdict "blocked" does not depend on it): a parser that holds
                # received bytes back although nobody paused reading will never be resumed
                for n_, c_ in sorted(conns.items()):
                    for side, tr_ in (("client", c_["ctr"]), ("server", c_["str"])):
                        pr_ = getattr(tr_.protocol, "_parser", None)
                        if pr_ is not None and getattr(pr_, "_payload_has_more_data", False) and not tr_._closed \
                                and not getattr(tr_.protocol, "_reading_paused", False) and not tr_._read_paused:
                            cls = f"{side}_parser_holds_received_bytes_while_reading_not_paused"
                if pend["i"] in state.get("stale_drain", ()):
                    violate("exchange_completes", "request_writer_cancelled_by_stale_drain_waiter", stale_drain_msg(pend["i"], pend))
                else:
                    violate("exchange_completes", f"blocked:{cls}",
                            f"exchange {pend['i']} ({rq['method']} body={rq['body']['kind']} chunked={rq['chunked']!r} compress={rq['compress']!r} "
                            f"expect100={rq['expect100']} v{scn['version']} -> {rs['status']} {rs['body']['kind']}) still blocked after "
                            f"{horizon:.0f} virtual seconds without any fault; status seen: {pend['status']}")
        if main_batch and not any_fault:
            for cexc in loop.exc_contexts:
                violate("loop_exception", f"{cexc['exc_type']}@{cexc.get('frame')}",
                        f"exception reached the event loop: {cexc['message']} {cexc['exc']} frame={cexc.get('frame')}")
            for name, msg_, et, exr in net.fatal_errors:
                violate("loop_exception", f"fatal:{et}", f"fatal protocol error on {name}: {msg_} {exr}")

        # ------------------------------------------------------------------ wrap up
        if not wt.done():
            wt.cancel()
            loop.run_sim(None, vt_cap=loop.time() + 1.0, step_cap=loop.steps + 50_000)
        t2 = loop.run_sim(runner.cleanup(), vt_cap=loop.time() + 100.0, step_cap=loop.steps + 200_000)
        if not t2.done() and not step_capped:
            violate("cleanup_returns", "cleanup_blocked", "AppRunner.cleanup() did not return within 100 virtual seconds")
        st = w.stats()
        completed = sum(1 for r in results if r["done"])
        reused = sum(1 for wl in writes.values() if len({e for _, e in wl}) > 1)
        decided = sum(1 for c in conns.values() if (c["s_close"] and c["s_close"]["cause"] == "decision")
                      or (c["c_close"] and c["c_close"]["cause"] == "decision"))
        probes = {
            "exchanges_completed": completed, "conn_reused": int(reused > 0), "conn_decision_close": int(decided > 0),
            "server_timer_close": int(bool(timer_closed)), "blocked": int(blocked), "step_capped": int(step_capped),
            "fault_fired": int(any_fault), "client_errors": sum(1 for r in results if r["error"]),
            "eof_in_flight_at_next_request": 0, "interim_sent": sum(1 for ex in exchanges if ex["resp"]["interim"]),
            "expect100": sum(1 for r in seen if r["ex"] is not None and exchanges[r["ex"]]["req"]["expect100"]),
            "exec_jobs": loop.executor_jobs,
        }
        n_spelled = sum(1 for r in seen if r["ex"] is not None and not exchanges[r["ex"]]["req"]["expect100"]
                        and asks_continue(exchanges[r["ex"]]["req"]))
        if n_spelled:
            probes["expect_spelled_by_caller_reached_handler"] = n_spelled
        n_refused = sum(1 for r in seen if r.get("refused"))
        if n_refused:
            probes["expect_refused"] = n_refused
            probes["expect_refused_body_unsent"] = sum(1 for sg in all_segs if sg.get("refused_unsent"))
            probes["expect_refused_conn_reused_unsent"] = sum(1 for sg in all_segs if sg.get("refused_unsent") and sg["next"] is not None)
            probes["expect_refused_then_next_completed"] = sum(
                1 for r in seen if r.get("refused") and r["ex"] + 1 < len(results) and results[r["ex"] + 1]["done"])
        early_recs = [r for r in seen if r.get("early")]
        if early_recs:
            probes["early_answer"] = len(early_recs)
            probes["early_answer_body_in_flight_at_return"] = sum(1 for r in early_recs if r.get("body_eof_at_return") is False)
            probes["early_answer_client_body_unsent"] = sum(1 for sg in all_segs if sg.get("early_unsent"))
            probes["early_answer_client_body_sent"] = sum(1 for sg in all_segs if sg.get("early_unsent") is False)
            # the rest of the body reached the server in two or more reads after the handler had returned
            multi = 0
            for r in early_recs:
                if r.get("body_eof_at_return") is False and r.get("finished_step") is not None:
                    sname = f"s{r['conn']}"
                    nxt_ = min([q["step"] for q in seen if q["conn"] == r["conn"] and q["step"] > r["step"]], default=None)
                    k_ = sum(1 for st_, nm_, kd_, _d in net.wire if kd_ == "r" and nm_ == sname and st_ > r["finished_step"]
                             and (nxt_ is None or st_ <= nxt_))
                    multi += int(k_ >= 2)
            probes["early_answer_rest_in_2+_reads"] = multi
            probes["early_answer_then_next_on_same_conn"] = sum(
                1 for r in early_recs if any(q["conn"] == r["conn"] and q["step"] > r["step"] for q in seen))
        n_cte = sum(1 for sg in all_segs if caller_te(exchanges[sg["ex"]]["req"]))
        if n_cte:
            probes["caller_te_written"] = n_cte
            probes["caller_te_reached_handler"] = sum(1 for r in seen if r["ex"] is not None and caller_te(exchanges[r["ex"]]["req"]))
        n_over = sum(1 for r in seen if r.get("overrun"))
        if n_over:
            probes["overrun_handled"] = n_over
            probes["overrun_then_next_on_same_conn"] = sum(
                1 for r in seen if r.get("overrun") and any(q["conn"] == r["conn"] and q["step"] > r["step"] for q in seen))
        probes["rawio_short_reads"] = state["short_reads"]
        for k_ in ("sreader_made", "sreader_over_high_water", "sreader_paused"):
            probes[k_] = state.get(k_, 0)
        probes["range_judged"] = state.get("range_judged", 0)
        probes["range_206"] = state.get("range_206", 0)
        if scn.get("session_headers"):
            probes["hdr_mix_session_defaults"] = 1
            probes["hdr_mix_case_dups"] = sum(
                1 for ex in exchanges if any(len({n_ for n_, _ in ex["req"]["headers"] if n_.lower() == low}) > 1
                                             for low in {h[0].lower() for h in ex["req"]["headers"]}))
        for n, c in conns.items():
            sc = c["s_close"]
            if sc and sc["cause"] == "decision":
                # did the client issue its next request before the FIN reached it?
                nxt_start = [r["start_step"] for r in results if r["start_step"] > sc["step"]]
                if c["ctr"].eof_received is False or (nxt_start and loop.faults.get("eof_lag")):
                    probes["eof_in_flight_at_next_request"] = 1
        for r in seen:
            if r["ex"] is not None and r["done"]:
                probes["req_body:" + exchanges[r["ex"]]["req"]["body"]["kind"]] = 1
        for r in results:
            if r["done"]:
                probes["resp_body:" + exchanges[r["i"]]["resp"]["body"]["kind"]] = 1
                if any(k.lower() == "content-encoding" for k, _ in r["headers"]):
                    probes["resp_compressed"] = 1
        for n, (rsps, rest) in wire_resps.items():
            for r in rsps:
                probes["wire_framing:" + str(r["framing"])] = 1
        nontrivial = completed >= 2 and (reused > 0 or decided > 0)
        res = {
            "violations": viols, "nontrivial": bool(nontrivial), "sig": st["sig"], "digest": st["digest"],
            "steps": st["steps"], "vtime": st["vtime"], "faults": st["faults"],
            "probes": {k: v for k, v in probes.items() if v},
            "shape": f"{scn['batch']}-v{scn['version']}-{len(exchanges)}ex-{scn['net']['pol_c2s'][0]}/{scn['net']['pol_s2c'][0]}"
                     + ("+refuse" if any(is_refused(scn, ex["req"]) for ex in exchanges) else "")
                     + ("+hdrmix" if scn.get("session_headers") else "")
                     + ("+rawio" if any(ex[sd_]["body"]["kind"] == "rawio" for ex in exchanges for sd_ in ("req", "resp")) else "")
                     + ("+range" if any(file_range_expect(ex["req"], ex["resp"]) is not None for ex in exchanges) else "")
                     + ("+early" if any(early_mode(ex["req"]) is not None for ex in exchanges) else "")
                     + ("+overrun" if any(ex["resp"]["body"].get("surplus") for ex in exchanges) else "")
                     + ("+callerte" if any(caller_te(ex["req"]) for ex in exchanges) else "")
                     + ("+sreader" if any(ex[sd_]["body"]["kind"] == "sreader" for ex in exchanges for sd_ in ("req", "resp")) else ""),
        }
        if log:
            res["event_log"] = loop.event_log
            res["debug"] = {
                "results": [{k: (_short(v) if k in ("body", "headers") else v) for k, v in r.items()} for r in results],
                "seen": [{k: (_short(v) if k in ("body", "headers") else v) for k, v in r.items() if k != "resp_obj"} for r in seen],
                "conns": {n: {"s_close": c["s_close"], "c_close": c["c_close"], "writes": writes.get(n)} for n, c in conns.items()},
                "wire_s": {n: bytes(v[:600]) for n, v in s_out.items()},
            }
        return res


# --------------------------------------------------------------------------- findings

# Entries proposed for /verif/known_findings.json (genuine aiohttp defects reproduced by this check on the
# unchanged tree; see the final report of the C02 build).  Not read at run time.
PROPOSED_KNOWN_FINDINGS = [
 {
  "id": "C02-F1",
  "property": "C02",
  "status": "known",
  "invariant": "keepalive_agreement",
  "key_regex": "close_delimited_response_server_keeps_open:HTTP/1\\.0",
  "summary": "C02 face of C05-F4: a response without Content-Length (StreamResponse, or Response with a Payload of unknown size, or any compressed streamed body) to an HTTP/1.0 keep-alive request is close-delimited, but StreamResponse._prepare_headers stores keep_alive on the response before lowering it, so the server keeps the connection open; the aiohttp client (which must read until EOF) only gets its response when the server's idle keep-alive timer (75 s) closes the connection",
  "example": "ClientSession(version=HttpVersion10).get(url) against a handler that does resp = web.StreamResponse(); await resp.prepare(request); await resp.write(b'x'); return resp"
 },
 {
  "id": "C02-F2",
  "property": "C02",
  "status": "known",
  "invariant": "wire_well_formed",
  "key_regex": "body_bytes_after_bodyless_response:HEAD:stream_write",
  "summary": "C02 face of C05-F3: StreamResponse.write() sends body bytes in answer to HEAD; the aiohttp client reads them as the start of the next response on the reused connection (bad status line -> the next exchange fails)",
  "example": "session.head(url) against a handler that prepares a StreamResponse and writes a body (add_get(..., allow_head=True) routes HEAD to GET handlers)"
 },
 {
  "id": "C02-F3",
  "property": "C02",
  "status": "known",
  "invariant": "wire_well_formed",
  "key_regex": "body_bytes_after_bodyless_response:(HEAD|204|304):compress_trailer",
  "summary": "a response that must not have a body (HEAD, 204, 304) with enable_compression() on a StreamResponse/FileResponse/Response(body=Payload) still gets the compressor's flush bytes written by StreamWriter.write_eof() (8 bytes deflate / 20 bytes gzip) after the header block; they are read by the client as the start of the next response",
  "example": "session.head(url) against: resp = web.FileResponse(path); resp.enable_compression(); return resp   (or web.Response(body=io.BytesIO(b'x')) / web.StreamResponse with enable_compression())"
 },
 {
  "id": "C02-F4",
  "property": "C02",
  "status": "known",
  "invariant": "request_framing",
  "key_regex": "(content_length_vs_bytes_written|body_bytes_without_framing_header):chunked=(False|True\\+no_data)",
  "summary": "ClientRequest._create_writer enables chunk framing whenever `chunked is not None`, independently of whether a Transfer-Encoding header was set: chunked=False sends 'Content-Length: N' (or no framing header) followed by a chunk-framed body, and chunked=True on a body-less GET/HEAD/OPTIONS sends a stray '0\\r\\n\\r\\n' after a head without Transfer-Encoding; the server parses the surplus as the next request (400 'Bad HTTP method') and may lose the real request",
  "example": "session.post(url, data=b'abc', chunked=False)   /   session.get(url, chunked=True)"
 },
 {
  "id": "C02-F5",
  "property": "C02",
  "status": "known",
  "invariant": "request_roundtrip",
  "key_regex": "head_request_body_dropped",
  "summary": "C02 face of the C01 finding: the request parser applies EMPTY_BODY_METHODS to requests, so the body of a HEAD request (Content-Length or chunked) is not consumed; the handler reads b'' and the body bytes are parsed as the next request on the connection",
  "example": "session.head(url, data=b'x' * 300)"
 },
 {
  "id": "C02-F6",
  "property": "C02",
  "status": "known",
  "invariant": "exchange_completes",
  "key_regex": "blocked:expect100:HTTP/1\\.0",
  "summary": "ClientSession(version=HttpVersion10) with expect100=True waits for '100 Continue' without any bound, but the server (correctly, RFC 9110 10.1.1) ignores the expectation on an HTTP/1.0 request and waits for the body: both ends block until some outer timeout",
  "example": "ClientSession(version=HttpVersion10).post(url, data=b'x', expect100=True)"
 },
 {
  "id": "C02-F7",
  "property": "C02",
  "status": "known",
  "invariant": "exchange_completes",
  "key_regex": "client_error:ClientConnectionError<-AssertionError@multipart\\.py:write",
  "summary": "FormData sent as multipart with a field name that content_disposition_header() cannot express as a quoted-string (e.g. non-ASCII 'n\\u00e9') gets 'name*=utf-8''...' and MultipartWriter.write() then fails its own assertion '\"name=\" in Content-Disposition'; the request dies with ClientConnectionError(AssertionError) after the head was prepared",
  "example": "fd = FormData(); fd.add_field('n\\u00e9', 'v'); fd.add_field('f', io.BytesIO(b'x'), filename='a.bin'); session.post(url, data=fd)"
 },
 {
  "id": "C02-F8",
  "property": "C02",
  "status": "known",
  "invariant": "server_exception",
  "key_regex": "AssertionError@web_response\\.py:_do_start_compression",
  "summary": "web.Response() without a body plus enable_compression() (e.g. a compression middleware applied to 'return web.Response(status=...)') trips 'assert self._body is not None' in Response._do_start_compression during prepare(), outside the handler's try block: no response is written, the connection is dropped and the client sees ServerDisconnectedError",
  "example": "handler: resp = web.Response(status=200); resp.enable_compression(); return resp   with any Accept-Encoding: gzip/deflate request"
 },
 {
  "id": "C02-F9",
  "property": "C02",
  "status": "known",
  "invariant": "keepalive_agreement",
  "key_regex": "client_abandons_persistent_connection:head:no_length",
  "summary": "HttpResponseParser.parse_message marks every HTTP/1.1 response without Content-Length/Transfer-Encoding as should_close without looking at the request method, so the client closes a perfectly reusable connection after each HEAD response that carries no length (which is what aiohttp's own server sends for HEAD on empty or unknown-size bodies); wasteful, not unsafe",
  "example": "session.head(url) against 'return web.Response()' followed by any other request on the session: a second connection is opened"
 },
 {
  "id": "C02-F10",
  "property": "C02",
  "status": "known",
  "invariant": "exchange_completes",
  "key_regex": "(blocked:(client|server)_parser_holds_received_bytes_while_reading_not_paused|client_error:ClientPayloadError<-TransferEncodingError@http_parser\\.py:feed_eof)",
  "summary": "HttpPayloadParser._paused is set by protocol.pause_reading() but only cleared at a few points of the chunked state machine; when a read ends exactly at the end of a chunk (after its CRLF) while pushing the StreamReader over its high-water mark, the flag survives the resume, and the next data_received() stashes its bytes in _chunk_tail and returns PAYLOAD_HAS_PENDING_INPUT although nothing is paused any more. If those were the last bytes of the message it never completes (client or server blocks for ever on a keep-alive connection) or, when the peer then closes, the complete body is reported as ClientPayloadError('Not enough data to satisfy transfer length header')",
  "example": "read_bufsize=1 (or any size below half a chunk): chunked response written as chunk A (larger than 2*read_bufsize, delivered in one read ending at the chunk boundary), then after the reader drained: chunk B + '0\\r\\n\\r\\n' in the next read"
 },
 {
  "id": "C02-F11",
  "property": "C02",
  "status": "known",
  "invariant": "response_roundtrip",
  "key_regex": "close_delimited_body_cut_by_reset_reported_complete",
  "summary": "ResponseHandler.connection_lost(exc) calls parser.feed_eof() whatever exc is; for a close-delimited response (no Content-Length, not chunked) feed_eof() completes the payload, so a body cut short by a connection *reset* (ConnectionResetError) is handed to the caller as a complete body without any error (only a clean EOF is indistinguishable from completion; curl reports error 56 here)",
  "example": "HTTP/1.0 session, streamed response without Content-Length, connection reset after 3000 of 65535 body bytes: resp.read() returns the 2851-byte prefix"
 },
 {
  "id": "C02-F12",
  "property": "C02",
  "status": "known",
  "invariant": "loop_exception",
  "key_regex": "ClientConnectionResetError@\\('http_writer\\.py', '_write(lines)?'\\)",
  "summary": "ClientRequest._write_bytes awaits writer.write_eof() outside its try block: when the peer closes between the last body chunk and the terminating write (e.g. the server's idle keep-alive timer fires while a request is being uploaded on a reused connection), ClientConnectionResetError('Cannot write to closing transport') ends the writer task, nobody retrieves it (ClientResponse only cancels the writer) and 'Task exception was never retrieved' reaches the loop's exception handler",
  "example": "server keepalive_timeout=0.002; second request of a session with an async-generator body of 64 KiB, request bytes trickling in while the idle timer closes the connection"
 },
 {
  "id": "C02-F13",
  "property": "C02",
  "status": "known",
  "invariant": "keepalive_agreement",
  "key_regex": "connection_not_reusable_when_response_completed:(expect100|early_answer)",
  "summary": "when a response completes while the request writer task is still pending (expect100 with an empty/short body: '100 Continue' and the final response arrive in one read), ClientResponse._response_eof cancels the writer and defers the release to its done-callback; read()/release() then await the already-finished writer but its callbacks have not run yet, so the connection is not back in the pool when the caller continues and the next request of the session opens a second connection although both ends chose keep-alive (the first connection is pooled a few callbacks later); wasteful, not unsafe",
  "example": "session.put(url, data=BytesPayload(b''), expect100=True) immediately followed by another request on the session"
 },
 {
  "id": "C02-F14",
  "property": "C02",
  "status": "known",
  "invariant": "expect_refused",
  "key_regex": "next_request_written_after_unsent_body:(content_length|chunked)",
  "summary": "a request sent with expect100=True whose expectation is refused (the server answers a final status such as 403/417 without '100 Continue', e.g. from a route's expect_handler) leaves its announced body unsent, yet the client keeps the connection: ClientRequest._write_bytes waits for the 100 in 'await self._continue' (client_reqrep.py:1487) outside the try block whose CancelledError branch does conn.close() ('Body hasn't been fully sent, so connection can't be reused', :1507-1510), so when ClientResponse._response_eof cancels the writer (:578 -> _cleanup_writer :657) nothing closes the connection and the writer's done-callback releases it to the pool (:640, :637). The server is still discarding the announced body (web_protocol.py:753-768, lingering up to 10 s), so the next request of the session written to that connection is swallowed as that body: it is lost (caller waits for the lingering timeout, then ServerDisconnectedError or a silent retry), or its tail is parsed as a request of its own (400 'Bad HTTP method', or a handler that sees method 'OST' when the missing body was one byte long)",
  "example": "app.router.add_post('/', h, expect_handler=eh) with 'async def eh(request): raise web.HTTPForbidden()'; client: await session.post(url, data=b'x'*300, expect100=True) -> 403; await session.get(url) on the same session -> 400 Bad Request (\"Bad HTTP method in status line\") or a 10 s stall"
 },
 {
  "id": "C02-F15",
  "property": "C02",
  "status": "known",
  "invariant": "request_roundtrip",
  "key_regex": "header_merge:request_names_differ_in_case:values_lost",
  "summary": "ClientSession._prepare_headers (client.py:1233-1239) remembers the names it has already copied from the per-request headers in a plain set of str ('added_names') and tests 'key in added_names' with the spelling as given, while 'result' is a CIMultiDict: a second per-request value whose name differs only in letter case is not recognised as a repeat, so 'result[key] = value' (:1238) replaces every value of that field - including the one just copied - instead of 'result.add' (:1236). Every per-request value of the field except those of the last spelling seen first is silently dropped (list of pairs, MultiDict and CIMultiDict alike); field names are case-insensitive (RFC 9110 5.1) and the same pairs with one spelling are all sent",
  "example": "session.get(url, headers=[('X-Dup', 'one'), ('x-dup', 'two')]) sends only 'x-dup: two'   (with [('X-Dup', 'one'), ('X-Dup', 'two')] both are sent)"
 },
 {
  "id": "C02-F16",
  "property": "C02",
  "status": "known",
  "invariant": "request_roundtrip",
  "key_regex": "headers_mapping_view:one_entry_per_spelling_of_a_name",
  "summary": "HeadersDictProxy (request.headers / response.headers) looks names up case-insensitively and joins all field lines of a name with ', ' (helpers.py:788-789), but __iter__ and __len__ de-duplicate the keys of the underlying CIMultiDict case-sensitively (helpers.py:794-802, a set of the spellings as received): a message carrying 'x-dup: a' and 'X-Dup: b' yields both spellings as keys, each mapped to 'a, b', so len() is too large and dict(headers)/headers.items() (e.g. a proxy copying the fields) repeat the values",
  "example": "GET / with field lines 'x-dup: a' and 'X-Dup: b': list(request.headers.items()) contains ('x-dup', 'a, b') and ('X-Dup', 'a, b')"
 },
 {
  "id": "C02-F17",
  "property": "C02",
  "status": "known",
  "invariant": "request_roundtrip",
  "key_regex": "body:rawio:(front|piece)_lost_when_resent_after_connection_loss",
  "summary": "A request with an unseekable file-like body (IOBasePayload/BufferedReaderPayload over a pipe, socket file or other RawIOBase source) that is retried after its reused keep-alive connection was lost goes out with the front of the body missing - often with an empty body - and the caller gets no error. ClientSession._request decides whether the payload can be replayed with 'await req._close(); if req._body.consumed: raise' (client.py:735-746), but IOBasePayload only learns that it cannot rewind inside the executor job of its first read (payload.py:608-610 submits _read_and_available_len, which calls _set_or_restore_start_position, payload.py:472-478: tell() fails -> _consumed = True). When the connection dies while that job is still queued or running, the writer task is cancelled at 'await loop.run_in_executor(...)', ClientRequest._close (client_reqrep.py:1533-1543) waits for the writer task only and not for the job, 'consumed' is still False, and the request is rebuilt from the same payload ('data = req._body; continue'). The orphaned job then runs all the same (cancelling the asyncio future does not stop a thread-pool job), marks the payload consumed too late and takes the first chunk (up to 256 KiB) from the source; its result is discarded. The second attempt reads on from there: the handler receives a well-framed body that lacks those bytes, with a 2xx answer. The documented intent ('If the payload is already consumed and cannot be replayed' -> raise) is missed only through this ordering. Second face (key piece_lost_...): the orphaned job may also run after some reads of the second attempt (a thread pool gives no ordering); it then swallows one read's worth from the middle of the body, e.g. bytes [400:500] of 2048 with a source that yields 100 bytes per read.",
  "example": "server keepalive_timeout=0.002 (or any idle close racing the next request); session.delete(url, data=<io.BufferedReader / io.RawIOBase over a pipe, 1 byte available>) as second request of the session: the pooled connection gets its FIN just after the writer task submitted its first read; the request is resent on a new connection with Transfer-Encoding: chunked and an empty body; request.read() in the handler returns b''"
 },
 {
  "id": "C02-F18",
  "property": "C02",
  "status": "known",
  "invariant": "exchange_completes",
  "key_regex": "request_writer_cancelled_by_stale_drain_waiter",
  "summary": "BaseProtocol._drain_helper (base_protocol.py:133-142) makes every writer that finds the transport paused await ONE shared future, self._drain_waiter, and awaits it unshielded; cancelling a task that waits there cancels that future, and nothing takes the cancelled future off the protocol (only resume_writing/connection_lost do, :56-64, :118-121). ClientResponse._response_eof cancels the request's writer task whenever it is still pending (client_reqrep.py:578 -> _cleanup_writer :655-657). When the writer is at that moment in the drain() of 'await writer.write_eof()' (client_reqrep.py:1530, outside the try block whose CancelledError branch closes the connection, :1515-1518) - the whole body and its terminator are already handed to the transport, the server answered without reading the body (early 4xx, or a handler with no use for it) and the transport is still above its low-water mark - the task ends, its done-callback returns the connection to the pool (:634-640), correctly, since the request is complete on the wire, but with a cancelled future left in protocol._drain_waiter and the protocol still paused. The next request of the session that has a body and is given this connection starts its writer (eagerly, inside ClientRequest._send, :989), reaches _drain_helper, awaits the already-cancelled future and gets a CancelledError nobody sent; _write_bytes takes it for a cancellation, calls conn.close() (:1517) and ends; _send returns normally and ClientResponse.start() then does 'await protocol.read()' with connection.protocol == None (:524-526): the caller gets AttributeError(\"'NoneType' object has no attribute 'read'\") for a request that never had a chance, on a connection both ends had agreed to keep. A following request sent with expect100=True dies the same way in the 'await writer.drain()' before it waits for '100 Continue' (:1485-1486): head sent, body never, both ends wait for ever. (The check names the class from a white-box look at protocol._drain_waiter when the request head is written; the verdict - the exchange failed or blocked without any fault - does not depend on it.) Needs a transport whose write buffer is still above its low-water mark after the last body write (observed with transport.set_write_buffer_limits(high=1, low=0) and (4096, 1024); with asyncio's default 64 KiB/16 KiB limits write_eof() rarely pauses).",
  "example": "client transport write-buffer limits (1, 0); server handler 'return web.Response(status=418)' without reading the body; session.get(url, data=io.BytesIO(b'x' * 2049), chunked=True) over a link that delivers a few bytes at a time: the response completes while the writer waits in write_eof()'s drain; the following session.post(url, data=<async generator>) on the same session fails at once with AttributeError: 'NoneType' object has no attribute 'read' (client_reqrep.py:526)   /   ... followed by session.request('REPORT', url, data=<async generator>, expect100=True): blocked for ever after '100 Continue'"
 },
 {
  "id": "C02-F19",
  "property": "C02",
  "status": "known",
  "invariant": "keepalive_agreement",
  "key_regex": "client_abandons_persistent_connection:early_answer:request_body_already_flushed",
  "summary": "when a final response completes while the request's writer task is still pending, ClientResponse._response_eof cancels the writer (client_reqrep.py:578 -> :655-657) and ClientRequest._write_bytes answers a CancelledError raised inside 'await self._body.write_with_length(...)' with conn.close() ('Body hasn't been fully sent, so connection can't be reused', :1515-1518). That conclusion is drawn from where the task was suspended, not from what was sent: a writer that had handed the complete body to the transport and was only waiting in drain() for the buffer to empty is cancelled in the same place. If the transport has just flushed the last byte (resume_writing() has resolved the drain future, the task has not run yet) the whole request is on the wire and at the server, which answered with keep-alive headers and keeps the connection open - and the client closes it and opens a new one for the next request; wasteful, not unsafe (same family as C02-F13)",
  "example": "session.post(url, data=bytearray(65536)) against a handler that reads one byte of the body and returns 404; the 64 KiB body (above the transport's 64 KiB high-water mark, so the writer waits in drain) is delivered in one piece and the response arrives in the same loop iteration in which the transport buffer empties: the client closes the connection it was told to keep"
 }
]

# --------------------------------------------------------------------------- small helpers

def _check_combined(violate, inv, tag, groups, combined):
    """the Mapping view (.headers) documents itself as the field lines of one name joined by ', '"""
    comb = {}
    for k, v in combined:
        comb.setdefault(k.lower(), []).append(v)
    spell = {}
    for k, _ in combined:
        spell.setdefault(k.lower(), []).append(k)
    for name, vals in groups.items():
        if comb.get(name) != [", ".join(vals)]:
            if len(set(spell.get(name, []))) == len(spell.get(name, [])) > 1 and set(comb[name]) == {", ".join(vals)}:
                # the right combined value, but listed once per spelling of the field name
                violate(inv, "headers_mapping_view:one_entry_per_spelling_of_a_name",
                        f"{tag}: the field lines of {name!r} arrived with the spellings {spell[name]!r}; iterating .headers yields "
                        f"each spelling as a key of its own, every one mapped to the combined value {_short(comb[name][0])} "
                        f"(len(.headers) counts them separately; dict(.headers)/.items() repeat the values)")
                continue
            violate(inv, "headers_mapping_view", f"{tag}: .headers[{name!r}] is {_short(comb.get(name))} but the field lines are {_short(vals)}")
    for name in comb:
        if name not in groups:
            violate(inv, "headers_mapping_view", f"{tag}: .headers has {name!r} which is not among the raw field lines")


def _one_piece_missing(raw, exp, body):
    """(offset, length) when `raw` is `exp` without exactly one contiguous piece that lies strictly inside it (data before
    and after it arrived) and is no longer than one read of the rawio source can be - the largest cap for a bare source,
    anything for one wrapped in io.BufferedReader, whose read(n) collects up to the n = 256 KiB the payload asks for;
    else None.  (A missing front is the older class front_lost_...; a missing tail is no piece: plain body:rawio.)"""
    miss = len(exp) - len(raw)
    if miss <= 0:
        return None
    a = next((j for j in range(len(raw)) if raw[j] != exp[j]), len(raw))
    if a == 0 or a + miss >= len(exp) or raw[a:] != exp[a + miss:]:
        return None
    if body.get("wrap") != "buffered" and miss > max(body["caps"]):
        return None
    return a, miss


def _root_cause(e):
    """'ExcType@file:function' of the innermost aiohttp frame of the deepest cause (a stable class name)"""
    seen_ = 0
    while (e.__cause__ or e.__context__) is not None and seen_ < 8:
        e = e.__cause__ or e.__context__
        seen_ += 1
    tb, last = e.__traceback__, None
    while tb is not None:
        fn = tb.tb_frame.f_code.co_filename
        if "/aiohttp/" in fn:
            last = f"{fn.rsplit('/', 1)[-1]}:{tb.tb_frame.f_code.co_name}"
        tb = tb.tb_next
    return f"{type(e).__name__}@{last}"


def _short(v, n=160):
    s = repr(v)
    return s if len(s) <= n else s[:n] + f"...({len(s)} chars)"


def _diff(a, b):
    if a is None or b is None:
        return f"got {a!r}"
    m = min(len(a), len(b))
    i = next((j for j in range(m) if a[j] != b[j]), m)
    return f"first difference at offset {i}: got {bytes(a[i:i + 24])!r}, expected {bytes(b[i:i + 24])!r}"


def _inflate(data):
    try:
        return zlib.decompress(data)
    except zlib.error:
        return zlib.decompress(data, -zlib.MAX_WBITS)


def _falsy_data(body):
    """client-side `if not data` is true for empty bytes/str (documented: no body)"""
    return body["kind"] in ("bytes", "bytearray", "str") and body.get("size", 1) == 0


def _req_class(rq):
    parts = [rq["body"]["kind"]]
    if rq["chunked"] is not None:
        parts.append(f"chunked={rq['chunked']}")
    if rq["compress"]:
        parts.append("compress")
    if asks_continue(rq):
        parts.append("expect100")
    return "+".join(parts)


def _status_class(status, b, rq, rs):
    parts = [str(status), b["kind"]]
    if rs["compress"]:
        parts.append("compress")
    if rs["chunked"]:
        parts.append("chunked")
    return "+".join(parts)
