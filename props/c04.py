"""C04 - outbound messages: field contents cannot inject structure; framing is truthful.

World W (DESIGN.md 9/C04): the real aiohttp.http_writer.StreamWriter (pure
Python), web.StreamResponse / web.Response, ClientSession -> ClientRequest,
payload classes, MultipartWriter and FormData write to a SimTransport whose
peer is a recording raw endpoint; plus a small sample with a real server and a
real client over SimNet.

  W1  props/_c04w1.py  positions x code points (enumerated; exhaustive in the
                       thorough tier) and seeded random strings.  No schedule.
  W2  props/_c04w2.py  write programs under back-pressure / reset / cancel /
                       executor compression, Response bodies of every payload
                       kind, client request bodies (given to the request call or
                       swapped in by a client middleware through
                       ClientRequest.update_body(), sent again by a retry
                       middleware), real-server sample.
      props/_c04w3.py  web.FileResponse behind the real server while another
                       writer changes the served file at a point of the
                       file-access seam (stat / open / fstat / read).
"""
from __future__ import annotations

import random

from props import _c04w1 as W1
from props import _c04w2 as W2
from sim.world import World

PROP = "C04"
LEVEL = "exploration"
DESIGN_REF = "9/C04"
BUDGET = {"quick": 55, "thorough": 900}
BATCH = 400
ENUM_BATCH = 6
ENUM_SHARE = 0.8
ENUM_IS_EXHAUSTIVE = False  # set by enumerate_cases(): true only for the thorough tier
ENUM_RULE = ""
TECHNIQUE = ("deterministic simulation: real serialisers/writers on a virtual-time loop writing to an in-memory "
             "transport; exhaustive code-point enumeration per position (W1) and seeded write programs with "
             "back-pressure, reset, cancellation and executor faults (W2); FileResponse with the served file changed at every "
             "point of its stat/open/fstat/read sequence; strict reference framer/de-chunker as oracle")
LEVEL_TEXT = (
    "W1 is an exhaustive input workload (position x code point x placement; every one of the 1,114,112 code points for the "
    "core positions in the thorough tier, a stated subset of code points otherwise) run through the harness - there is no schedule in it and it "
    "is not claimed as schedule exploration. W2 is seeded exploration of write programs x framing modes x compression x "
    "peer-stops-reading / reset / eof / cancel points x executor linearisation; sampling, not proof."
)
LEVEL_NOTE = (
    "Trusted: ref/http1.py (strict request framer, response splitter, field-line reader), ref/chunked.py (de-chunker, "
    "zlib one-shot decoding, multipart splitter, parameter reader), SimNet's TCP model, yarl for what the 'supplied "
    "target' of a pre-encoded URL is. Bounds: one code point per string in the enumerated part (multi-character "
    "strings only in the seeded part), programs of <=10 calls, bodies <=400 KiB, one message per writer."
)
RULE = (
    "Enumerated: position (every application-controlled string position of requests, responses, cookies, payload and "
    "multipart part headers, FormData - also the filename taken from a file-like value's .name, and every FormData position behind a field of unknown size - and Content-Disposition parameters) x code point x placement (start/middle/end of "
    "a harmless string); one scenario = one position x a block of code points. Seeded: W2 programs (write_headers, "
    "send_headers, write(n), write_eof(n), set_eof, drain with n in {0,1,2047..2049,65535..65537,...}; chunked / declared "
    "length / neither; deflate/gzip or none; Response/StreamResponse with bytes, Payload, file, text file, async "
    "iterator, multipart with/without size; client bodies, also swapped by a client middleware through ClientRequest.update_body() (no body / known size / unknown size -> any of them, once or twice) and / or sent again by a retry middleware (same request and payload written 2-3 times); real server sample; FileResponse (sendfile / read loop / "
    "NOSENDFILE / compression, Range, HEAD, .gz sibling) with the file truncated, extended, rewritten, replaced or unlinked "
    "after the k-th stat/open/fstat/read of a request) x faults, and W1 positions x random hostile strings. Non-trivial: W1 block containing both refused and accepted strings; W2 run in which a fault fired "
    "(transport paused the writer, kill, cancel, executor job) or >=3 body calls were made. Distinct = interleaving signature."
)
COMPONENTS = {
    "real": ["aiohttp.http_writer.StreamWriter/_py_serialize_headers", "aiohttp.web_response.Response/StreamResponse",
             "aiohttp.web_request.BaseRequest", "aiohttp.client.ClientSession", "aiohttp.client_reqrep.ClientRequest",
             "aiohttp.connector.TCPConnector", "aiohttp.payload.*", "aiohttp.multipart.MultipartWriter",
             "aiohttp.formdata.FormData", "aiohttp.helpers (cookies, content_disposition_header)",
             "aiohttp.base_protocol.BaseProtocol", "aiohttp.compression_utils.ZLibCompressor",
             "aiohttp.web AppRunner/TCPSite/RequestHandler (sample)", "aiohttp.web_fileresponse.FileResponse",
             "http.cookies.SimpleCookie", "yarl.URL"],
    "stub": ["network (SimNet)", "recording raw peer", "executor (simulated, seeded early/late)",
             "server-side protocol object for W1/W2 responses (BaseProtocol + three attributes; the real RequestHandler "
             "is used in the real-server sample)", "TLS", "loop.sendfile (simulated: reads the file and writes to the transport)",
             "file access of FileResponse (pathlib.Path.stat/open, os.stat(fd), read() observed through a shim; the files are real)"],
}
ASSUMPTIONS = [
    "the 'supplied' field line for a header is name + ': ' + value encoded as UTF-8 (what aiohttp documents); the "
    "'supplied' target of yarl.URL(..., encoded=True) is its raw_path_qs; methods are upper-cased",
    "RFC 9110 5.1/5.5 decides what a well-formed field line is: name is a token, value has no CTL except HTAB; obs-text allowed",
    "cookie values and Content-Disposition parameters have their own quoting: judged structurally (same lines, same "
    "names, no extra cookie pair / parameter), not byte-for-byte",
    "StreamWriter programs follow its documented contract: write_headers first, nothing after write_eof/set_eof, "
    "set_eof not used to end a compressed body, no compression together with a declared length",
    "after an injected reset / cancel the program stops using the writer (aiohttp closes the connection)",
    "a file on a real temporary file system is used for file bodies; reads go through the simulated executor",
    "FileResponse: another writer may change the served file between any two file accesses; a response whose declared "
    "length can no longer be filled may be abandoned by closing the connection (an incomplete message, as after a reset), "
    "but must not be followed by another response on the same connection; which status a request deserves is C15's subject",
]


# ---------------------------------------------------------------------------
# code point sets


_LOWBYTES = (0x00, 0x09, 0x0A, 0x0D, 0x20, 0x3A)
_SPECIALS = [
    0x0085, 0x2028, 0x2029, 0x00A0, 0x1680, 0x180E, 0x2000, 0x200B, 0x202F, 0x205F, 0x3000, 0xFEFF,
    0xD7FF, 0xD800, 0xDBFF, 0xDC00, 0xDFFF, 0xE000, 0xFFFD, 0xFFFE, 0xFFFF, 0x10000, 0x10FFFF,
    0xFF1A, 0xFE55, 0xFE13, 0x2236, 0xA789, 0x02D0,  # colon look-alikes / compatibility forms
    0x240D, 0x240A, 0x2424, 0x21B5, 0xFF0D, 0xFF0A, 0x0A0D, 0x0D0A, 0x560A, 0x560D, 0x010A, 0x010D,  # CR/LF forms
    0xFF20, 0xFF0F, 0xFF1B, 0xFF1D, 0xFF02, 0xFF3C, 0x2215, 0x2044, 0x037E,  # fullwidth delimiters
    0x0130, 0x0131, 0x017F, 0x212A, 0x00DF, 0xFB00,  # case-mapping oddities
]


def to_ranges(cps):
    out = []
    for cp in cps:
        if out and cp == out[-1][1] + 1:
            out[-1][1] = cp
        else:
            out.append([cp, cp])
    return out


def quick_codepoints(seed: int):
    s = set(range(0x100))
    s.update(cp for cp in range(0x100, 0x3001) if (cp & 0xFF) in _LOWBYTES)
    s.update(range(0x100, 0x3001, 13))
    s.update(_SPECIALS)
    rng = random.Random(seed * 7919 + 4)
    s.update(rng.randrange(0x3001, 0x110000) for _ in range(500))
    return sorted(s)


def _blocks(cps, size):
    for i in range(0, len(cps), size):
        yield to_ranges(cps[i:i + size])


def enumerate_cases(tier, seed):
    global ENUM_IS_EXHAUSTIVE, ENUM_RULE
    names = list(W1.positions())
    cps = quick_codepoints(seed)
    subset = (f"{len(cps)} code points (all below U+0100; U+0100..U+3000 every 13th plus every one whose low byte is "
              "NUL/HT/LF/CR/SP/':'; surrogate boundaries; line/paragraph separators; fullwidth and compatibility forms of "
              "CR LF ':' and delimiters; 500 seeded others)")
    blocks = list(_blocks(cps, 512))
    full = []
    if tier == "thorough":
        ENUM_IS_EXHAUSTIVE = True
        ENUM_RULE = (f"exhaustive over single-code-point strings for the {len(W1.CORE)} core positions (the positions of DESIGN.md "
                     f"9/C04: {', '.join(W1.CORE)}): all 1,114,112 code points x 3 placements (start, middle, end); the other "
                     f"{len(names) - len(W1.CORE)} positions (same mechanisms reached through another API) x {subset} x 3 placements. "
                     "Not exhaustive over multi-character strings.")
        full = [[[lo, min(lo + 4095, 0x10FFFF)]] for lo in range(0, 0x110000, 4096)]
    else:
        ENUM_IS_EXHAUSTIVE = False
        ENUM_RULE = f"{len(names)} positions x {subset} x 3 placements"
    from props import _c04w3 as W3

    fcases = list(W3.enum_file_cases())
    ENUM_RULE += (f"; before them {len(fcases)} FileResponse cases: every point of the file-access seam (after stat, open, fstat, "
                  "1st and 2nd read of the first of two requests) x change of the served file (rewritten / truncated / extended in "
                  "place, replaced by rename, unlinked) x body sent by read loop, simulated sendfile, NOSENDFILE or "
                  "chunked+deflate x with / without Range")
    mcases = list(W2.enum_mw_cases())
    ENUM_RULE += (f"; and {len(mcases)} ClientRequest.update_body() cases: body the request was built with (none, bytes, file, "
                  "StringIO, async iterator, multipart with / without size, FormData) x body a client middleware swaps in (every "
                  "body kind) x POST / GET x chunked asked for or not x with / without compression; every re-sendable body kind sent twice "
                  "by a retry middleware, as built and after a swap")
    return _enum(names, blocks, list(W1.CORE), full, fcases + mcases)


def _enum(names, blocks, core, full, fcases=()):
    # the update_body and file-seam cases are few and cheap: first, so that they never depend on the enumeration budget
    yield from fcases
    for rng_ in blocks:
        for nm in names:
            yield {"kind": "w1", "pos": nm, "cps": rng_}
    # low code points first for every position: that is where refusals and findings live
    for rng_ in full:
        for nm in core:
            yield {"kind": "w1", "pos": nm, "cps": rng_}


# ---------------------------------------------------------------------------
# seeded part


def gen(rng, tier, index):
    r = rng.random()
    if r < 0.12:
        scn = W2.gen_w1_strings(rng, [n for n in W1.positions() if n not in W1.LATER])
        # positions added later (a file-like value naming itself, FormData behind a field of unknown size): drawn last
        if rng.random() < 0.10:
            scn["pos"] = rng.choice(W1.LATER)
        return scn
    return W2.gen(rng, tier)


def shrink(scn):
    if scn["kind"] == "w1":
        if "strs" in scn:
            strs = scn["strs"]
            if len(strs) > 1:
                h = len(strs) // 2
                yield dict(scn, strs=strs[:h])
                yield dict(scn, strs=strs[h:])
                for i in range(len(strs)):
                    yield dict(scn, strs=[strs[i]])
            elif strs and len(strs[0]) > 1:
                s = strs[0]
                for i in range(len(s)):
                    yield dict(scn, strs=[s[:i] + s[i + 1:]])
            return
        places = scn.get("places", list(W1.PLACES))
        if len(places) > 1:
            for p in places:
                yield dict(scn, places=[p])
        cps = scn["cps"]
        total = sum(hi - lo + 1 for lo, hi in cps)
        if total > 1:
            flat = list(W1.iter_codepoints(cps))
            h = len(flat) // 2
            yield dict(scn, cps=to_ranges(flat[:h]))
            yield dict(scn, cps=to_ranges(flat[h:]))
            if total <= 64:
                for cp in flat:
                    yield dict(scn, cps=[[cp, cp]])
        return
    yield from W2.shrink(scn)


def run(scn, ch, log=False):
    if scn["kind"] != "w1":
        return W2.run(scn, ch, log)
    viols: dict = {}
    probes: dict = {}
    with World(ch, 0, log_events=log) as w:
        loop = w.loop
        t = loop.run_sim(W1.run_block(w, scn, viols, probes), vt_cap=1e7, step_cap=200_000_000)
        if not t.done():
            raise RuntimeError(f"harness: W1 block did not finish (idle={loop.idle} capped={loop.capped})")
        t.result()
        st = w.stats()
        refused = probes.get("refused", 0)
        accepted = probes.get("ok", 0)
        res = {
            "violations": [viols[k] for k in sorted(viols)],
            "nontrivial": bool(refused and accepted),
            "sig": st["sig"], "digest": st["digest"], "steps": st["steps"], "vtime": st["vtime"],
            "faults": st["faults"], "probes": {"w1_" + k: v for k, v in probes.items() if v},
            "shape": "w1-" + scn["pos"] + ("-strs" if "strs" in scn else ""),
        }
        if log:
            res["event_log"] = loop.event_log
        return res


def oracle_selftest():
    from ref import chunked, http1

    chunked.selftest()
    http1.selftest()
    W2.selftest()
