"""C08 - StreamReader: exact ordered delivery with back-pressure (DESIGN.md 9, C08).

World U: a real aiohttp.streams.StreamReader on a real BaseProtocol.  The
"network" is a producer actor driven by simulator events which, like a real
transport, delivers nothing while the protocol has paused reading.  A consumer
task issues read calls.  The reference model (ref_stream) is a byte FIFO with
chunk-end offsets, eof and error.

In "parked" scenarios the producer ops reach the stream the way they do in a
connection: the network hands a whole segment (several ops) to
BaseProtocol.data_received(), a parser feeds them one by one and, like
HttpPayloadParser, parks the rest of the segment when the stream asked for a
pause; BaseProtocol.resume_reading() replays the parked part through
data_received(b"") - re-entering feed_data from inside the read that drained
the buffer - before it decides whether to switch the transport back on.
"""
from __future__ import annotations

import asyncio

from sim.world import World

PROP = "C08"
LEVEL = "exploration"
DESIGN_REF = "9/C08"
BUDGET = {"quick": 40, "thorough": 600}
BATCH = 400
RULE = (
    "Each run = seeded producer program (feed_data sizes 0..2*limit+1, begin/end chunk, feed_eof, "
    "set_exception; delivery suspended while the protocol paused reading) x consumer program "
    "(read(n), read(), readany, readline, readuntil, readexactly, readchunk, iter_*, read_nowait, "
    "unread_data) x limits x cancellation of blocked reads, interleaved by seeded virtual delays; "
    "in ~15 % of runs the ops arrive as multi-op segments through BaseProtocol.data_received() and a "
    "parser that parks the rest of a segment on pause and replays it inside resume_reading(); in ~12 % of runs "
    "unread ops follow reads more often and push back the tail / the front / a rewritten copy of the last read, "
    "earlier stream bytes or foreign bytes (1..2*limit+1 of them); in ~10 % of runs (chunked bodies) the producer also "
    "delivers bursts of 2..40 complete one-byte HTTP chunks in one step (a parser that stops at a pause request and "
    "delivers the rest after the resume) and the consumer asks for more than the limit at once (read(), read(n)/"
    "readexactly(n)/iter_chunked(n) with n = 80..2^20) before or while the chunk ends pile up. "
    "Non-trivial: the reader blocked at least once AND the protocol was paused at least once; "
    "distinct = distinct interleaving signature (sequence of executed handle kinds + op kinds)."
)
COMPONENTS = {
    "real": ["aiohttp.streams.StreamReader", "aiohttp.base_protocol.BaseProtocol", "asyncio tasks/futures"],
    "stub": ["transport (flag-only pause/resume)", "HTTP parser (records pause_reading; in parked runs: feeds a segment op by op, "
             "parks the remainder when paused, replays it on data_received(b''))", "network (producer actor)"],
}
ASSUMPTIONS = [
    "a transport delivers no data while reading is paused (asyncio selector transport contract)",
    "high/low water marks are those reported by StreamReader.get_read_buffer_limits()",
    "the chunk-count high-water mark is max(4, limit // 16) of the limit the reader was constructed with; asking for a "
    "larger read size raises the byte marks only (set_read_chunk_size docstring: 'raise buffer limits to match the "
    "consumer's chunk size'), never the number of undelivered chunk ends that may pile up",
    "undelivered chunk ends are counted from below: ends strictly beyond every position the consumer can have reached "
    "(the returned bytes, or everything fed when the reader was last seen blocked on the empty buffer)",
    "one consumer at a time (documented: concurrent reads raise RuntimeError)",
    "parked runs: a parser honours a pause request between two ops of a segment, keeps the rest and continues "
    "when data_received(b'') is called from BaseProtocol.resume_reading() (what HttpPayloadParser does with _chunk_tail)",
    "unread_data() may lift the buffer over the high-water mark without a pause; the mark is judged again from the next arrival on",
    "unread_data(data) inserts exactly `data` at the head of the buffer whatever was read before (its docstring): "
    "the next reads return `data`, then the stream continues where it was",
    "a cancelled accumulating read (read(), readexactly, readuntil) may drop what it had collected; "
    "after such a cancel only order/no-duplication is judged",
]

ACC_OPS = ("read_all", "readexactly", "readline", "readuntil")
# what an unread op hands to unread_data(): the last n bytes of the last read (the classic
# roll-back), its first n bytes, its last n bytes rewritten (a normalised copy), n stream bytes
# returned before the last read, or n bytes that never were in the stream
UNREAD_MODES = ("tail", "front", "front", "altered", "earlier", "foreign")
# read sizes above every small limit of the generator (and above 16 times its chunk-count mark)
BIG_READS = (80, 100, 129, 500, 4096, 2 ** 20)


_ALPHA = b"abcdefghijklmnopqrstuvwxyz0123456789:x" + b"\n" * 5 + b"\r\n"


def stream_bytes(n: int) -> bytes:
    """Pseudo-random content over a small alphabet with frequent separators;
    short windows are mostly unique so a position can be re-identified."""
    import random as _r

    rr = _r.Random(12345)
    return bytes(rr.choice(_ALPHA) for _ in range(n))


_CONTENT = stream_bytes(6000)


def gen(rng, tier, index):
    limit = rng.choice([1, 2, 3, 4, 5, 8, 16, 33, 64, 2 ** 16])
    chunked = rng.random() < 0.5
    only_chunks = chunked and rng.random() < 0.5
    nprod = rng.randint(1, 14)
    sizes = [0, 1, 2, 3, limit - 1, limit, limit + 1, 2 * limit - 1, 2 * limit, 2 * limit + 1, 3 * limit]
    sizes = [s for s in sizes if 0 <= s <= 400]
    prod = []
    in_chunk = False
    total = 0
    for _ in range(nprod):
        d = rng.choice([0, 0, 0, 1, 1, 2, 5])
        if chunked:
            r = rng.random()
            if not in_chunk:
                prod.append([d, "begin", 0])
                in_chunk = True
            elif r < 0.35:
                prod.append([d, "end", 0])
                in_chunk = False
            else:
                s = rng.choice(sizes)
                prod.append([d, "feed", s])
                total += s
        else:
            s = rng.choice(sizes)
            prod.append([d, "feed", s])
            total += s
    if in_chunk:
        prod.append([0, "end", 0])
    r = rng.random()
    if r < 0.75:
        prod.append([rng.choice([0, 1, 3]), "eof", 0])
    elif r < 0.85:
        prod.append([rng.choice([0, 1, 3]), "exc", 0])
    ncons = rng.randint(1, 16)
    cons = []
    if only_chunks:
        kinds = ["readchunk"] * 6 + ["iter_chunks"]
    else:
        kinds = ["read", "read", "readany", "readline", "readuntil", "readexactly", "readchunk",
                 "read_nowait", "unread", "read_all", "iter_chunked", "iter_any", "iter_lines",
                 "iter_chunks"]
    for _ in range(ncons):
        d = rng.choice([0, 0, 1, 1, 2, 4, 8])
        k = rng.choice(kinds)
        arg = 0
        if k in ("read", "readexactly", "read_nowait", "iter_chunked"):
            arg = rng.choice([1, 2, 3, limit, limit + 1, 2 * limit + 1, 7, 50])
            if k == "read_nowait" and rng.random() < 0.3:
                arg = -1
        elif k == "readuntil":
            arg = rng.choice(["\n", ":", "\r\n", "x"])
        elif k == "unread":
            arg = rng.choice([1, 2, 5])
        cons.append([d, k, arg])
    ncancel = rng.choice([0, 0, 0, 1, 2])
    cancels = sorted(rng.randint(1, 120) for _ in range(ncancel))
    scn = {"limit": limit, "producer": prod, "consumer": cons, "cancels": cancels,
           "only_chunks": only_chunks, "total": total}
    # drawn last so that the other scenarios stay what they were
    if rng.random() < 0.15:
        # segments: an op flagged 1 is delivered in the same data_received() as the op before it
        scn["parked"] = True
        glue = rng.choice([0.4, 0.7, 0.9])
        for i, o in enumerate(prod):
            o.append(1 if i and rng.random() < glue else 0)
    # drawn after everything else for the same reason.  unread_data(data) "inserts data at the
    # buffer head": in these scenarios what is pushed back is not always the tail of the last
    # read (mode = 4th element of an unread op), and unread ops follow reads more often.
    if not only_chunks and rng.random() < 0.12:
        new = []
        for o in cons:
            new.append(o)
            if o[1] == "unread":
                o.append(rng.choice(UNREAD_MODES))
            elif o[1] in ("read", "readany", "readline", "readuntil", "readexactly", "read_nowait") and rng.random() < 0.35:
                new.append([rng.choice([0, 0, 0, 1]), "unread", rng.choice([1, 1, 2, 3, 5, limit, 2 * limit + 1]),
                            rng.choice(UNREAD_MODES)])
        scn["consumer"] = new
    # drawn last again.  Many tiny chunks: a "burst" op is k complete one-byte HTTP chunks handed
    # over in one producer step (one data_received() carrying k chunks), placed between two chunks
    # of the program; and the consumer asks for more than the limit at once (read() or a large n),
    # which raises the BYTE marks - the number of undelivered chunk ends that makes the reader
    # pause stays what the constructor limit says.
    if chunked and rng.random() < 0.2:
        scn["burst"] = True
        spots = [i for i, o in enumerate(prod) if o[1] in ("begin", "eof", "exc")]
        if prod[-1][1] == "end":
            spots.append(len(prod))
        for i in sorted(rng.sample(spots, min(len(spots), rng.choice([1, 1, 2]))), reverse=True):
            k = rng.choice([2, 4, 5, 6, 7, 9, 13, 20, 40])
            op = [rng.choice([0, 0, 1, 2, 5]), "burst", k]
            if scn.get("parked"):
                op.append(1 if i and rng.random() < 0.5 else 0)
            prod.insert(i, op)
            scn["total"] += k
        cons = scn["consumer"]
        for o in cons:
            if o[1] in ("read", "iter_chunked") and rng.random() < 0.5:
                o[2] = rng.choice(BIG_READS)
            elif o[1] == "readexactly" and rng.random() < 0.3:
                o[2] = rng.choice(BIG_READS[:3])
        if rng.random() < 0.7:
            k = rng.choice(["read_all", "read_all", "read", "read", "iter_chunked", "readexactly"])
            arg = 0 if k == "read_all" else rng.choice(BIG_READS[:3] if k == "readexactly" else BIG_READS)
            cons.insert(rng.randint(0, min(3, len(cons))), [rng.choice([0, 0, 1, 2]), k, arg])
    return scn


def _total(prod):
    return sum(o[2] for o in prod if o[1] in ("feed", "burst"))


def shrink(scn):
    if scn.get("kind"):
        return
    for key in ("cancels", "consumer", "producer"):
        lst = scn[key]
        n = len(lst)
        if n == 0:
            continue
        for size in (n // 2, 1):
            if size < 1:
                continue
            for i in range(0, n, size):
                cand = dict(scn)
                cand[key] = lst[:i] + lst[i + size:]
                if key == "producer":
                    cand["total"] = _total(cand[key])
                yield cand
            if n // 2 <= 1:
                break
    if scn.get("parked"):
        cand = dict(scn)
        cand["producer"] = [list(o[:3]) for o in scn["producer"]]
        del cand["parked"]
        yield cand
        for i, op in enumerate(scn["producer"]):
            if len(op) > 3 and op[3]:
                cand = dict(scn)
                cand["producer"] = [list(o) for o in scn["producer"]]
                cand["producer"][i][3] = 0
                yield cand
    for i, op in enumerate(scn["consumer"]):
        if len(op) > 3:
            cand = dict(scn)
            cand["consumer"] = [list(o) for o in scn["consumer"]]
            cand["consumer"][i] = list(op[:3])
            yield cand
            if op[3] != "front":
                cand = dict(scn)
                cand["consumer"] = [list(o) for o in scn["consumer"]]
                cand["consumer"][i][3] = "front"
                yield cand
    for i, op in enumerate(scn["producer"]):
        if op[1] == "burst" and op[2] > 1:
            # one chunk fewer (the halving below is too coarse around a threshold)
            cand = dict(scn)
            cand["producer"] = [list(o) for o in scn["producer"]]
            cand["producer"][i][2] = op[2] - 1
            cand["total"] = _total(cand["producer"])
            yield cand
    for key in ("producer", "consumer"):
        for i, op in enumerate(scn[key]):
            if op[0] > 0:
                cand = dict(scn)
                cand[key] = [list(o) for o in scn[key]]
                cand[key][i][0] = 0
                yield cand
            if isinstance(op[2], int) and op[2] > 1:
                cand = dict(scn)
                cand[key] = [list(o) for o in scn[key]]
                cand[key][i][2] = op[2] // 2
                if key == "producer":
                    cand["total"] = _total(cand[key])
                yield cand


class _Transport:
    def __init__(self):
        self.paused = False
        self.on_resume = None
        self.pauses = 0

    def pause_reading(self):
        if not self.paused:
            self.paused = True
            self.pauses += 1

    def resume_reading(self):
        if self.paused:
            self.paused = False
            if self.on_resume:
                self.on_resume()

    def get_extra_info(self, name, default=None):
        return default

    def is_closing(self):
        return False

    def close(self):
        pass


class _Parser:
    def __init__(self):
        self.pauses = 0

    def pause_reading(self):
        self.pauses += 1

    def resume_reading(self):
        pass

    def feed_data(self, data):
        return (), False, b""


class _ParkingParser:
    """Feeds the ops of a segment one by one; when the stream asked for a pause it keeps
    the rest (as HttpPayloadParser keeps _chunk_tail) until feed_data() is called again."""

    def __init__(self, apply):
        self.pauses = 0
        self.parks = 0
        self.replayed = 0
        self.reparks = 0
        self.paused = False
        self.queue = []
        self.apply = apply

    def pause_reading(self):
        self.pauses += 1
        self.paused = True

    def resume_reading(self):
        self.paused = False

    def feed_data(self, data):
        q = self.queue
        while q:
            if self.paused:
                self.paused = False
                self.parks += 1
                if not data:
                    self.reparks += 1
                break
            op = q.pop(0)
            if not data:
                self.replayed += 1
            self.apply(op)
        return (), False, b""


_PROTO_CLS = []


def _segment_protocol():
    """BaseProtocol leaves data_received() to its subclasses; this one does what they do:
    hand the bytes to the parser."""
    if not _PROTO_CLS:
        from aiohttp.base_protocol import BaseProtocol

        class SegmentProtocol(BaseProtocol):
            __slots__ = ()

            def data_received(self, data):
                self._parser.feed_data(data)

        _PROTO_CLS.append(SegmentProtocol)
    return _PROTO_CLS[0]


class StreamError(Exception):
    pass


def enumerate_cases(tier, seed):
    """Directed cases run before the seeded search."""
    yield {"kind": "empty_payload", "calls": 4}
    yield {"kind": "empty_payload", "calls": 2}


ENUM_RULE = "directed cases: the shared EMPTY_PAYLOAD reader consumed with readchunk()/iter_chunks() several times"


def _run_empty_payload(scn, ch, log):
    """The body-less payload singleton must report end-of-stream the way every reader does:
    readchunk() -> (b"", False); a consumer loop over iter_chunks() must terminate."""
    from aiohttp.streams import EMPTY_PAYLOAD

    viols = []
    with World(ch, 0, log_events=log) as w:
        loop = w.loop
        got = []

        async def consume():
            for _ in range(scn["calls"]):
                got.append(await EMPTY_PAYLOAD.readchunk())
            n = 0
            async for _item in EMPTY_PAYLOAD.iter_chunks():
                n += 1
                if n >= 5:
                    got.append("iter_chunks_did_not_stop")
                    break

        t = loop.run_sim(consume(), vt_cap=5.0, step_cap=10_000)
        if not t.done():
            viols.append({"invariant": "eof_after_all_data", "key": "empty_payload_consumer_blocked", "message": "consumer of EMPTY_PAYLOAD blocked"})
        elif any(g != (b"", False) for g in got):
            viols.append({"invariant": "eof_after_all_data", "key": "empty_payload_readchunk_not_eof_marker",
                          "message": f"EMPTY_PAYLOAD (shared by every body-less message): successive readchunk() calls returned {got}; "
                                     f"the documented end-of-stream marker is (b'', False) - a consumer looping until it sees the marker "
                                     f"(async for over iter_chunks()) never ends and never yields to the loop"})
        st = w.stats()
        return {"violations": viols, "nontrivial": True, "sig": "empty_payload%d" % scn["calls"], "digest": st["digest"], "steps": st["steps"],
                "vtime": st["vtime"], "faults": st["faults"], "probes": {"empty_payload_case": 1}, "shape": "empty_payload"}


def run(scn, ch, log=False):
    if scn.get("kind") == "empty_payload":
        return _run_empty_payload(scn, ch, log)
    from aiohttp.base_protocol import BaseProtocol
    from aiohttp.http_exceptions import LineTooLong
    from aiohttp.streams import StreamReader

    viols = []

    def violate(inv, key, msg):
        if not viols:
            viols.append({"invariant": inv, "key": key, "message": msg})

    with World(ch, scn.get("seed", 0), log_events=log) as w:
        loop = w.loop
        tr = _Transport()
        parked_mode = bool(scn.get("parked"))
        if parked_mode:
            parser = pstub = _ParkingParser(lambda o: apply_op(o[1], o[2]))
            proto = _segment_protocol()(loop, parser=parser)
        else:
            parser = None
            pstub = _Parser()
            proto = BaseProtocol(loop, parser=pstub)
        proto.connection_made(tr)
        limit = scn["limit"]
        stream = StreamReader(proto, limit, loop=loop)
        # undelivered chunk ends that may pile up before the reader must pause: a function of the
        # limit the reader was built with (never read back from the stream)
        high_chunks = max(4, limit // 16)
        content = _CONTENT if scn["total"] + 8 <= len(_CONTENT) else stream_bytes(scn["total"] + 8)
        m = {
            "fed": 0, "consumed": 0, "eof": False, "exc": False, "ends": [], "lossy": False,
            "blocked": 0, "cur": None, "chunk_groups": [], "group": bytearray(), "crossed": False,
            "in_op": False, "last": b"", "done_ops": 0, "cur_op": "", "cands": None,
            "unread_over": False, "push": b"", "blind": False, "drained": 0,
        }
        probes = {"blocked": 0, "paused": 0, "cancel_fired": 0, "lossy": 0, "linetoolong": 0,
                  "chunk_true": 0, "unread": 0, "exc_raised": 0, "iter_ended": 0, "iter_boundary_marker": 0, "iter_chunks_from_boundary": 0,
                  "segments": 0, "parked": 0, "replayed_in_resume": 0, "repaused_in_resume": 0, "blind": 0,
                  "unread_inside_block": 0, "bursts": 0, "burst_cut_by_pause": 0, "chunk_mark_judged": 0,
                  "chunk_mark_over": 0, "chunk_mark_over_raised_read": 0, "big_read": 0}
        for _mode in UNREAD_MODES:
            probes["unread_" + _mode] = 0
        prod = [list(o) for o in scn["producer"]]
        state = {"pi": 0, "waiting": False}

        # ---------------- producer -----------------------------------------
        def apply_op(op, arg):
            loop.note("prod", f"{op}:{arg}")
            try:
                if op == "feed":
                    data = content[m["fed"]: m["fed"] + arg]
                    m["fed"] += len(data)
                    if data:
                        m["unread_over"] = False  # an arrival re-evaluates the high-water mark
                    stream.feed_data(data)
                elif op == "begin":
                    stream.begin_http_chunk_receiving()
                elif op == "end":
                    stream.end_http_chunk_receiving()
                    if not m["ends"] or m["ends"][-1] != m["fed"]:
                        if m["fed"] > 0:
                            m["ends"].append(m["fed"])
                elif op == "burst":
                    # k complete one-byte chunks out of one network read; like HttpPayloadParser the
                    # feeder stops when the stream asks for a pause and keeps the rest for later
                    probes["bursts"] += 1
                    for i in range(arg):
                        p0 = pstub.pauses
                        apply_op("begin", 0)
                        apply_op("feed", 1)
                        apply_op("end", 0)
                        if i + 1 < arg and pstub.pauses > p0:
                            probes["burst_cut_by_pause"] += 1
                            if parked_mode:
                                parser.queue.insert(0, [0, "burst", arg - i - 1, 1])
                            else:
                                prod.insert(state["pi"], [0, "burst", arg - i - 1])
                            break
                elif op == "eof":
                    m["eof"] = True
                    stream.feed_eof()
                elif op == "exc":
                    m["exc"] = True
                    stream.set_exception(StreamError("boom"))
            except RuntimeError as e:
                # begin_http_chunk_receiving after data was fed: documented refusal
                loop.note("prod_refused", str(e)[:40])

        def producer_step():
            if state["pi"] >= len(prod):
                return
            if tr.paused and not m["eof"]:
                state["waiting"] = True
                return
            note_drained()
            if parked_mode:
                # one transport read: the op at pi and every following op glued to it
                seg = [prod[state["pi"]]]
                state["pi"] += 1
                while state["pi"] < len(prod) and len(prod[state["pi"]]) > 3 and prod[state["pi"]][3]:
                    seg.append(prod[state["pi"]])
                    state["pi"] += 1
                probes["segments"] += 1
                fed0 = m["fed"]
                parser.queue.extend(seg)
                loop.note("segment", str(len(seg)))
                proto.data_received(b"\x01" * len(seg))
                check_flow("producer" if m["fed"] > fed0 else "producer_nodata")
            else:
                d, op, arg = prod[state["pi"]][:3]
                state["pi"] += 1
                apply_op(op, arg)
                check_flow("producer" if (op == "feed" and arg > 0) else "producer_nodata")
            if state["pi"] < len(prod):
                nd = prod[state["pi"]][0]
                loop.sim_call_later(nd * 0.001, producer_step)

        def on_resume():
            if state["waiting"]:
                state["waiting"] = False
                loop.sim_call_later(ch.draw("delay", 0, 2) * 0.001, producer_step)

        tr.on_resume = on_resume

        # ---------------- flow-control oracle ------------------------------
        def note_drained():
            """After every loop step and before a network step: a read blocked on its (pending) waiter
            has emptied the buffer, so everything fed so far has left it (also what an accumulating
            read still holds, and also when the read is cancelled before it runs again)."""
            t = m["cur"]
            if t is not None and not t.done() and m["in_op"]:
                fw = t._fut_waiter
                if fw is not None and not fw.done() and m["fed"] > m["drained"]:
                    m["drained"] = m["fed"]

        def check_flow(who):
            if viols or m["exc"]:
                return
            low, high = stream.get_read_buffer_limits()
            buffered = len(m["push"]) + m["fed"] - m["consumed"]
            pending_ends = sum(1 for e in m["ends"] if e >= m["consumed"])
            if tr.paused:
                probes["paused"] += 1
            if m["lossy"]:
                return  # consumed position unknown after a lossy cancel
            # chunk-count mark: chunk ends strictly beyond every position the consumer can have
            # reached are still queued in the reader (a lower bound of what it holds); more of
            # them than the mark of the constructor limit => reading must be paused, whatever
            # read size the consumer has asked for
            if not m["push"] and not m["blind"] and not m["eof"]:
                reached = max(m["consumed"], m["drained"])
                queued = sum(1 for e in m["ends"] if e > reached)
                probes["chunk_mark_judged"] += 1
                if queued > high_chunks:
                    probes["chunk_mark_over"] += 1
                    if low > limit:
                        probes["chunk_mark_over_raised_read"] += 1
                    if not tr.paused:
                        violate("pause_on_high_water", f"chunk_ends_not_paused_after_{who.split('_')[0]}",
                                f"{queued} undelivered chunk ends queued (ends beyond position {reached}; fed={m['fed']}) > "
                                f"chunk-count high-water mark {high_chunks} = max(4, limit // 16) of limit={limit}, "
                                f"but reading is not paused (after {who} step; byte marks now low={low} high={high}; "
                                f"read in flight: {m['cur_op'] if m['in_op'] else None})")
            if m["in_op"] and (m["cur_op"] in ACC_OPS or m["cur_op"].startswith("iter")):
                return  # an accumulating read holds bytes it has not returned yet
            # judged when data arrives: unread_data() (deprecated, consumer side) may
            # push the buffer over the mark without a pause; the next arrival pauses
            if who == "producer" and buffered > high and not tr.paused and not m["eof"]:
                violate("pause_on_high_water", f"not_paused_after_{who}",
                        f"buffered={buffered} > high={high} but reading not paused (after {who} step)")
            # ... and it must still hold when a read has returned: what arrived during the read
            # (data replayed by resume_reading) is judged like any other arrival
            if who == "consumer" and buffered > high and not tr.paused and not m["eof"] and not m["unread_over"]:
                violate("pause_on_high_water", f"not_paused_after_{who}",
                        f"buffered={buffered} > high={high} but reading not paused after a read returned "
                        f"(protocol says paused={proto._reading_paused}, replayed inside resume_reading="
                        f"{parser.replayed if parser else 0})")
            if who == "consumer" and tr.paused and buffered < low and pending_ends <= 1 and not m["eof"]:
                violate("resume_below_low_water", "still_paused",
                        f"buffered={buffered} < low={low}, pending chunk ends={pending_ends}, still paused")

        def after_step():
            if viols:
                return
            t = m["cur"]
            if t is not None and not t.done() and m["in_op"]:
                # consumer blocked inside a read call?
                buffered = len(m["push"]) + m["fed"] - m["consumed"]
                if tr.paused and buffered == 0 and not m["lossy"] and not m["eof"] and not m["exc"]:
                    fw = t._fut_waiter
                    if fw is not None and not fw.done():
                        violate("blocked_reader_paused_transport", "deadlock",
                                f"reader blocked on empty buffer while transport paused "
                                f"(fed={m['fed']} consumed={m['consumed']})")

        loop.step_hooks.append(after_step)

        # ---------------- consumer -----------------------------------------
        def go_lossy():
            m["lossy"] = True
            m["cands"] = None
            probes["lossy"] += 1
            if m["push"]:
                # part of what unread_data() inserted may have gone with the dropped read: the
                # position cannot be re-identified in the stream content, delivery is not judged any more
                m["blind"] = True
                m["push"] = b""
                probes["blind"] += 1

        def account(data, op):
            """bytes returned by a read: must be the next bytes of the stream."""
            if not data:
                return
            data = bytes(data)
            if m["blind"]:
                return
            if m["push"] and not m["lossy"]:
                # what unread_data() inserted at the head comes first, then the stream goes on
                push = m["push"]
                k = min(len(push), len(data))
                rest = len(data) - k
                exp = push[:k] + content[m["consumed"]: m["consumed"] + rest]
                if m["consumed"] + rest > m["fed"] or exp != data:
                    violate("exact_ordered_delivery", f"mismatch_after_unread_{op}",
                            f"{op} returned {data[:40]!r} (len {len(data)}) but unread_data() had inserted {push[:40]!r} "
                            f"at the head of the buffer, followed by stream position {m['consumed']} "
                            f"({content[m['consumed']: m['consumed'] + 20]!r}...); expected {exp[:40]!r}; fed={m['fed']}")
                    return
                m["push"] = push[k:]
                m["consumed"] += rest
                m["drained"] = max(m["drained"], m["consumed"])
                m["last"] = data
                return
            exp = content[m["consumed"]: m["consumed"] + len(data)]
            if m["lossy"]:
                # position uncertain: keep the set of candidate positions
                n = len(data)
                cands = m["cands"]
                if cands is None:
                    cands = set()
                    pos = content.find(data, m["consumed"], m["fed"])
                    while pos >= 0:
                        cands.add(pos)
                        pos = content.find(data, pos + 1, m["fed"])
                else:
                    cands = {c for c in cands if content[c:c + n] == data and c + n <= m["fed"]}
                if not cands:
                    violate("exact_ordered_delivery", f"mismatch_{op}",
                            f"{op} returned {data[:40]!r} which occurs nowhere in the unread part of the stream "
                            f"(>= {m['consumed']}, fed={m['fed']}) after a lossy read")
                    return
                m["cands"] = {c + n for c in cands}
                m["consumed"] = min(m["cands"])
                m["last"] = data
                if len(m["cands"]) == 1:
                    m["lossy"] = False
                    m["cands"] = None
                    m["drained"] = max(m["drained"], m["consumed"])
                return
            if m["consumed"] + len(data) > m["fed"] or exp != data:
                violate("exact_ordered_delivery", f"mismatch_{op}",
                        f"{op} returned {data[:40]!r} (len {len(data)}) but stream position "
                        f"{m['consumed']} holds {exp[:40]!r}; fed={m['fed']}")
                return
            m["consumed"] += len(data)
            m["drained"] = max(m["drained"], m["consumed"])
            m["last"] = data
            m["lossy"] = False

        async def one(op, arg, mode=None):
            low0 = stream.get_read_buffer_limits()[0]
            if op in ("read", "readexactly", "iter_chunked") and arg > limit or op == "read_all":
                probes["big_read"] += 1
            if op == "read":
                d = await stream.read(arg)
                if len(d) > arg:
                    violate("exact_ordered_delivery", "read_too_long", f"read({arg}) returned {len(d)} bytes")
                account(d, op)
                eof_check(d, op)
            elif op == "read_all":
                d = await stream.read()
                account(d, op)
                if not viols and not m["lossy"] and not (m["eof"] and m["consumed"] == m["fed"] and not m["push"]):
                    violate("eof_after_all_data", "read_all_early",
                            f"read() returned before EOF/all data: consumed={m['consumed']} fed={m['fed']} eof={m['eof']}")
            elif op == "readany":
                d = await stream.readany()
                account(d, op)
                eof_check(d, op)
            elif op in ("readline", "readuntil"):
                sep = b"\n" if op == "readline" else arg.encode()
                try:
                    d = await (stream.readline() if op == "readline" else stream.readuntil(sep))
                except LineTooLong:
                    probes["linetoolong"] += 1
                    go_lossy()
                    return
                account(d, op)
                if d and len(sep) == 1 and not viols:
                    if sep in d[:-1]:
                        violate("line_boundary", "sep_inside", f"{op} returned {d!r} with separator inside")
                    if not d.endswith(sep) and not m["eof"]:
                        violate("line_boundary", "no_sep_no_eof", f"{op} returned {d!r} without separator before EOF")
                eof_check(d, op)
            elif op == "readexactly":
                try:
                    d = await stream.readexactly(arg)
                except asyncio.IncompleteReadError as e:
                    account(e.partial, op)
                    eof_check(b"", op)
                    return
                if len(d) != arg:
                    violate("exact_ordered_delivery", "readexactly_len", f"readexactly({arg}) returned {len(d)}")
                account(d, op)
            elif op == "readchunk":
                d, flag = await stream.readchunk()
                chunk_account(d, flag)
            elif op == "read_nowait":
                d = stream.read_nowait(arg)
                if arg >= 0 and len(d) > arg:
                    violate("exact_ordered_delivery", "read_nowait_too_long", f"read_nowait({arg}) -> {len(d)}")
                account(d, op)
            elif op == "unread":
                last = m["last"]
                if mode in (None, "tail"):
                    d = last[-arg:]
                elif mode == "front":
                    d = last[:arg]
                elif mode == "altered":
                    d = last[-arg:].swapcase()
                elif mode == "earlier":
                    s = m["consumed"] - (0 if m["push"] else len(last))
                    d = content[max(0, s - arg): s]
                else:
                    d = (b"#%d#" % m["done_ops"] * arg)[:arg]
                if d and not m["lossy"]:
                    probes["unread"] += 1
                    if mode is not None:
                        probes["unread_" + mode] += 1
                        if stream._buffer_offset:
                            probes["unread_inside_block"] += 1
                    stream.unread_data(d)
                    m["unread_over"] = True
                    if mode is None and not m["push"]:
                        # the position reached stays reached: chunk ends passed are not queued again
                        m["drained"] = max(m["drained"], m["consumed"])
                        m["consumed"] -= len(d)
                    else:
                        m["push"] = d + m["push"]
                    m["last"] = b""
                    m["crossed"] = True
            elif op == "iter_chunked":
                n = 0
                async for d in stream.iter_chunked(arg):
                    account(d, op)
                    n += 1
                    if n >= 3:
                        break
                else:
                    iter_ended(op)
            elif op == "iter_any":
                n = 0
                async for d in stream.iter_any():
                    account(d, op)
                    n += 1
                    if n >= 3:
                        break
                else:
                    iter_ended(op)
            elif op == "iter_lines":
                n = 0
                try:
                    async for d in stream:
                        account(d, op)
                        n += 1
                        if n >= 3:
                            break
                    else:
                        iter_ended(op)
                except LineTooLong:
                    probes["linetoolong"] += 1
                    go_lossy()
            elif op == "iter_chunks":
                n = 0
                if m["crossed"] and not m["lossy"] and m["consumed"] in m["ends"]:
                    probes["iter_chunks_from_boundary"] += 1  # another API stopped exactly on a chunk end
                async for d, flag in stream.iter_chunks():
                    if not d and flag:
                        probes["iter_boundary_marker"] += 1
                    chunk_account(d, flag)
                    n += 1
                    if n >= 3:
                        break
                else:
                    iter_ended(op)
            if op not in ("readchunk", "iter_chunks"):
                m["crossed"] = True

        def iter_ended(op):
            """the async iteration stopped by itself: that is the end-of-stream report"""
            probes["iter_ended"] += 1
            if viols or m["lossy"]:
                return
            if not (m["eof"] and m["consumed"] == m["fed"] and not m["push"]):
                violate("eof_after_all_data", f"early_end_{op}",
                        f"async iteration ({op}) ended but eof={m['eof']} consumed={m['consumed']} fed={m['fed']}")

        def eof_check(d, op):
            if viols or m["lossy"]:
                return
            if not d and not (m["eof"] and m["consumed"] == m["fed"] and not m["push"]):
                violate("eof_after_all_data", f"early_eof_{op}",
                        f"{op} returned b'' but eof={m['eof']} consumed={m['consumed']} fed={m['fed']}")

        def chunk_account(d, flag):
            account(d, "readchunk")
            if viols:
                return
            if not d and not flag:
                eof_check(d, "readchunk")
                return
            if flag:
                probes["chunk_true"] += 1
            if m["crossed"] or m["lossy"]:
                return
            pos = m["consumed"]
            start = pos - len(d)
            # a piece never spans a chunk end in its interior
            for e in m["ends"]:
                if start < e < pos:
                    violate("chunk_boundaries", "spans_end",
                            f"readchunk piece [{start},{pos}) spans the chunk end at {e}")
                    return
            if flag and pos not in m["ends"]:
                violate("chunk_boundaries", "true_not_at_end",
                        f"readchunk reported end_of_http_chunk at {pos}, chunk ends are {m['ends'][:12]}")

        cons = [list(o) for o in scn["consumer"]]

        async def consumer():
            for idx, o in enumerate(cons):
                d, op, arg = o[:3]
                mode = o[3] if len(o) > 3 else None
                if d:
                    await asyncio.sleep(d * 0.001)
                if viols:
                    return
                loop.note("cons", f"{op}:{arg}")
                m["in_op"] = True
                m["cur_op"] = op
                t = loop.create_task(one(op, arg, mode), name="read")
                m["cur"] = t
                try:
                    await asyncio.wait([t])
                finally:
                    m["in_op"] = False
                if t.cancelled():
                    probes["cancel_fired"] += 1
                    if op in ACC_OPS or op.startswith("iter"):
                        go_lossy()
                        probes["lossy"] += 1
                    m["crossed"] = m["crossed"] or op not in ("readchunk",)
                elif t.exception() is not None:
                    e = t.exception()
                    if isinstance(e, StreamError) and m["exc"]:
                        probes["exc_raised"] += 1
                        return
                    violate("unexpected_exception", f"{type(e).__name__}_{op}", f"{op}({arg}) raised {e!r}")
                    return
                m["done_ops"] += 1
                check_flow("consumer")

        # cancellation faults: before loop step k cancel the read in flight if it is blocked
        def mk_cancel():
            def c():
                t = m["cur"]
                if t is not None and not t.done() and m["in_op"]:
                    fw = t._fut_waiter
                    if fw is not None and not fw.done():
                        loop.faults["cancel"] += 1
                        loop.note("cancel", "read")
                        t.cancel()
            return c

        for k in scn["cancels"]:
            loop.at_step.setdefault(k, []).append(mk_cancel())

        def count_block():
            t = m["cur"]
            if t is not None and not t.done() and m["in_op"] and t._fut_waiter is not None:
                m["blocked"] += 1
            note_drained()

        loop.step_hooks.append(count_block)
        loop.sim_call_later(prod[0][0] * 0.001 if prod else 0, producer_step)
        ct = loop.run_sim(consumer(), vt_cap=30.0, step_cap=20000)
        # After the producer has fed everything: a consumer still blocked must be
        # waiting for data that will never come (no EOF in the program) - legal -
        # unless the transport is paused with producer ops left (deadlock).
        if not viols and not ct.done():
            remaining = len(prod) - state["pi"] + (len(parser.queue) if parser else 0)
            if remaining > 0 and tr.paused:
                buffered = m["fed"] - m["consumed"]
                violate("progress", "stuck_paused",
                        f"consumer blocked, producer held by paused transport with {remaining} ops left; "
                        f"buffered={buffered} lossy={m['lossy']}")
        if not viols and loop.exc_contexts:
            c = loop.exc_contexts[0]
            violate("loop_exception", f"{c['exc_type']}", f"exception reached the loop: {c}")
        probes["blocked"] = 1 if m["blocked"] else 0
        probes["paused"] = 1 if tr.pauses else 0
        if parser is not None:
            probes["parked"] = parser.parks
            probes["replayed_in_resume"] = parser.replayed
            probes["repaused_in_resume"] = parser.reparks
        st = w.stats()
        res = {
            "violations": viols, "nontrivial": bool(m["blocked"] and tr.pauses),
            "sig": st["sig"], "digest": st["digest"], "steps": st["steps"], "vtime": st["vtime"],
            "faults": st["faults"], "probes": {k: v for k, v in probes.items() if v},
            "shape": f"L{min(scn['limit'], 99)}-p{len(prod)}-c{len(cons)}-x{len(scn['cancels'])}",
        }
        if log:
            res["event_log"] = loop.event_log
        return res


TECHNIQUE = "deterministic simulation: seeded producer/consumer actors on a virtual-time loop, reference FIFO model, per-step invariants"
LEVEL_TEXT = (
    "Seeded exploration of producer/consumer interleavings of the real StreamReader against a byte-FIFO reference model, "
    "with flow-control and deadlock invariants checked after every loop step; sampling, not proof."
)
LEVEL_NOTE = (
    "Trusted: the reference model in props/c08.py, asyncio's task/future semantics, and the assumption that a paused "
    "transport delivers nothing; in parked runs also the segment-parking parser stub. "
    "Bounds: <=14 producer ops (+ <=2 bursts of <=40 one-byte chunks), <=17 consumer ops, limits 1..64 and 65536."
)
