"""C11 - WebSocket codec round trip (DESIGN.md 9, C11).

World U: the real `WebSocketWriter` writes into a SimTransport whose other end
feeds the real pure-Python `WebSocketReader` + `WebSocketDataQueue`; both are
configured from one "negotiated" parameter set, as `ClientSession._ws_connect`
and `WebSocketResponse._pre_start/_post_start` configure them.  1-4 sender
tasks call `send_frame`/`close`; a consumer task reads the queue.  A minority of
runs (world CS) goes through the real `ws_connect` client and the real
`WebSocketResponse` server over SimNet instead.
"""
from __future__ import annotations

import asyncio
import collections
import random

from ref import ws as R
from sim.world import World

PROP = "C11"
LEVEL = "exploration"
DESIGN_REF = "9/C11"
BUDGET = {"quick": 40, "thorough": 600}
BATCH = 40
ENUM_BATCH = 25
ENUM_SHARE = 0.5
ENUM_IS_EXHAUSTIVE = False
ENUM_RULE = (
    "Four fixed conversations (two or three concurrent senders, messages on both sides of the 16 KiB "
    "sync-compression threshold, context takeover on and off) with one sender cancelled before loop step k, for "
    "every k in 1..K and every sender; K is a fixed bound (70 quick / 400 thorough) above the length of most of these runs, "
    "executor mode and network choices come from the tape, so the cancel-step dimension is complete only for the "
    "choices each run happened to draw (not claimed exhaustive)."
)
TECHNIQUE = ("deterministic simulation: real WebSocketWriter -> in-memory transport -> real WebSocketReader on a "
             "virtual-time loop; seeded segmentation, delays, executor linearisation, sender cancellation at loop "
             "steps, reader holds; sent-vs-received merge oracle and independent RFC 6455/7692 wire decoder")
LEVEL_TEXT = (
    "Seeded exploration of message sequences x negotiated parameters x concurrent senders x segmentation x executor "
    "linearisation x cancellation steps x reader back-pressure; every received sequence must be a merge of the senders' "
    "sequences with identical payloads and the bytes on the wire must decode to the same messages with an independent "
    "RFC 6455 / RFC 7692 decoder. Cancel steps 1..K are enumerated for four fixed conversations. Sampling, not proof."
)
LEVEL_NOTE = (
    "Trusted: ref/ws.py (self-tested on RFC vectors), zlib, SimNet's stream model, SimLoop.run_in_executor's two "
    "linearisations (job runs at submission or at completion; never concurrently with loop code). Bounds: 1-4 senders, "
    "<= 6 messages each, payloads 0..65537 and 16 KiB +-1, up to 256 KiB (quick) / 1 MiB (thorough); compress off or "
    "wbits 9..15; per-message compress override only on connections that negotiated deflate. Relaxation after a "
    "cancel: the cancelled send may be absent or delivered once and whole; the sender stops after it."
)
RULE = (
    "Run = negotiated (use_mask, compress 0|9..15, notakeover, writer limit) x 1-4 sender programs (text/binary/ping/"
    "pong/close, sizes {0,1,125,126,127,16383,16384,16385,65535,65536,65537,...}, compressible/random/UTF-8 fill, "
    "per-message compress override, think time) x segmentation policy x latency x executor mode per job x 0-2 cancels "
    "(sender i before loop step k) x 0-2 reader holds x consumer delay program; 8% of runs use the real client and "
    "server (ws_connect / WebSocketResponse) instead. Non-trivial: at least 3 data messages delivered AND at least one "
    "of {two senders overlapped in send_frame, a compression job went through the executor, a cancel fired on a live "
    "sender, drain blocked, the reader paused the transport}. Distinct = interleaving signature."
)
COMPONENTS = {
    "real": ["aiohttp._websocket.writer.WebSocketWriter", "aiohttp._websocket.reader_py.WebSocketReader/WebSocketDataQueue",
             "aiohttp.compression_utils.ZLibCompressor/ZLibDecompressor", "aiohttp._websocket.helpers.websocket_mask (Python)",
             "aiohttp.client_proto.ResponseHandler (both ends, upgraded state)", "asyncio.Lock/shield/tasks",
             "CS sample: ClientSession.ws_connect, web.WebSocketResponse, AppRunner/TCPSite, TCPConnector"],
    "stub": ["network (SimNet)", "executor (simulated, two linearisations)", "HTTP upgrade handshake in world U (state set directly)"],
}
ASSUMPTIONS = [
    "an executor job is atomic with respect to loop code (runs either at submission or at completion)",
    "a cancelled sender task does not send again on the connection (the application stops using that task)",
    "per-message compress= is only used on connections that negotiated permessage-deflate (otherwise the peer must refuse RSV1)",
    "close is the last thing a sender does; sends refused with ClientConnectionResetError after a close are legal",
]

SYNC_THRESHOLD = 16 * 1024  # checked against writer.WEBSOCKET_MAX_SYNC_CHUNK_SIZE at run time
SIZES_SMALL = [0, 0, 1, 1, 2, 5, 17, 125, 126, 127, 300, 1000]
SIZES_EDGE = [16383, 16384, 16385, 65535, 65536, 65537, 20000, 32768, 40000]
SIZES_BIG = {"quick": [100000, 200000, 262144], "thorough": [200000, 262144, 524288, 1048575, 1048576, 1048577]}
KINDS = ["text"] * 6 + ["binary"] * 6 + ["ping"] * 2 + ["pong"]


# ---------------------------------------------------------------------------
# scenario generation


def gen_msg(rng, tier, neg, big_ok=True, p_override=0.0):
    kind = rng.choice(KINDS)
    if kind in ("ping", "pong"):
        return {"kind": kind, "size": rng.choice([0, 1, 5, 124, 125]), "fill": "rnd", "seed": rng.randrange(1 << 30),
                "compress": None, "delay": rng.choice([0, 0, 0, 1, 3])}
    r = rng.random()
    if r < 0.45:
        size = rng.choice(SIZES_SMALL)
    elif r < 0.93 or not big_ok:
        size = rng.choice(SIZES_EDGE)
    else:
        size = rng.choice(SIZES_BIG[tier])
    comp = None
    if neg["compress"] and rng.random() < p_override:
        comp = rng.choice([9, 10, 12, 15, neg["compress"]])
    return {"kind": kind, "size": size, "fill": rng.choice(["pat", "pat", "rnd", "zero", "utf"]),
            "seed": rng.randrange(1 << 30), "compress": comp, "delay": rng.choice([0, 0, 0, 0, 1, 2, 5])}


def gen_neg(rng):
    compress = rng.choice([0, 0, 9, 10, 11, 12, 13, 14, 15, 15, 15])
    return {"use_mask": rng.random() < 0.5, "compress": compress, "notakeover": bool(compress) and rng.random() < 0.4,
            "limit": rng.choice([65536, 65536, 65536, 1024, 16])}


def gen(rng, tier, index):
    if rng.random() < 0.08:
        return gen_cs(rng, tier)
    neg = gen_neg(rng)
    ns = rng.choice([1, 1, 2, 2, 3, 4])
    # per-message override on a connection with context takeover is a known corruptor; keep it to a minority of runs
    # so that the other runs stay fully strict
    r = rng.random()
    if not neg["compress"]:
        p_over = 0.0
    elif neg["notakeover"]:
        p_over = 0.25 if r < 0.5 else 0.0
    else:
        p_over = 0.25 if r < 0.12 else 0.0
    senders = []
    for s in range(ns):
        msgs = [gen_msg(rng, tier, neg, p_override=p_over) for _ in range(rng.randint(1, 6))]
        senders.append(msgs)
    if rng.random() < 0.3:
        senders[rng.randrange(ns)].append({"kind": "close", "size": rng.choice([0, 5, 123]), "fill": "utf", "seed": rng.randrange(1 << 30),
                                           "compress": None, "delay": rng.choice([0, 2, 10]), "code": rng.choice([1000, 1001, 1011, 3000, 4999])})
    ncancel = rng.choice([0, 0, 0, 1, 1, 2])
    cancels = sorted([rng.randint(1, 250), rng.randrange(ns)] for _ in range(ncancel))
    holds = sorted([rng.randint(0, 20), rng.choice([1, 5, 30, 200])] for _ in range(rng.choice([0, 0, 0, 1, 2])))
    return {"world": "U", "neg": neg,
            "reader": {"decode_text": rng.random() < 0.7, "max_msg_size": rng.choice([0, 4 * 1024 * 1024]),
                       "qlimit": rng.choice([65536, 65536, 65536, 256])},
            "senders": senders, "cancels": cancels, "holds": holds,
            "seg": rng.choice(["whole", "whole", "mss", "small", "tiny", "byte", "mixed", "mixed"]),
            "latency": rng.choice([0, 1, 3, 3]), "cons_delays": [rng.choice([0, 0, 0, 1, 4, 25]) for _ in range(rng.choice([1, 2, 3]))]}


def gen_cs(rng, tier):
    def msgs(n):
        out = []
        for _ in range(n):
            kind = rng.choice(["text", "text", "binary", "binary", "ping"])
            size = rng.choice([0, 1, 125, 126, 127, 1000, 16384, 16385, 65535, 65536, 70000]) if kind != "ping" else rng.choice([0, 5, 125])
            out.append({"kind": kind, "size": size, "fill": rng.choice(["pat", "rnd", "utf"]), "seed": rng.randrange(1 << 30),
                        "compress": None, "delay": rng.choice([0, 0, 1])})
        return out
    return {"world": "CS", "client_compress": rng.choice([0, 0, 15, 15, 12, 9]), "server_compress": rng.random() < 0.8,
            "c2s": msgs(rng.randint(1, 5)), "s2c": msgs(rng.randint(1, 5)),
            "seg": rng.choice(["whole", "mss", "small", "tiny", "mixed"]), "latency": rng.choice([0, 1, 3]),
            "decode_text": rng.random() < 0.7}


def enumerate_cases(tier, seed):
    """cancel sender i before loop step k, for every k up to a bound above the run length"""
    K = 70 if tier == "quick" else 400
    bases = []
    for bi, (compress, notakeover, mask) in enumerate([(15, False, True), (15, True, False), (9, False, False), (0, False, True)]):
        rng = random.Random(f"c11-enum-{bi}")
        neg = {"use_mask": mask, "compress": compress, "notakeover": notakeover, "limit": 65536}
        senders = [
            [{"kind": "text", "size": 40000, "fill": "pat", "seed": 1, "compress": None, "delay": 0},
             {"kind": "binary", "size": 17, "fill": "pat", "seed": 2, "compress": None, "delay": 0},
             {"kind": "text", "size": 16385, "fill": "utf", "seed": 3, "compress": None, "delay": 0}],
            [{"kind": "binary", "size": 300, "fill": "pat", "seed": 4, "compress": None, "delay": 0},
             {"kind": "text", "size": 65536, "fill": "pat", "seed": 5, "compress": None, "delay": 1},
             {"kind": "ping", "size": 5, "fill": "rnd", "seed": 6, "compress": None, "delay": 0},
             {"kind": "binary", "size": 16384, "fill": "rnd", "seed": 7, "compress": None, "delay": 0}],
        ]
        if bi % 2 == 0:
            senders.append([{"kind": "text", "size": 1000, "fill": "pat", "seed": 8, "compress": None, "delay": 0},
                            {"kind": "text", "size": 20000, "fill": "pat", "seed": 9, "compress": None, "delay": 0}])
        bases.append({"world": "U", "neg": neg, "reader": {"decode_text": True, "max_msg_size": 0, "qlimit": 65536},
                      "senders": senders, "cancels": [], "holds": [[1, 5]] if bi == 1 else [],
                      "seg": (["whole", "whole", "mss", "whole"] if tier == "quick" else ["whole", "mss", "mixed", "small"])[bi],
                      "latency": [0, 1, 3, 1][bi], "cons_delays": [0]})
    for b in bases:
        yield b
        for s in range(len(b["senders"])):
            for k in range(1, K + 1):
                c = dict(b)
                c["cancels"] = [[k, s]]
                yield c


def shrink(scn):
    if scn.get("world") == "CS":
        for key in ("c2s", "s2c"):
            for i in range(len(scn[key])):
                if len(scn[key]) > 1:
                    c = dict(scn)
                    c[key] = scn[key][:i] + scn[key][i + 1:]
                    yield c
        return
    for i in range(len(scn["cancels"])):
        c = dict(scn)
        c["cancels"] = scn["cancels"][:i] + scn["cancels"][i + 1:]
        yield c
    for i in range(len(scn["holds"])):
        c = dict(scn)
        c["holds"] = scn["holds"][:i] + scn["holds"][i + 1:]
        yield c
    ns = len(scn["senders"])
    if ns > 1:
        for s in range(ns):
            c = dict(scn)
            c["senders"] = scn["senders"][:s] + scn["senders"][s + 1:]
            c["cancels"] = [[k, (j if j < s else j - 1)] for k, j in scn["cancels"] if j != s]
            yield c
    for s in range(ns):
        for i in range(len(scn["senders"][s])):
            if len(scn["senders"][s]) > 1:
                c = dict(scn)
                c["senders"] = [list(x) for x in scn["senders"]]
                del c["senders"][s][i]
                yield c
    for s in range(ns):
        for i, m in enumerate(scn["senders"][s]):
            for small in (0, 17, 16385):
                if m["size"] > small and m["kind"] in ("text", "binary"):
                    c = dict(scn)
                    c["senders"] = [list(x) for x in scn["senders"]]
                    c["senders"][s][i] = dict(m, size=small)
                    yield c
                    break
            if m["delay"]:
                c = dict(scn)
                c["senders"] = [list(x) for x in scn["senders"]]
                c["senders"][s][i] = dict(m, delay=0)
                yield c
    if scn["seg"] != "whole":
        yield dict(scn, seg="whole")
    if scn["latency"]:
        yield dict(scn, latency=0)
    if any(scn["cons_delays"]):
        yield dict(scn, cons_delays=[0])


# ---------------------------------------------------------------------------
# payloads


_PAT = b"The quick brown fox jumps over the lazy dog. 0123456789 "
_UTF = "z\u00e9\u20ac\U0001F600\u03ba ".encode()


def make_payload(m, s, i) -> bytes:
    """Deterministic payload of exactly m['size'] octets, tagged with its sender and ordinal when it fits;
    valid UTF-8 for text and close reasons."""
    size = m["size"]
    tag = f"<{s}.{i}.{m['seed'] % 997}>".encode()
    if len(tag) > size:
        tag = b""
    n = size - len(tag)
    kind = m["kind"]
    fill = m["fill"]
    textual = kind in ("text", "close")
    if fill == "zero":
        body = (b"a" if textual else b"\0") * n
    elif fill == "pat":
        body = (_PAT * (n // len(_PAT) + 1))[:n]
    elif fill == "utf" and textual:
        body = (_UTF * (n // len(_UTF) + 1))[:n]
        # repair a multi-byte character cut at the end
        while body:
            try:
                body.decode()
                break
            except UnicodeDecodeError:
                body = body[:-1]
        body = body + b"x" * (n - len(body))
    else:
        rr = random.Random(m["seed"])
        if textual:
            unit = bytes(rr.choice(b"abcdefghijklmnopqrstuvwxyzABCDEFGHIJKLMNOPQRSTUVWXYZ0123456789 ") for _ in range(min(n, 4096)))
            body = (unit * (n // len(unit) + 1))[:n] if unit else b""
        else:
            body = rr.randbytes(n)
    return tag + body


def as_tuple(m, payload):
    if m["kind"] == "close":
        return ("close", m["code"], payload)
    return (m["kind"], payload)


def short(m):
    if m is None:
        return "None"
    if m[0] == "close":
        return f"close({m[1]},{m[2][:16]!r})"
    return f"{m[0]}[{len(m[1])}]{m[1][:16]!r}"


def merge_check(received, lanes):
    """received: list of message tuples; lanes: list of (must: list, optional: tuple|None).
    -> (ok, index of the first message that cannot be placed | None, states at that point)"""
    full = [must + ([opt] if opt is not None else []) for must, opt in lanes]
    states = {tuple(0 for _ in lanes)}
    for idx, m in enumerate(received):
        new = set()
        for st in states:
            for i, seq in enumerate(full):
                p = st[i]
                if p < len(seq) and seq[p] == m:
                    new.add(st[:i] + (p + 1,) + st[i + 1:])
        if not new:
            return False, idx, states
        states = new
    for st in states:
        if all(st[i] >= len(lanes[i][0]) for i in range(len(lanes))):
            return True, None, states
    return False, None, states


# ---------------------------------------------------------------------------
# world U


def run(scn, ch, log=False):
    if scn.get("world") == "CS":
        return run_cs(scn, ch, log)
    return run_u(scn, ch, log)


def run_u(scn, ch, log=False):
    from aiohttp._websocket import reader as reader_mod
    from aiohttp._websocket import reader_py, writer as writer_mod
    from aiohttp._websocket.models import WSMsgType
    from aiohttp.client_exceptions import ClientConnectionResetError
    from aiohttp.client_proto import ResponseHandler
    from aiohttp.streams import EofStream
    from props.c12 import norm_msg

    assert reader_mod.WebSocketReader is reader_py.WebSocketReader, "compiled WebSocket reader is active"
    assert writer_mod.WEBSOCKET_MAX_SYNC_CHUNK_SIZE == SYNC_THRESHOLD
    viols = []

    def viol(inv, key, msg):
        if not any(v["invariant"] == inv and v["key"] == key for v in viols) and len(viols) < 4:
            viols.append({"invariant": inv, "key": key, "message": msg})

    neg = scn["neg"]
    rd = scn["reader"]
    probes = collections.Counter()
    with World(ch, scn.get("seed", 0), log_events=log) as w:
        loop, net = w.loop, w.net
        net.max_latency_ticks = scn["latency"]
        net.default_policy = scn["seg"]
        net.wire = []
        pa = ResponseHandler(loop)
        pb = ResponseHandler(loop)
        pa._upgraded = True
        pb._upgraded = True
        a, b = net.attach_pair(pa, pb)
        queue = reader_py.WebSocketDataQueue(pb, rd["qlimit"], loop=loop)
        reader = reader_py.WebSocketReader(queue, rd["max_msg_size"], compress=bool(neg["compress"]), decode_text=rd["decode_text"])
        pb.set_parser(reader, queue)
        writer = writer_mod.WebSocketWriter(pa, a, use_mask=neg["use_mask"], compress=neg["compress"],
                                            notakeover=neg["notakeover"], limit=neg["limit"])
        OPC = {"text": WSMsgType.TEXT, "binary": WSMsgType.BINARY, "ping": WSMsgType.PING, "pong": WSMsgType.PONG}
        ns = len(scn["senders"])
        plan = [[(m, make_payload(m, s, i)) for i, m in enumerate(msgs)] for s, msgs in enumerate(scn["senders"])]
        status = [["notstarted"] * len(p) for p in plan]
        in_send = [0]
        overlap = [0]
        drain_blocked = [0]
        cancel_fired = []
        override_before = [False]  # an override-compressed message was handed to a takeover connection

        async def sender(s):
            for i, (m, payload) in enumerate(plan[s]):
                if m["delay"]:
                    await asyncio.sleep(m["delay"] * 0.001)
                status[s][i] = "started"
                loop.note("send", f"{s}.{i}:{m['kind']}:{m['size']}")
                in_send[0] += 1
                if in_send[0] > 1:
                    overlap[0] += 1
                if m["compress"] and neg["compress"] and not neg["notakeover"] and m["kind"] != "close":
                    # handed to the writer: even a cancelled (shielded) send may reach the wire
                    override_before[0] = True
                try:
                    if m["kind"] == "close":
                        await writer.close(m["code"], payload)
                    else:
                        await writer.send_frame(payload, OPC[m["kind"]], m["compress"])
                    status[s][i] = "done"
                except asyncio.CancelledError:
                    status[s][i] = "cancelled"
                    raise
                except ClientConnectionResetError as e:
                    if writer._closing or a.is_closing():
                        status[s][i] = "refused"
                        return
                    status[s][i] = "error"
                    viol("send_completes", f"send_raised:{type(e).__name__}", f"sender {s} message {i} {m}: {e!r}")
                    return
                except Exception as e:
                    status[s][i] = "error"
                    viol("send_completes", f"send_raised:{type(e).__name__}",
                         f"sender {s} message {i} kind={m['kind']} size={m['size']} compress={m['compress']} neg={neg}: {e!r}")
                    return
                finally:
                    in_send[0] -= 1
                if m["compress"] and neg["compress"] and not neg["notakeover"]:
                    override_before[0] = True

        received = []
        rerr = []

        async def consumer():
            i = 0
            dl = scn["cons_delays"] or [0]
            while True:
                d = dl[i % len(dl)]
                i += 1
                if d:
                    await asyncio.sleep(d * 0.001)
                try:
                    msg = await queue.read()
                except EofStream:
                    return
                except Exception as e:
                    rerr.append(e)
                    return
                received.append(norm_msg(msg, viol, rd["decode_text"]))

        tasks = [loop.create_task(sender(s), name=f"sender{s}") for s in range(ns)]
        ctask = loop.create_task(consumer(), name="consumer")

        def mk_cancel(s):
            def c():
                t = tasks[s]
                if not t.done():
                    loop.faults["cancel"] += 1
                    loop.note("cancel", f"sender{s}")
                    cancel_fired.append((s, "in_send" if any(x == "started" for x in status[s]) else "idle"))
                    t.cancel()
            return c

        for k, s in scn["cancels"]:
            if 0 <= s < ns:
                loop.at_step.setdefault(k, []).append(mk_cancel(s))
        for at, dur in scn["holds"]:
            loop.sim_call_later(at * 0.001, _hold, loop, net, a.out)
            loop.sim_call_later((at + dur) * 0.001, net.release, a.out)

        def watch():
            if pa._paused and pa._drain_waiter is not None:
                drain_blocked[0] = 1

        loop.step_hooks.append(watch)
        loop.run_sim(None, vt_cap=300.0, step_cap=600000)
        loop.step_hooks.remove(watch)
        # ------------------------------------------------------------------ judgement
        desc = f"neg={neg} reader={rd} seg={scn['seg']} senders=" + " | ".join(
            ",".join(f"{m['kind'][0]}{m['size']}{'/c' + str(m['compress']) if m['compress'] else ''}:{status[s][i]}"
                     for i, (m, _) in enumerate(plan[s])) for s in range(ns))
        tag = ":override_takeover" if override_before[0] else ""
        if loop.capped:
            viol("progress", f"run_capped_{loop.capped}", f"{desc}: run hit the {loop.capped} cap")
        for s, t in enumerate(tasks):
            if not t.done():
                viol("progress", "sender_blocked_at_quiescence",
                     f"{desc}: sender {s} still pending when nothing is left to happen (paused={pa._paused}, "
                     f"lock locked={writer._send_lock.locked()}, undelivered={len(a.out.buf)})")
            elif not t.cancelled() and t.exception() is not None:
                viol("send_completes", f"sender_task_raised:{type(t.exception()).__name__}", f"{desc}: {t.exception()!r}")
        if writer._background_tasks:
            viol("progress", "background_send_pending", f"{desc}: {len(writer._background_tasks)} shielded send task(s) never finished")
        if a.out.buf and not a.out.held:
            viol("progress", "bytes_undelivered", f"{desc}: {len(a.out.buf)} octets never reached the reader "
                                                  f"(reader paused={pb._reading_paused}, queue={len(queue._buffer)})")
        lanes = []
        any_cancel_in_send = False
        for s in range(ns):
            must, opt = [], None
            for i, (m, payload) in enumerate(plan[s]):
                st = status[s][i]
                if st == "done":
                    must.append(as_tuple(m, payload))
                elif st in ("cancelled", "started"):
                    opt = as_tuple(m, payload)
                    any_cancel_in_send = True
                    break
                else:
                    break
            lanes.append((must, opt))
        if rerr:
            e = rerr[0]
            viol("reader_accepts_writer_output", f"reader_error:{type(e).__name__}:{getattr(e, 'code', None)}{tag}",
                 f"{desc}: reader failed with {e!r} after {len(received)} messages")
        ok, idx, states = merge_check(received, lanes)
        if not ok and not rerr:
            if idx is not None:
                m = received[idx]
                nxt = []
                for st in sorted(states)[:1]:
                    for i, (must, opt) in enumerate(lanes):
                        seq = must + ([opt] if opt else [])
                        nxt.append(seq[st[i]] if st[i] < len(seq) else None)
                allm = [x for must, opt in lanes for x in must + ([opt] if opt else [])]
                if m in allm:
                    what = "duplicate_or_out_of_order"
                elif any(x is not None and x[0] == m[0] and len(x[1]) == len(m[1]) for x in nxt if x and x[0] != "close"):
                    what = "corrupted_payload"
                else:
                    what = "unknown_message"
                viol("received_equals_sent", f"{what}{tag}",
                     f"{desc}: received message #{idx} {short(m)} is not the next message of any sender; next expected per "
                     f"sender: {[short(x) for x in nxt]}; received so far {[short(x) for x in received[:idx][-4:]]}")
            else:
                missing = []
                best = max(states, key=sum) if states else ()
                for i, (must, opt) in enumerate(lanes):
                    if best and best[i] < len(must):
                        missing.append(f"sender {i}: {short(must[best[i]])}")
                viol("received_equals_sent", f"completed_send_not_delivered{tag}",
                     f"{desc}: all bytes delivered, but completed sends are missing: {missing[:4]}; received {len(received)} messages")
        # the wire, decoded independently
        wire = b"".join(d for (_st, name, kind, d) in net.wire if kind == "w" and name == a.name)
        if not viols or all(v["invariant"] == "received_equals_sent" for v in viols):
            r = R.decode(wire, deflate=bool(neg["compress"]), max_msg_size=0, validate_text=True,
                         require_mask=neg["use_mask"], stop_at_close=False, strict_min_len=True)
            if r.error is not None or r.incomplete:
                viol("wire_is_rfc_conformant", f"wire_rejected:{r.error.cls if r.error else 'incomplete'}{tag}",
                     f"{desc}: reference decoder: {r.error} incomplete={r.incomplete} after {len(r.messages)} messages "
                     f"({len(wire)} octets on the wire)")
            elif not a.out.buf and not rerr and r.messages != received:
                k = next((j for j, (x, y) in enumerate(zip(r.messages, received)) if x != y), min(len(r.messages), len(received)))
                viol("wire_is_rfc_conformant", f"reader_differs_from_reference{tag}",
                     f"{desc}: message #{k}: reference decoded {short(r.messages[k]) if k < len(r.messages) else None}, "
                     f"aiohttp delivered {short(received[k]) if k < len(received) else None}")
        if not viols and loop.exc_contexts:
            c = loop.exc_contexts[0]
            viol("loop_exception", f"{c['exc_type']}@{c.get('frame')}", f"{desc}: exception reached the loop: {c}")
        ndata = sum(1 for m in received if m[0] in ("text", "binary"))
        if overlap[0]:
            probes["senders_overlapped_in_send"] = 1
        if loop.executor_jobs:
            probes["compressed_through_executor"] = 1
        if any(k == "in_send" for _, k in cancel_fired):
            probes["cancel_fired_inside_send"] = 1
        if cancel_fired:
            probes["cancel_fired"] = 1
        if any(lanes[s][1] is not None and lanes[s][1] in received for s in range(ns)):
            probes["cancelled_send_delivered_whole"] = 1
        if any(lanes[s][1] is not None and lanes[s][1] not in received for s in range(ns)):
            probes["cancelled_send_absent"] = 1
        if drain_blocked[0]:
            probes["drain_blocked"] = 1
        if loop.faults.get("pause_reading"):
            probes["reader_paused_transport"] = 1
        if scn["holds"]:
            probes["reader_hold"] = 1
        if any(m["compress"] for p in plan for m, _ in p):
            probes["per_message_override"] = 1
        if override_before[0]:
            probes["override_on_takeover_connection"] = 1
        if any(m["size"] in (65535, 65536, 65537) for p in plan for m, _ in p):
            probes["size_around_65536"] = 1
        if any(m["size"] in (16383, 16384, 16385) for p in plan for m, _ in p):
            probes["size_around_16KiB"] = 1
        if any(x == "refused" for st in status for x in st):
            probes["send_refused_after_close"] = 1
        stt = w.stats()
        res = {
            "violations": viols,
            "nontrivial": bool(ndata >= 3 and (overlap[0] or loop.executor_jobs or any(k == "in_send" for _, k in cancel_fired)
                                               or drain_blocked[0] or loop.faults.get("pause_reading"))),
            "sig": stt["sig"], "digest": stt["digest"], "steps": stt["steps"], "vtime": stt["vtime"],
            "faults": stt["faults"], "probes": dict(probes),
            "shape": f"U-s{ns}-c{neg['compress']}{'n' if neg['notakeover'] else ''}-m{int(neg['use_mask'])}-x{len(scn['cancels'])}-h{len(scn['holds'])}",
        }
        if log:
            res["event_log"] = loop.event_log
        return res


def _hold(loop, net, pipe):
    loop.faults["rd_pause"] += 1
    net.hold(pipe)


# ---------------------------------------------------------------------------
# world CS: real client and server


def run_cs(scn, ch, log=False):
    import aiohttp
    from aiohttp import web
    from sim.net import SimResolver

    viols = []

    def viol(inv, key, msg):
        if not any(v["invariant"] == inv and v["key"] == key for v in viols) and len(viols) < 4:
            viols.append({"invariant": inv, "key": key, "message": msg})

    probes = collections.Counter()
    c2s = [(m, make_payload(m, 0, i)) for i, m in enumerate(scn["c2s"])]
    s2c = [(m, make_payload(m, 1, i)) for i, m in enumerate(scn["s2c"])]
    got_server = []
    got_client = []
    state = {"negotiated": None, "server_done": False, "client_done": False, "err": None}

    def conv(msg):
        T = aiohttp.WSMsgType
        if msg.type == T.TEXT:
            return ("text", msg.data.encode() if isinstance(msg.data, str) else bytes(msg.data))
        if msg.type == T.BINARY:
            return ("binary", bytes(msg.data))
        if msg.type == T.PING:
            return ("ping", bytes(msg.data))
        if msg.type == T.PONG:
            return ("pong", bytes(msg.data))
        return (msg.type.name.lower(), b"")

    async def send_all(ws, items):
        for m, payload in items:
            if m["delay"]:
                await asyncio.sleep(m["delay"] * 0.001)
            if m["kind"] == "text":
                await ws.send_str(payload.decode())
            elif m["kind"] == "binary":
                await ws.send_bytes(payload)
            else:
                await ws.ping(payload)

    async def recv_n(ws, n, out):
        # data and ping messages the peer sent (autoping off so pings are visible); pongs are the peer's replies
        while sum(1 for x in out if x[0] in ("text", "binary", "ping")) < n:
            msg = await ws.receive()
            t = conv(msg)
            if t[0] in ("close", "closing", "closed", "error"):
                out.append(t)
                return
            out.append(t)

    async def handler(request):
        ws = web.WebSocketResponse(compress=scn["server_compress"], autoping=False, decode_text=scn["decode_text"])
        await ws.prepare(request)
        state["negotiated"] = ws.compress
        st = asyncio.ensure_future(send_all(ws, s2c))
        await recv_n(ws, len(c2s), got_server)
        await st
        state["server_done"] = True
        await ws.close()
        return ws

    with World(ch, scn.get("seed", 0), log_events=log) as w:
        loop, net = w.loop, w.net
        net.max_latency_ticks = scn["latency"]
        net.default_policy = scn["seg"]
        net.dns["ws.test"] = ["10.0.0.1"]

        async def main():
            app = web.Application()
            app.router.add_get("/ws", handler)
            runner = web.AppRunner(app, access_log=None, shutdown_timeout=1.0)
            await runner.setup()
            site = web.TCPSite(runner, "10.0.0.1", 80)
            await site.start()
            conn = aiohttp.TCPConnector(resolver=SimResolver(net))
            try:
                async with aiohttp.ClientSession(connector=conn) as sess:
                    async with sess.ws_connect("http://ws.test/ws", compress=scn["client_compress"], autoping=False,
                                               decode_text=scn["decode_text"]) as ws:
                        state["client_compress"] = ws.compress
                        st = asyncio.ensure_future(send_all(ws, c2s))
                        await recv_n(ws, len(s2c), got_client)
                        await st
                        state["client_done"] = True
                        await ws.close()
            finally:
                await runner.cleanup()

        t = loop.run_sim(main(), vt_cap=120.0, step_cap=600000)
        desc = (f"CS client_compress={scn['client_compress']} server_compress={scn['server_compress']} negotiated(server)="
                f"{state['negotiated']} seg={scn['seg']} c2s={[(m['kind'], m['size']) for m, _ in c2s]} "
                f"s2c={[(m['kind'], m['size']) for m, _ in s2c]}")
        if not t.done():
            viol("progress", "cs_session_blocked", f"{desc}: session did not finish (capped={loop.capped} idle={loop.idle}) "
                                                   f"server_done={state['server_done']} client_done={state['client_done']}")
        elif t.exception() is not None:
            viol("send_completes", f"cs_raised:{type(t.exception()).__name__}", f"{desc}: {t.exception()!r}")
        else:
            for name, got, want in (("server", got_server, c2s), ("client", got_client, s2c)):
                g = [x for x in got if x[0] in ("text", "binary", "ping")]
                wnt = [(m["kind"], p) for m, p in want]
                if g != wnt:
                    k = next((j for j, (x, y) in enumerate(zip(g, wnt)) if x != y), min(len(g), len(wnt)))
                    viol("received_equals_sent", f"cs_{name}_differs",
                         f"{desc}: {name} received message #{k} {short(g[k]) if k < len(g) else None}, "
                         f"sent {short(wnt[k]) if k < len(wnt) else None}; all received kinds {[x[0] for x in got]}")
        if not viols and loop.exc_contexts:
            c = loop.exc_contexts[0]
            viol("loop_exception", f"{c['exc_type']}@{c.get('frame')}", f"{desc}: exception reached the loop: {c}")
        probes["cs_session"] = 1
        if state["negotiated"]:
            probes["cs_deflate_negotiated"] = 1
        if loop.executor_jobs:
            probes["compressed_through_executor"] = 1
        stt = w.stats()
        res = {
            "violations": viols,
            "nontrivial": bool(len(got_server) + len(got_client) >= 3 and (loop.executor_jobs or state["negotiated"])),
            "sig": stt["sig"], "digest": stt["digest"], "steps": stt["steps"], "vtime": stt["vtime"],
            "faults": stt["faults"], "probes": dict(probes),
            "shape": f"CS-c{scn['client_compress']}-s{int(scn['server_compress'])}",
        }
        if log:
            res["event_log"] = loop.event_log
        return res


def oracle_selftest():
    R.oracle_selftest()
    a, b, c, d = ("text", b"a"), ("text", b"b"), ("binary", b"c"), ("ping", b"")
    assert merge_check([a, b], [([a, b], None)])[0]
    assert not merge_check([b, a], [([a, b], None)])[0]
    assert merge_check([a, c, b], [([a, b], None), ([c], None)])[0]
    assert merge_check([c, a, b], [([a, b], None), ([c], None)])[0]
    assert not merge_check([a], [([a, b], None)])[0]           # completed send missing
    assert merge_check([a], [([a], b)])[0]                      # cancelled send absent
    assert merge_check([a, b], [([a], b)])[0]                   # cancelled send delivered once
    assert not merge_check([a, b, b], [([a], b)])[0]            # ... but not twice
    assert merge_check([a, a], [([a], None), ([a], None)])[0]   # identical payloads from two senders
    assert not merge_check([a, d], [([a], None)])[0]
    for size in (0, 1, 5, 125, 1000, 16385):
        for fill in ("pat", "rnd", "zero", "utf"):
            for kind in ("text", "binary"):
                p = make_payload({"size": size, "fill": fill, "kind": kind, "seed": 5}, 1, 2)
                assert len(p) == size
                if kind == "text":
                    p.decode("utf-8")
    return True
