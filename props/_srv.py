"""World S helper: a real aiohttp.web.Application (catch-all middleware) behind
SimNet, driven by a scripted RawClient.  Shared by C01, C03, C05, C10."""
from __future__ import annotations

import asyncio

from ref import http1
from sim.peers import RawClient

ADDR = ("10.0.0.1", 80)


class Obs:
    def __init__(self):
        self.seen = []  # per handler call: dict
        self.handler_running = 0
        self.handler_started = 0
        self.handler_finished = 0
        self.handler_cancelled = 0
        self.max_started_minus_finished = 0


def make_app(loop, obs: Obs, behaviours: list, tick=0.001, client_max_size=1024 ** 2):
    from aiohttp import web

    @web.middleware
    async def mw(request, handler):
        n = len(obs.seen)
        # the parser's own message (the property's observation point), not the
        # normalised request.raw_path, which strips scheme://authority
        _msg = getattr(request, "_message", None)
        rec = {"n": n, "method": request.method, "target": _msg.path if _msg is not None else request.raw_path,
               "headers": [(bytes(a), bytes(b)) for a, b in request.raw_headers],
               "version": (request.version.major, request.version.minor),
               "body": None, "error": None, "pre_error": request.pre_handler_error is not None,
               "chunks": None}
        # how many bytes the server had written on this connection when the call began (simulated
        # transports only): everything from here to the next call's mark is this request's output
        _tr = getattr(request, "transport", None)
        rec["out0"] = getattr(getattr(_tr, "out", None), "written", None)
        obs.seen.append(rec)
        obs.handler_started += 1
        obs.handler_running += 1
        try:
            if request.pre_handler_error is not None:
                return await handler(request)  # aiohttp's own 400 path
            beh = behaviours[n % len(behaviours)] if behaviours else "read"
            return await behave(request, rec, beh, n)
        except asyncio.CancelledError:
            obs.handler_cancelled += 1
            raise
        finally:
            obs.handler_running -= 1
            obs.handler_finished += 1

    async def read_body(request, rec):
        try:
            rec["body"] = await request.read()
        except asyncio.CancelledError:
            raise
        except web.HTTPException as e:
            rec["error"] = f"HTTP{e.status}"
            raise
        except Exception as e:  # payload errors
            rec["error"] = type(e).__name__
            raise

    async def behave(request, rec, beh, n):
        hdr = {"X-Resp": str(n)}
        kind, _, arg = beh.partition(":")
        if kind == "read":
            await read_body(request, rec)
            return web.Response(body=b"ok%d" % n, headers=hdr)
        if kind == "readchunks":
            pieces, cur = [], bytearray()
            try:
                while True:
                    data, end = await request.content.readchunk()
                    cur += data
                    if end:
                        pieces.append(bytes(cur))
                        cur = bytearray()
                    # (b"", False) is the documented EOF marker; at_eof() guards against
                    # EMPTY_PAYLOAD.readchunk() answering (b"", True) for ever (known finding C08-F1)
                    if not data and (not end or request.content.at_eof()):
                        break
            except asyncio.CancelledError:
                raise
            except Exception as e:
                rec["error"] = type(e).__name__
                raise
            rec["body"] = b"".join(pieces) + bytes(cur)
            rec["chunks"] = [len(p) for p in pieces]
            return web.Response(body=b"ok%d" % n, headers=hdr)
        if kind == "ignore":
            return web.Response(body=b"ig%d" % n, headers=hdr)
        if kind == "partial":
            try:
                rec["partial"] = await request.content.read(1)
            except asyncio.CancelledError:
                raise
            except Exception as e:
                rec["error"] = type(e).__name__
                raise
            return web.Response(body=b"pa%d" % n, headers=hdr)
        if kind == "sleep":
            await asyncio.sleep(int(arg or 1) * tick)
            await read_body(request, rec)
            return web.Response(body=b"sl%d" % n, headers=hdr)
        if kind == "http403":
            raise web.HTTPForbidden(headers=hdr)
        if kind == "http204":
            raise web.HTTPNoContent(headers=hdr)
        if kind == "exc":
            raise RuntimeError("handler failure %d" % n)
        if kind == "timeout":
            raise asyncio.TimeoutError()
        if kind == "cancelled":
            raise asyncio.CancelledError()
        if kind == "nonresp":
            return "not a response"
        if kind == "stream":
            resp = web.StreamResponse(headers=hdr)
            if arg == "cl":
                resp.content_length = 6
            await resp.prepare(request)
            rec["started"] = "none"
            for piece in (b"ab", b"cd", b"ef"):
                await resp.write(piece)
                await asyncio.sleep(tick)
            await resp.write_eof()
            return resp
        if kind == "write_then_raise":
            resp = web.StreamResponse(headers=hdr)
            await resp.prepare(request)
            rec["started"] = "exc"
            await resp.write(b"partial")
            raise RuntimeError("after partial write %d" % n)
        if kind == "fail_after":
            # the handler starts a streamed response, gets as far as <stage>, and then ends in way <how>:
            # fail_after:<stage>-<how>; stage in prepare / write / clwrite (Content-Length announced, body
            # short) / pause (written, then a suspension point) / eof (response completed); how in none /
            # exc / timeout / realtimeout / cancelled / http403 / nonresp
            stage, _, how = arg.partition("-")
            resp = web.StreamResponse(headers=hdr)
            if stage == "clwrite":
                resp.content_length = 20
            await resp.prepare(request)
            rec["started"] = how
            if stage != "prepare":
                await resp.write(b"partial")
            if stage == "pause":
                await asyncio.sleep(tick)
            if stage == "eof":
                await resp.write_eof()
            if how == "exc":
                raise RuntimeError("after response start %d" % n)
            if how == "timeout":
                raise asyncio.TimeoutError()
            if how == "realtimeout":
                async with asyncio.timeout(3 * tick):
                    await asyncio.sleep(3600)
            if how == "cancelled":
                raise asyncio.CancelledError()
            if how == "http403":
                raise web.HTTPForbidden(headers=hdr)
            if how == "nonresp":
                return "not a response"
            return resp
        if kind == "lazy":
            # touch lazily parsed attributes: none of them may take the connection down
            for name in ("url", "host", "scheme", "query", "cookies", "content_type", "charset",
                         "content_length", "http_range", "if_modified_since", "path", "path_qs",
                         "query_string", "remote", "forwarded", "keep_alive", "if_match", "if_none_match"):
                try:
                    getattr(request, name)
                except (ValueError, web.HTTPException):
                    pass
            await read_body(request, rec)
            return web.Response(body=b"lz%d" % n, headers=hdr)
        if kind == "ws":
            ws = web.WebSocketResponse()
            if not ws.can_prepare(request).ok:
                return web.Response(status=426, body=b"up%d" % n, headers=hdr)
            await ws.prepare(request)
            await ws.close()
            return ws
        if kind == "bigresp":
            return web.Response(body=b"B" * int(arg or 70000), headers=hdr)
        if kind == "payload":
            # payload:<form>-<status>[-<size>]: an ordinary web.Response whose body is not bytes but an object
            # aiohttp converts to a Payload (file-like objects, text streams, async generators, a Payload
            # instance) and writes through the payload's own write(); with status 204 / 304, or in answer to
            # HEAD, such a response still ends at the blank line
            form, _, rest_ = arg.partition("-")
            st_, _, size = rest_.partition("-")
            await read_body(request, rec)
            return web.Response(status=int(st_ or 200), body=payload_body(form, n, int(size or 0)), headers=hdr)
        raise AssertionError("unknown behaviour " + beh)

    def payload_body(form, n, size):
        import io

        from aiohttp import payload as _payload

        text = b"pl%d:" % n + b"p" * size
        if form == "bytesio":
            return io.BytesIO(text)
        if form == "strio":
            return io.StringIO(text.decode("ascii"))
        if form == "bufrd":
            return io.BufferedReader(io.BytesIO(text))
        if form == "bytespl":
            return _payload.BytesPayload(text)
        if form == "agen":
            async def agen():
                yield text[:3]
                await asyncio.sleep(tick)
                yield text[3:]
            return agen()
        raise AssertionError("unknown payload form " + form)

    app = web.Application(middlewares=[mw], client_max_size=client_max_size)

    async def never(request):  # the middleware answers everything
        raise web.HTTPNotFound()

    app.router.add_route("*", "/{tail:.*}", never)
    return app


async def start_app(loop, app, server_kw):
    from aiohttp import web

    runner = web.AppRunner(app, access_log=None, shutdown_timeout=1.0, **server_kw)
    await runner.setup()
    site = web.TCPSite(runner, ADDR[0], ADDR[1])
    await site.start()
    return runner


def connect_client(w, pieces, end="keep", end_delay=0, policy=None, hold_rx=False):
    cl = RawClient(w.loop, pieces, end=end, end_delay=end_delay)
    ctr, str_ = w.net.connect_raw(ADDR, cl)
    if policy is not None:
        ctr.out.policy = policy
    return cl, ctr, str_


def split_server_output(cl: RawClient, methods, closed):
    return http1.split_responses(bytes(cl.received), methods=methods, closed=closed)
